"""C11 - one-dimensional conduction conserves energy exactly.

Additional tie (composition B, lean/UwgVerif/Model/SurfFlux.lean + Props/SurfFluxEnergy.lean): the whole
Element.SurfFlux = season partition (C18) + conduction step (C11), fractionised real routine vs `surfFlux`,
with the energy statement of the composition as oracle on the real results."""
import json
from fractions import Fraction as F
from types import SimpleNamespace as NS

import fracexec
from fracexec import frac_str, frac_list

MODULE = 'UwgVerif.Props.C11'
THEOREMS = ['Uwg.C11.conduction_solves', 'Uwg.C11.energy_flux_bc', 'Uwg.C11.energy_deep_bc',
            'Uwg.C11.steady_fixed_flux', 'Uwg.C11.steady_fixed_deep', 'Uwg.C11.uniform_fixed',
            'Uwg.C11.energy_sequence', 'Uwg.solve_sound', 'Uwg.pivots_of_mrows',
            'Uwg.pivots_of_sdd', 'Uwg.sat_unique_solve',
            # composition B: Element.SurfFlux = season partition + conduction step
            'Uwg.SurfFluxEnergy.surfflux_energy_flux_bc', 'Uwg.SurfFluxEnergy.surfflux_energy_deep_bc',
            'Uwg.SurfFluxEnergy.surfflux_offseason_bare', 'Uwg.SurfFluxEnergy.surfflux_isothermal',
            'Uwg.SurfFluxEnergy.surfflux_returns', 'Uwg.SurfFluxEnergy.surfFlux_ok_inv',
            'Uwg.SurfFluxEnergy.partition_flux']
SURF_MODULE = 'UwgVerif.Props.SurfFluxEnergy'


def rq(rng, lo, hi, den=None):
    den = den or rng.choice([1, 2, 4, 5, 10, 20, 100, 1000])
    return F(rng.randint(int(lo * den), int(hi * den)), den)


def gen_case(rng, n=None, kind=None):
    n = n if n is not None else rng.choice([2, 2, 3, 3, 4, 5, 6, 8, 10, 13, 20, 30, 40])
    kind = kind or rng.choice(['random', 'random', 'random', 'uniform', 'steady', 'uniform-inner',
                               'shared-material'])
    d = [rq(rng, 0.005, 1.0, 1000) or F(1, 100) for _ in range(n)]
    k = [rq(rng, 0.03, 3.0, 100) or F(1) for _ in range(n)]
    c = [rq(rng, 1e4, 3e6, 1) or F(10 ** 6) for _ in range(n)]
    dt = F(rng.choice([1, 30, 60, 300, 600, 900, 3600]))
    bc = rng.choice(['flux', 'deep'])
    flx1 = rq(rng, -500, 900, 10)
    if kind == 'shared-material':
        # one Material OBJECT in every layer (equal properties), layers of different thickness
        k = [k[0]] * n
        c = [c[0]] * n
        t = [rq(rng, 250, 330, 10) for _ in range(n)]
        v2 = rq(rng, -300, 300, 10) if bc == 'flux' else rq(rng, 270, 300, 10)
    elif kind == 'uniform-inner':
        # isothermal element, no flux at the outer face, but an ACTIVE inner boundary
        T = rq(rng, 250, 320, 10)
        t = [T] * n
        flx1 = F(0)
        v2 = rq(rng, 5, 300, 10) * rng.choice([1, -1]) if bc == 'flux' else T + rq(rng, 1, 15, 10) * rng.choice([1, -1])
    elif kind == 'uniform':
        T = rq(rng, 250, 320, 10)
        t = [T] * n
        flx1 = F(0)
        v2 = F(0) if bc == 'flux' else T
    elif kind == 'steady':
        q = rq(rng, -50, 50, 1)
        t = [rq(rng, 250, 320, 10)]
        for j in range(1, n):
            g = 2 / (d[j - 1] / k[j - 1] + d[j] / k[j])
            t.append(t[-1] - q / g)
        flx1 = q
        v2 = -q if bc == 'flux' else t[-1]
    else:
        t = [rq(rng, 250, 330, 10) for _ in range(n)]
        v2 = rq(rng, -300, 300, 10) if bc == 'flux' else rq(rng, 270, 300, 10)
    return dict(dt=dt, flx1=flx1, bc=bc, v2=v2, d=d, k=k, c=c, t=t, kind=kind)


def line_of(cs):
    return 'cond dt=%s flx1=%s bc=%s v2=%s d=%s k=%s c=%s t=%s' % (
        frac_str(cs['dt']), frac_str(cs['flx1']), cs['bc'], frac_str(cs['v2']),
        frac_list(cs['d']), frac_list(cs['k']), frac_list(cs['c']), frac_list(cs['t']))


def impl_conduction(pkg, cs):
    """Run the REAL Element.Conduction over exact rationals."""
    Element = pkg.element.Element
    Material = pkg.material.Material
    if cs.get('kind') == 'shared-material':
        one = Material(cs['k'][0], cs['c'][0], 'm')
        mats = [one] * len(cs['k'])
    else:
        mats = [Material(k, c, 'm') for k, c in zip(cs['k'], cs['c'])]
    e = Element(F(1, 10), F(9, 10), list(cs['d']), mats, F(0), F(293), 1, 'e')
    e.layerTemp = list(cs['t'])
    bc = 1 if cs['bc'] == 'flux' else 2
    temp2 = cs['v2'] if bc == 2 else F(0)
    flx2 = cs['v2'] if bc == 1 else F(0)
    try:
        return e.Conduction(cs['dt'], cs['flx1'], bc, temp2, flx2)
    except IndexError:
        return 'err index'
    except ZeroDivisionError:
        return 'err zerodiv'


def oracle(cs, xs):
    """The property itself, evaluated on an implementation result. Returns None or a message."""
    d, k, c, t = cs['d'], cs['k'], cs['c'], cs['t']
    n = len(d)
    if cs['bc'] == 'flux':
        lhs = sum(c[j] * d[j] * (xs[j] - t[j]) for j in range(n))
        rhs = cs['dt'] * (cs['flx1'] + cs['v2'])
        if lhs != rhs:
            return 'stored-energy change %s != dt*(flx1+flx2) %s' % (float(lhs), float(rhs))
    else:
        if xs[-1] != cs['v2']:
            return 'last layer %s != deep temperature %s' % (xs[-1], cs['v2'])
        g = 2 / (d[n - 2] / k[n - 2] + d[n - 1] / k[n - 1])
        deep = g * (F(1, 2) * (xs[n - 2] - xs[n - 1]) + F(1, 2) * (t[n - 2] - t[n - 1]))
        lhs = sum(c[j] * d[j] * (xs[j] - t[j]) for j in range(n - 1))
        rhs = cs['dt'] * (cs['flx1'] - deep)
        if lhs != rhs:
            return 'stored-energy change (all but deep layer) %s != dt*(flx1 - deep flux) %s' % (
                float(lhs), float(rhs))
    if cs['kind'] in ('uniform', 'steady') and list(xs) != list(t):
        return '%s profile is not a fixed point' % cs['kind']
    return None


def case_json(cs):
    return {k: (str(v) if isinstance(v, F) else [str(x) for x in v] if isinstance(v, list) else v)
            for k, v in cs.items()}


# ----------------------------------------------------------------------------- composition B: Element.SurfFlux
SURF_V = ('alb', 'vc', 'g', 'tr', 'solRec', 'infra', 'pres', 'deepT', 'va', 'gf', 'tf', 'wd', 'lv', 'dt', 'hum',
          'tref', 'wind', 'bc', 'intF')
SEASONS = ('before', 'in', 'after', 'wrap')


def gen_surf(rng, orient=None, bck=None, season=None, kind=None, n=None):
    """One call of Element.SurfFlux: orientation road / roof (horizontal without grass/tree attributes) / wall,
    boundary kind, season case, layering."""
    orient = orient or rng.choice(['road', 'roof', 'wall'])
    bck = bck or rng.choice(['flux', 'deep'])
    season = season or rng.choice(('before', 'in', 'in', 'in', 'after', 'wrap'))
    kind = kind or rng.choice(['random'] * 5 + ['isothermal'])
    n = n if n is not None else rng.choice([2, 2, 3, 4, 5, 7, 10, 12])
    cs = dict(orient=orient, bck=bck, season=season, kind=kind)
    cs['d'] = [rq(rng, 0.005, 0.5, 1000) or F(1, 100) for _ in range(n)]
    cs['k'] = [rq(rng, 0.03, 3.0, 100) or F(1) for _ in range(n)]
    cs['c'] = [rq(rng, 1e4, 3e6, 1) or F(10 ** 6) for _ in range(n)]
    cs['t'] = [rq(rng, 250, 330, 10) for _ in range(n)]
    if season == 'before':
        s = rng.randint(2, 12); e = rng.randint(s, 12); m = rng.randint(1, s - 1)
    elif season == 'in':
        s = rng.randint(1, 12); e = rng.randint(s, 12); m = rng.randint(s, e)
    elif season == 'after':
        e = rng.randint(1, 11); s = rng.randint(1, e); m = rng.randint(e + 1, 12)
    else:
        e = rng.randint(1, 11); s = rng.randint(e + 1, 12); m = rng.randint(1, 12)
    cs.update(m=m, s=s, e=e)
    cs.update(alb=rq(rng, 0.05, 0.6, 100), vc=rq(rng, 0, 1, 100), g=rq(rng, 0, 0.5, 100), tr=rq(rng, 0, 0.5, 100),
              solRec=rng.choice([F(0), rq(rng, 0, 900, 1), rq(rng, 0, 900, 10)]), infra=rq(rng, -120, 60, 10),
              pres=rq(rng, 80000, 103000, 1), deepT=rq(rng, 270, 300, 10), va=rq(rng, 0.1, 0.4, 100),
              gf=rq(rng, 0.2, 0.7, 100), tf=rq(rng, 0.3, 0.8, 100), wd=F(1000), lv=F(2500800),
              dt=F(rng.choice([1, 30, 60, 300, 600, 900, 3600])), hum=rq(rng, 0, 0.03, 10000),
              tref=rq(rng, 250, 320, 10), wind=rq(rng, 0, 9, 10),
              intF=rng.choice([F(0), rq(rng, -80, 80, 10)]))
    cs['bc'] = F(1) if bck == 'flux' else F(2)
    if kind == 'isothermal':
        T = cs['tref']
        cs['t'] = [T] * n
        cs['solRec'], cs['infra'] = F(0), F(0)
        if bck == 'flux':
            cs['intF'] = F(0)
        else:
            cs['deepT'] = T
    return cs


def surf_edge_cases(rng):
    """Error branches and boundary-kind tolerance of the real routine."""
    out = []
    for n in (0, 1):
        out.append(gen_surf(rng, n=n, kind='random'))
    c = gen_surf(rng, kind='random'); c['tref'] = F(0); out.append(c)                       # ZeroDivisionError
    c = gen_surf(rng, kind='random'); c['hum'] = F(-1000000, 1607858); out.append(c)        # ZeroDivisionError
    c = gen_surf(rng, kind='random', n=1); c['tref'] = F(0); out.append(c)                  # zerodiv before index
    for bc in (F(3), F(0), F(3, 2), F(1) + F(1, 10 ** 9), F(2) - F(1, 10 ** 9)):           # refused kinds
        c = gen_surf(rng, kind='random'); c['bc'] = bc; c['bck'] = 'other'; out.append(c)
    for bc, b in ((F(1) + F(1, 10 ** 11), 'flux'), (F(1) - F(1, 10 ** 11), 'flux'), (F(2) + F(1, 10 ** 11), 'deep')):
        c = gen_surf(rng, kind='random', bck=b); c['bc'] = bc; out.append(c)                # within is_near_zero
    c = gen_surf(rng, kind='random', n=1); c['bc'] = F(3); out.append(c)                    # index before kind
    return out


def make_surf_element(pkg, cs):
    Element, Material = pkg.element.Element, pkg.material.Material
    mats = [Material(k, c, 'm') for k, c in zip(cs['k'], cs['c'])]
    el = Element(cs['alb'], F(9, 10), list(cs['d']), mats, cs['vc'], F(293), 0 if cs['orient'] == 'wall' else 1, 'x')
    if cs['orient'] == 'road':
        el.grasscoverage, el.treecoverage = cs['g'], cs['tr']
    if el.waterStorage != 0:
        raise LiveEvaporation('Element.__init__ sets waterStorage = %r' % (el.waterStorage,))
    return el


class LiveEvaporation(Exception):
    pass


def water_storage_scan(repo):
    """The model follows the else branch of the waterStorage test: sound while nothing in uwg assigns the
    attribute except Element.__init__ (the constant 0) and the (then dead) branch of SurfFlux itself."""
    import ast
    import os
    bad = []
    for fn in sorted(os.listdir(os.path.join(repo, 'uwg'))):
        if not fn.endswith('.py'):
            continue
        tree = ast.parse(open(os.path.join(repo, 'uwg', fn), 'rb').read().decode('utf-8', 'ignore'))
        for fdef in [x for x in ast.walk(tree) if isinstance(x, (ast.FunctionDef, ast.Module))]:
            for node in (ast.walk(fdef) if isinstance(fdef, ast.FunctionDef) else []):
                tg = []
                if isinstance(node, ast.Assign):
                    tg = node.targets
                elif isinstance(node, (ast.AugAssign, ast.AnnAssign)):
                    tg = [node.target]
                for t in tg:
                    if isinstance(t, ast.Attribute) and t.attr == 'waterStorage':
                        ok = fn == 'element.py' and (
                            fdef.name == 'SurfFlux' or
                            (fdef.name == '__init__' and isinstance(node, ast.Assign) and
                             isinstance(node.value, ast.Constant) and node.value.value == 0))
                        if not ok:
                            bad.append('%s:%d %s assigns waterStorage' % (fn, node.lineno, fdef.name))
        if 'setattr' in open(os.path.join(repo, 'uwg', fn), 'rb').read().decode('utf-8', 'ignore') and \
                'waterStorage' in open(os.path.join(repo, 'uwg', fn), 'rb').read().decode('utf-8', 'ignore') and \
                fn != 'element.py':
            bad.append('%s mentions waterStorage and setattr' % fn)
    return bad


def surf_call(el, cs, set_temps=True):
    """Run the REAL (fractionised) Element.SurfFlux on the element's current state."""
    if set_temps:
        el.layerTemp = list(cs['t'])
    el.solRec, el.infra = cs['solRec'], cs['infra']
    forc = NS(pres=cs['pres'], prec=F(0), deepTemp=cs['deepT'])
    par = NS(vegStart=cs['s'], vegEnd=cs['e'], vegAlbedo=cs['va'], grassFLat=cs['gf'], treeFLat=cs['tf'],
             colburn=F(1), waterDens=cs['wd'], cp=F(1004), lv=cs['lv'], wgmax=F(1, 200))
    sim = NS(month=cs['m'], dt=cs['dt'])
    try:
        el.SurfFlux(forc, par, sim, cs['hum'], cs['tref'], cs['wind'], cs['bc'], cs['intF'])
    except ZeroDivisionError:
        return 'err zerodiv'
    except IndexError:
        return 'err index'
    except (AssertionError, AttributeError, TypeError, ValueError):
        raise
    except Exception as ex:  # noqa - Conduction's own "Error during conduction calculation"
        return 'err fatal' if 'conduction' in str(ex).lower() else 'err ' + type(ex).__name__
    return dict(aero=el.aeroCond, solAbs=el.solAbs, lat=el.lat, sens=el.sens, flux=el.flux, T_ext=el.T_ext,
                T_int=el.T_int, x=list(el.layerTemp))


def surf_line(cs):
    return 'surfflux hor=%d road=%d m=%d s=%d e=%d v=%s d=%s k=%s c=%s t=%s' % (
        0 if cs['orient'] == 'wall' else 1, 1 if cs['orient'] == 'road' else 0, cs['m'], cs['s'], cs['e'],
        frac_list([cs[k] for k in SURF_V]), frac_list(cs['d']), frac_list(cs['k']), frac_list(cs['c']),
        frac_list(cs['t']))


def surf_ans(r):
    if isinstance(r, str):
        return r
    return 'ok %s %s' % (frac_list([r['aero'], r['solAbs'], r['lat'], r['sens'], r['flux'], r['T_ext'], r['T_int']]),
                         frac_list(r['x']))


def surf_oracle(cs, r):
    """The statements of Props/SurfFluxEnergy.lean evaluated on a result of the real SurfFlux."""
    d, k, c, t, x = cs['d'], cs['k'], cs['c'], cs['t'], r['x']
    n = len(d)
    net = r['solAbs'] + cs['infra'] - r['lat'] - r['sens']
    if r['flux'] != net:
        return 'flux %s != solAbs + infra - lat - sens %s' % (float(r['flux']), float(net))
    if r['T_ext'] != x[0] or r['T_int'] != x[-1]:
        return 'T_ext / T_int are not the first / last new layer temperature'
    if cs['orient'] == 'wall' and r['lat'] != 0:
        return 'vertical element with latent heat %s' % r['lat']
    if cs['bc'] == 1 or cs['bck'] == 'flux':
        lhs = sum(c[j] * d[j] * (x[j] - t[j]) for j in range(n))
        rhs = cs['dt'] * (net + cs['intF'])
        if lhs != rhs:
            return 'stored-energy change %s != dt*(solAbs + infra - lat - sens + intFlux) %s' % (float(lhs), float(rhs))
    else:
        if x[-1] != cs['deepT']:
            return 'T_int %s != deep temperature %s' % (x[-1], cs['deepT'])
        g = 2 / (d[n - 2] / k[n - 2] + d[n - 1] / k[n - 1])
        deep = g * (F(1, 2) * (x[n - 2] - x[n - 1]) + F(1, 2) * (t[n - 2] - t[n - 1]))
        lhs = sum(c[j] * d[j] * (x[j] - t[j]) for j in range(n - 1))
        rhs = cs['dt'] * (net - deep)
        if lhs != rhs:
            return 'stored-energy change above the deep layer %s != dt*(net flux - deep flux) %s' % (float(lhs), float(rhs))
    if cs['kind'] == 'isothermal' and (list(x) != list(t) or r['flux'] != 0):
        return 'isothermal element without radiation changed (flux %s)' % r['flux']
    return None


def surf_twin(rng, cs):
    """Same call with other vegetation data: must give the same result off season / for a wall."""
    tw = dict(cs)
    tw.update(vc=rq(rng, 0, 1, 100), g=rq(rng, 0, 0.5, 100), tr=rq(rng, 0, 0.5, 100), va=rq(rng, 0.1, 0.4, 100),
              gf=rq(rng, 0.2, 0.7, 100), tf=rq(rng, 0.3, 0.8, 100))
    return tw


def run_surfflux(chk, pkg):
    try:
        run_surfflux_(chk, pkg)
    except LiveEvaporation as ex:
        chk.corr_problems.append({'tie': 'Element.SurfFlux~surfFlux', 'case': None, 'impl': str(ex),
                                  'model': 'surfFlux follows the else branch (waterStorage = 0)'})


def run_surfflux_(chk, pkg):
    rng = chk.rng
    import core
    wbad = water_storage_scan(core.REPO)
    if wbad:
        chk.corr_problems.append({'tie': 'waterStorage-scan', 'case': '; '.join(wbad[:3]),
                                  'impl': 'waterStorage can become non-zero: the evaporation branch of SurfFlux is live',
                                  'model': 'surfFlux follows the else branch (eg = 0)'})
    chk.direct('waterStorage-scan(AST of uwg/*.py)', 1, 1,
               'no assignment to an attribute waterStorage outside Element.__init__ (= 0) and SurfFlux itself',
               mismatches=len(wbad))
    big = chk.tier == 'thorough'
    cases = [gen_surf(rng, orient=o, bck=b, season=s) for o in ('road', 'roof', 'wall') for b in ('flux', 'deep')
             for s in SEASONS for _ in range(3 if not big else 12)]
    cases += [gen_surf(rng, orient=o, bck=b, kind='isothermal') for o in ('road', 'roof', 'wall')
              for b in ('flux', 'deep') for _ in range(3)]
    cases += [gen_surf(rng) for _ in range(120 if not big else 2000)]
    cases += surf_edge_cases(rng)
    results = [surf_call(make_surf_element(pkg, cs), cs) for cs in cases]

    def cls(line, impl):
        a = dict(w.split('=', 1) for w in line.split()[1:])
        m, s, e = int(a['m']), int(a['s']), int(a['e'])
        o = 'wall' if a['hor'] == '0' else 'road' if a['road'] == '1' else 'roof'
        bc = a['v'].strip('[]').split(';')[17]
        return '%s/%s/%s' % (o, 'bc1' if bc == '1/1' else 'bc2' if bc == '2/1' else 'bc~',
                             'off' if (m < s or m > e) else 'in')
    chk.correspond('Element.SurfFlux~surfFlux', 'C11', [(surf_line(cs), surf_ans(r)) for cs, r in zip(cases, results)],
                   rule='fractionised REAL Element.SurfFlux (horizontal road with grass/tree attributes, horizontal '
                        'roof-like, vertical wall; boundary kinds 1, 2, within / outside the is_near_zero tolerance, '
                        'refused kinds; months before / inside / after the season and empty (wrap-around) seasons; '
                        '2..12 layers, 0 and 1 layer, zero density denominator) vs Lean surfFlux: exact aeroCond, '
                        'solAbs, lat, sens, flux, T_ext, T_int and all new layer temperatures, or the error class',
                   classify=cls)
    bad, nor, br = 0, 0, {}
    for cs, r in zip(cases, results):
        if isinstance(r, str):
            continue
        nor += 1
        key = '%s/%s/%s' % (cs['orient'], cs['bck'], cs['kind'])
        br[key] = br.get(key, 0) + 1
        msg = surf_oracle(cs, r)
        if msg is None and (cs['orient'] == 'wall' or cs['m'] < cs['s'] or cs['m'] > cs['e']):
            tw = surf_twin(rng, cs)
            r2 = surf_call(make_surf_element(pkg, tw), tw)
            if isinstance(r2, str) or any(r2[q] != r[q] for q in ('solAbs', 'lat', 'sens', 'flux', 'x', 'T_ext', 'T_int')):
                msg = 'off season / vertical, yet other vegetation parameters change the result: %s vs %s' % (
                    r2 if isinstance(r2, str) else [float(v) for v in r2['x'][:2]], [float(v) for v in r['x'][:2]])
                cs = dict(cs, twin_vegetation={q: str(tw[q]) for q in ('vc', 'g', 'tr', 'va', 'gf', 'tf')})
        if msg:
            bad += 1
            if bad <= 3:
                chk.violation('impl-violation', 'energy / bare-ground / isothermal oracle on Element.SurfFlux',
                              case=case_json(cs), observed=msg,
                              expected='stored heat changes by dt*(solAbs + infra - lat - sens + intFlux) (kind 1) / '
                                       'deep-layer balance (kind 2); off season independent of vegetation; '
                                       'isothermal unchanged')
    chk.direct('energy-oracle(Element.SurfFlux)', nor, nor,
               'statements of Props/SurfFluxEnergy.lean evaluated on the exact results of the real SurfFlux: '
               'flux = solAbs + infra - lat - sens; stored-heat change = dt*(net flux + intFlux) for kind 1, '
               'deep-layer balance and T_int = deepTemp for kind 2; T_ext/T_int = first/last layer; wall: lat = 0; '
               'off season / wall: a twin with other vegetation data gives identical results; isothermal cases '
               'unchanged', mismatches=bad, branches=br)
    # histories on ONE Element: months cross the season, timestep / boundary / radiation vary, the layer
    # temperatures are carried by the object itself from call to call (as in simulate)
    nseq = 12 if not big else 120
    pairs, sbad, nst = [], 0, 0
    for _ in range(nseq):
        base = gen_surf(rng, kind='random', n=rng.choice([2, 3, 5, 8]))
        el = make_surf_element(pkg, base)
        cur = list(base['t'])
        for step in range(rng.randint(3, 6)):
            cs = gen_surf(rng, orient=base['orient'], kind='random', n=len(base['d']))
            for q in ('d', 'k', 'c', 'alb', 'vc', 'g', 'tr'):
                cs[q] = base[q]
            cs['t'] = cur
            cs['s'], cs['e'] = base['s'], base['e']
            cs['m'] = rng.randint(1, 12)
            r = surf_call(el, cs)
            pairs.append((surf_line(cs), surf_ans(r)))
            nst += 1
            if isinstance(r, str):
                break
            msg = surf_oracle(cs, r)
            if msg:
                sbad += 1
                if sbad <= 2:
                    chk.violation('impl-violation', 'energy oracle on a history of SurfFlux calls on one Element (step %d)' % step,
                                  case=case_json(cs), observed=msg, expected='exact energy balance at every call')
            cur = list(el.layerTemp)
    chk.correspond('Element.SurfFlux(history on one object)~surfFlux', 'C11', pairs,
                   rule='3-6 successive SurfFlux calls on the SAME Element (month, timestep, boundary kind, radiation '
                        'and reference air vary; layer temperatures carried by the object) vs the stateless Lean model '
                        'on the current state', classify=cls)
    chk.direct('energy-oracle(SurfFlux history on one object)', nst, nst,
               'SurfFluxEnergy statements at every call of every history', mismatches=sbad)
    chk.assumptions.append('Element.waterStorage is 0 for every element uwg creates (set in __init__, assigned nowhere '
                           'else): the evaporation branch of SurfFlux is dead and the model follows the else branch; '
                           'an AST scan of the tree under test checks this on every run, and the elements built by the harness are checked to start at 0. '
                           'Elements whose film a CALLER sets (as tests/test_element.py does) are outside the Lean surfFlux; they are '
                           'explored on the real Conduction / SurfFlux by the ties "element state off its defaults", "a caller set '
                           'waterStorage > 0 before the step" and "live-run-with-water-films" (property-level energy oracle, exact '
                           'and float; Conduction itself is tied exactly to the Lean model, which knows the layers only)')


# ----------------------------------------------------------------------------- round 4: circumstances
# The property speaks about the stored heat of THE STEPPED ELEMENT over any sequence of steps. The ties above step one
# private element the way SurfFlux does. The families below vary what is not an input of the property at all:
# who else holds the temperature list, who looks at the element between two steps, the logging level, the interpreter
# mode, the route by which the element was built, which other elements live (or were parsed) in the process.
def _conv(mode):
    return (lambda x: x) if mode == 'exact' else float


def build_element(impl, cs, conv, temps=None):
    Element, Material = impl.element.Element, impl.material.Material
    if cs.get('kind') == 'shared-material':
        one = Material(conv(cs['k'][0]), conv(cs['c'][0]), 'm')
        mats = [one] * len(cs['k'])
    else:
        mats = [Material(conv(k), conv(c), 'm') for k, c in zip(cs['k'], cs['c'])]
    el = Element(conv(F(1, 10)), conv(F(9, 10)), [conv(x) for x in cs['d']], mats, conv(F(0)), conv(F(293)), 1, 'e')
    el.layerTemp = [conv(x) for x in cs['t']] if temps is None else temps
    return el


def call_cond(el, cs, conv, dt=None):
    bc = 1 if cs['bc'] == 'flux' else 2
    return el.Conduction(conv(cs['dt'] if dt is None else dt), conv(cs['flx1']), bc,
                         conv(cs['v2']) if bc == 2 else conv(F(0)), conv(cs['v2']) if bc == 1 else conv(F(0)))


def balance_msg(cs, before, after, tol, dt=None):
    """C11 as the CALLER books it: heat stored in `after` minus heat stored in `before` (the caller's own records of
    the profile) against the heat supplied by the step(s). tol = 0: exact."""
    d, k, c = cs['d'], cs['k'], cs['c']
    n = len(d)
    b = [F(x) for x in before]
    a = [F(x) for x in after]
    dt = cs['dt'] if dt is None else dt
    scale = sum(c[j] * d[j] * abs(b[j]) for j in range(n)) or F(1)
    if cs['bc'] == 'flux':
        lhs = sum(c[j] * d[j] * (a[j] - b[j]) for j in range(n))
        rhs = dt * (cs['flx1'] + cs['v2'])
    else:
        if abs(a[-1] - cs['v2']) > tol:
            return 'deep layer %s is not the deep temperature %s' % (float(a[-1]), float(cs['v2']))
        g = 2 / (d[n - 2] / k[n - 2] + d[n - 1] / k[n - 1])
        deep = g * (F(1, 2) * (a[n - 2] - a[n - 1]) + F(1, 2) * (b[n - 2] - b[n - 1]))
        lhs = sum(c[j] * d[j] * (a[j] - b[j]) for j in range(n - 1))
        rhs = dt * (cs['flx1'] - deep)
    if abs(lhs - rhs) > tol * scale:
        return 'stored heat changed by %.6f J/m2, heat supplied at the two faces x dt = %.6f J/m2' % (float(lhs), float(rhs))
    return None


def vary_step(rng, base):
    cs = dict(base)
    cs['dt'] = F(rng.choice([1, 60, 300, 600, 900, 1800, 3600]))
    cs['bc'] = rng.choice(['flux', 'deep'])
    cs['flx1'] = rq(rng, -500, 900, 10)
    cs['v2'] = rq(rng, -300, 300, 10) if cs['bc'] == 'flux' else rq(rng, 270, 300, 10)
    return cs


OWNERSHIP = ('kept-reference', 'rejected-trial-steps', 'shallow-copy-before-step', 'two-elements-one-initial-list',
             'result-kept-by-caller', 'constructor-lists-shared')


def ownership_case(impl, mode, rng, scen, cs):
    """one ownership scenario; returns a list of messages (empty = fine)"""
    import copy as _copy
    import u3_util as U3
    conv = _conv(mode)
    tol = F(0) if mode == 'exact' else F(1, 10 ** 9)
    msgs = []
    el = build_element(impl, cs, conv)
    p = el.layerTemp
    snap = list(p)
    if scen == 'kept-reference':
        new = call_cond(el, cs, conv)
        if new is p:
            msgs.append('Conduction returned the list object behind layerTemp instead of a new profile')
        if list(p) != snap:
            msgs.append('the list the caller kept as "temperatures before the step" was rewritten by the step: %s -> %s'
                        % ([float(x) for x in snap[:3]], [float(x) for x in p[:3]]))
        el.layerTemp = new
        m = balance_msg(cs, p, el.layerTemp, tol)
        if m:
            msgs.append('caller books E(now) - E(kept list): ' + m)
    elif scen == 'rejected-trial-steps':
        st0 = U3.state(el)
        for dt_try in rng.sample([1, 60, 900, 1800, 3600, 7200], 3):
            r1 = call_cond(el, cs, conv, dt=F(dt_try))
            r2 = call_cond(el, cs, conv, dt=F(dt_try))
            if list(r1) != list(r2):
                msgs.append('the same trial step (dt %d) evaluated twice gives two results: %s vs %s'
                            % (dt_try, [float(x) for x in r1[:3]], [float(x) for x in r2[:3]]))
                break
        w = U3.where(st0, U3.state(el))
        if w:
            msgs.append('Conduction calls whose result was discarded changed the element: ' + w)
        el.layerTemp = call_cond(el, cs, conv)
        m = balance_msg(cs, snap, el.layerTemp, tol)
        if m:
            msgs.append('three rejected trial steps, then one accepted step of %s s: %s' % (cs['dt'], m))
    elif scen == 'shallow-copy-before-step':
        rec = _copy.copy(el)
        cur = cs
        for _ in range(rng.randint(1, 3)):
            el.layerTemp = call_cond(el, cur, conv)
            cur = vary_step(rng, cs)
        if list(rec.layerTemp) != snap:
            msgs.append('a shallow copy of the element taken before the step (a record: no step, no flux) changed its '
                        'temperatures while the live element was stepped: %s -> %s'
                        % ([float(x) for x in snap[:3]], [float(x) for x in rec.layerTemp[:3]]))
        r1 = call_cond(rec, cs, conv)
        r2 = call_cond(build_element(impl, cs, conv), cs, conv)
        if list(r1) != list(r2):
            msgs.append('the record stepped on its own differs from a fresh element with the recorded profile')
    elif scen == 'two-elements-one-initial-list':
        other = dict(cs, k=[x * 2 for x in cs['k']], c=[x / 2 for x in cs['c']])
        b = build_element(impl, other, conv, temps=p)
        cur = cs
        for _ in range(3):
            el.layerTemp = call_cond(el, cur, conv)
            cur = vary_step(rng, cs)
        if list(b.layerTemp) != snap or list(p) != snap:
            dE = sum(other['c'][j] * other['d'][j] * (F(b.layerTemp[j]) - F(snap[j])) for j in range(len(snap)))
            msgs.append('two elements initialised from one profile list: stepping the first changed the second (no step, '
                        'no flux): its stored heat moved by %.3f J/m2' % float(dE))
        r1 = call_cond(b, other, conv)
        r2 = call_cond(build_element(impl, other, conv), other, conv)
        if list(r1) != list(r2):
            msgs.append('the second element stepped afterwards differs from a fresh element with the initial profile')
    elif scen == 'result-kept-by-caller':
        r = call_cond(el, cs, conv)
        r[0] = r[0] + 100                   # the caller scribbles on ITS result (never assigned to the element)
        r2 = call_cond(el, cs, conv)
        fresh = call_cond(build_element(impl, cs, conv), cs, conv)
        if list(r2) != list(fresh) or list(el.layerTemp) != snap:
            msgs.append('a result the caller discarded and overwrote reaches the element: next call gives %s, a fresh '
                        'element %s' % ([float(x) for x in r2[:2]], [float(x) for x in fresh[:2]]))
        el.layerTemp = r2
        keep = list(r2)
        cs2 = vary_step(rng, cs)
        r3 = call_cond(el, cs2, conv)
        if r3 is r2 or list(r2) != keep:
            msgs.append('the profile assigned after step 1 (and still held by the caller) was rewritten by step 2')
        m = balance_msg(dict(cs2, t=keep), r2, r3, tol)
        if m:
            msgs.append('step 2 booked against the caller\'s copy of the result of step 1: ' + m)
    elif scen == 'constructor-lists-shared':
        Element = impl.element.Element
        b = Element(el.albedo, el.emissivity, el.layer_thickness_lst, el.material_lst, conv(F(0)), conv(F(293)), 1, 'b')
        sb = U3.state(b)
        for _ in range(2):
            el.layerTemp = call_cond(el, cs, conv)
        w = U3.where(sb, U3.state(b))
        if w:
            msgs.append('an element built from the same thickness / material lists changed when the other was stepped: ' + w)
    return msgs


SHAPES = ('descending', 'ascending', 'zigzag', 'uniform', 'steady', 'random')


def shaped_sequence(rng, shape, n=None):
    """an element and 2-4 steps; profile warm outside / cold outside / alternating / isothermal / steady / random"""
    n = n or rng.choice([2, 3, 4, 4, 6, 9, 14])
    if shape == 'steady':
        base = gen_case(rng, n=n, kind='steady')
        steps = []
        for _ in range(rng.randint(2, 4)):
            cs = dict(base, dt=F(rng.choice([60, 300, 900, 3600])))
            steps.append(cs)
        return base, steps
    if shape == 'uniform':
        base = gen_case(rng, n=n, kind='uniform')
        return base, [dict(base, dt=F(rng.choice([60, 300, 3600]))) for _ in range(rng.randint(2, 3))]
    base = gen_case(rng, n=n, kind='random')
    t = sorted(base['t'])
    if shape == 'descending':
        t = t[::-1]
    elif shape == 'zigzag':
        t = [t[i // 2] if i % 2 == 0 else t[-1 - i // 2] for i in range(n)]
    elif shape == 'random':
        rng.shuffle(t)
    if len(set(t)) == 1:
        t[0] = t[0] + 5
    base['t'] = t
    return base, [vary_step(rng, base) for _ in range(rng.randint(2, 4))]


def run_sequence(impl, mode, base, steps, look=None):
    conv = _conv(mode)
    el = build_element(impl, base, conv)
    if look:
        look(el)
    out = []
    for cs in steps:
        r = call_cond(el, cs, conv)
        el.layerTemp = r
        out.append(list(r))
        if look:
            look(el)
    return out, el


def lookers():
    import generic as G
    import u3_util as U3

    def under_debug(el):
        with G.debug_logging():
            import logging
            logging.getLogger('uwg').debug('element %r', el)
            logging.getLogger().debug('element %s', el)
    return [('repr', lambda el: repr(el)), ('str', lambda el: str(el)), ('%r-format', lambda el: '%r' % (el,)),
            ('print', lambda el: print(el, file=__import__('io').StringIO())),
            ('every renderer of every reachable object', U3.render),
            ('DEBUG log line with the element as lazy argument', under_debug),
            ('to_dict + json', lambda el: json.dumps(el.to_dict(), default=str)),
            ('shallow + deep copy', lambda el: (__import__('copy').copy(el), __import__('copy').deepcopy(el)))]


def run_circumstances(chk, pkg):
    import core
    import generic as G
    import uwgutil as UU
    import u3_util as U3
    rng = chk.rng
    big = chk.tier == 'thorough'
    plain = UU.uwg_mod()
    impls = (('exact', pkg), ('float', plain))
    dg_frac0, dg_plain0 = U3.class_digest('uwgfrac')[0], U3.class_digest('uwg')[0]

    # ---- [6] who else holds the temperature list
    nbad, ncase, br = 0, 0, {}
    for mode, impl in impls:
        for scen in OWNERSHIP:
            for _ in range(4 if not big else 30):
                cs = gen_case(rng, kind=rng.choice(['random', 'random', 'shared-material']),
                              n=rng.choice([2, 3, 4, 5, 8, 12]))
                ncase += 1
                br['%s/%s' % (mode, scen)] = br.get('%s/%s' % (mode, scen), 0) + 1
                msgs = ownership_case(impl, mode, rng, scen, cs)
                if msgs:
                    nbad += 1
                    if nbad <= 3:
                        chk.violation('impl-violation', 'ownership of the temperature list (%s, %s arithmetic)' % (scen, mode),
                                      case=dict(case_json(cs), scenario=scen, arithmetic=mode), observed=' | '.join(msgs[:3]),
                                      expected='only the stepped element changes, by dt x (heat supplied at its faces), and '
                                               'only when the caller assigns the returned profile')
    # SurfFlux: the profile found in the element is replaced, never rewritten
    import copy as _copy
    for _ in range(12 if not big else 100):
        cs = gen_surf(rng, kind='random', n=rng.choice([2, 3, 5, 8]))
        el = make_surf_element(pkg, cs)
        old = list(cs['t'])
        el.layerTemp = old
        snap = list(old)
        rec = _copy.copy(el)
        r = surf_call(el, cs, set_temps=False)
        ncase += 1
        br['exact/SurfFlux-kept-reference'] = br.get('exact/SurfFlux-kept-reference', 0) + 1
        if isinstance(r, str):
            continue
        msgs = []
        if old != snap or el.layerTemp is old:
            msgs.append('SurfFlux committed the step into the list object it found (a kept reference / a shallow record '
                        'sees the new profile): %s -> %s' % ([float(x) for x in snap[:3]], [float(x) for x in old[:3]]))
        if list(rec.layerTemp) != snap:
            msgs.append('shallow copy taken before SurfFlux changed')
        m = surf_oracle(dict(cs, t=old), r)
        if m:
            msgs.append('booked against the kept list: ' + m)
        if msgs:
            nbad += 1
            if nbad <= 3:
                chk.violation('impl-violation', 'ownership of the temperature list (SurfFlux)', case=case_json(cs),
                              observed=' | '.join(msgs), expected='layerTemp is rebound to a new list')
    chk.direct('ownership-of-the-temperature-list(Conduction, SurfFlux)', ncase, ncase,
               'circumstance [6] - what the caller does with its own data: the REAL Conduction (exact rationals AND plain '
               'floats) on elements whose temperature list is reachable from somewhere else: a reference kept by the '
               'caller to book E(after) - E(before); three rejected trial steps (dt 1..7200 s, each evaluated twice) '
               'before the accepted one; a shallow copy (copy.copy, as simulate() takes its records) before 1-3 steps; two '
               'elements initialised from one profile list; a result the caller discards and overwrites / keeps across the '
               'next step; two elements built from one thickness / material list; SurfFlux with a kept reference and a '
               'shallow record. Oracle: the stored heat of the stepped element changes by dt x supplied heat as the '
               'caller books it, nothing else changes, the same call twice gives the same result, the returned list is '
               'a new object', mismatches=nbad, branches=br)

    # ---- [1][2] somebody looks at the element between two steps
    nbad, ncase, br = 0, 0, {}
    looks = lookers()
    for mode, impl in impls:
        tol = F(0) if mode == 'exact' else F(1, 10 ** 9)
        for shape in SHAPES:
            for li, (lname, look) in enumerate(looks):
                if not big and mode == 'float' and li not in (0, 4, 5):
                    continue
                base, steps = shaped_sequence(rng, shape)
                ref, _ = run_sequence(impl, mode, base, steps)
                got, el = run_sequence(impl, mode, base, steps, look)
                ncase += 1
                br['%s/%s' % (mode, shape)] = br.get('%s/%s' % (mode, shape), 0) + 1
                msgs = []
                fd = G.first_diff(got, ref)
                if fd:
                    msgs.append('profile after step %d differs from the sequence nobody looked at: %s vs %s'
                                % (fd[0] + 1, [float(x) for x in (fd[1] or [])[:4]], [float(x) for x in (fd[2] or [])[:4]]))
                prev = [_conv(mode)(x) for x in base['t']]
                for i, (cs, r) in enumerate(zip(steps, got)):
                    m = balance_msg(cs, prev, r, tol)
                    if m and not msgs[1:]:
                        msgs.append('step %d of the observed sequence: %s' % (i + 1, m))
                    prev = r
                if shape in ('steady', 'uniform') and mode == 'exact' and got[-1] != list(base['t']):
                    msgs.append('%s profile moved by %.3g K over the sequence step, look, step' % (
                        shape, max(abs(float(a - b)) for a, b in zip(got[-1], base['t']))))
                if msgs:
                    nbad += 1
                    if nbad <= 3:
                        chk.violation('impl-violation', 'somebody looks at the element between two steps (%s; %s arithmetic)'
                                      % (lname, mode), case=dict(case_json(base), profile=shape, observer=lname,
                                                                 steps=[case_json({k: c[k] for k in ('dt', 'bc', 'flx1', 'v2')})
                                                                        for c in steps]),
                                      observed=' | '.join(msgs[:3]),
                                      expected='rendering an element is not a step: same profiles as the unobserved sequence, '
                                               'energy balance at every step, steady / uniform profile fixed')
    chk.direct('observers-between-steps(Conduction sequences)', ncase, ncase,
               'circumstances [1][2] - who looks, logging level: sequences of 2-4 REAL Conduction steps on one element '
               '(exact and float) with the element rendered after construction, between all steps and at the end by '
               'repr / str / %r / print / every renderer of every reachable object (ToString, to_dict, copies, vars) / a '
               'DEBUG log line with the element as lazy argument under a formatting handler / to_dict+json / copies; '
               'profiles warm outside (descending with depth), cold outside, alternating, isothermal, steady with a '
               'constant flux, random; 2..14 layers. Oracle: profiles identical to the sequence nobody looked at, energy '
               'balance of every step against the caller\'s record of the previous profile, steady / uniform fixed',
               mismatches=nbad, branches=br)

    # ---- [5] other elements in the process: interleaved sequences, class-level data
    nbad, ncase = 0, 0
    for mode, impl in impls:
        for _ in range(6 if not big else 40):
            (b1, s1), (b2, s2) = shaped_sequence(rng, 'random'), shaped_sequence(rng, 'descending')
            r1, _ = run_sequence(impl, mode, b1, s1)
            r2, _ = run_sequence(impl, mode, b2, s2)
            conv = _conv(mode)
            e1, e2 = build_element(impl, b1, conv), build_element(impl, b2, conv)
            o1, o2 = [], []
            for i in range(max(len(s1), len(s2))):
                if i < len(s1):
                    e1.layerTemp = call_cond(e1, s1[i], conv); o1.append(list(e1.layerTemp))
                if i < len(s2):
                    e2.layerTemp = call_cond(e2, s2[i], conv); o2.append(list(e2.layerTemp))
            ncase += 1
            if o1 != r1 or o2 != r2:
                nbad += 1
                if nbad <= 2:
                    chk.violation('impl-violation', 'two elements stepped alternately differ from each stepped alone (%s)' % mode,
                                  case={'a': case_json(b1), 'b': case_json(b2)}, observed='interleaved results differ',
                                  expected='an element\'s step depends on that element only')
    changed = []
    if U3.class_digest('uwgfrac')[0] != dg_frac0:
        changed.append('fractionised package')
    if U3.class_digest('uwg')[0] != dg_plain0:
        changed.append('plain package')
    if changed:
        nbad += 1
        chk.violation('impl-violation', 'class-level data changed by kernel operations', case={'packages': changed},
                      observed='class-level / module-level data of %s differ after constructing, stepping and rendering '
                               'elements' % ', '.join(changed), expected='constants')
    chk.direct('other-elements-in-the-process(interleaved sequences, class-level data)', ncase + 2, ncase,
               'circumstance [5]: two elements stepped alternately equal each stepped alone (exact and float); the digest '
               'of every class-level / module-level object of the package is the same before and after all kernel '
               'scenarios of this check', mismatches=nbad)

    # ---- [4] the dictionary / JSON route of an Element
    base_cs = gen_case(rng, kind='random', n=4)
    base_cs.update(d=[F(1, 40), F(1, 20), F(1), F(2)], t=[F(305), F(301), F(296), F(294)])
    el0 = build_element(plain, base_cs, float)
    el0.vegcoverage, el0.t_init = 0.25, 293.0
    base_d = json.loads(json.dumps(el0.to_dict()))

    def behave(el):
        el.layerTemp = [305.0, 301.0, 296.0, 294.0]
        return [list(el.Conduction(300., 85., 1, 0., -12.5)), list(el.Conduction(900., 20., 2, 288., 0.))]
    probs, br = U3.dict_route_problems(plain.element.Element, base_d, rng, behave)
    for label, d, obs, exp in probs[:3]:
        chk.violation('impl-violation', 'Element dictionary route: ' + label, case={'element_dictionary': d, 'member': label},
                      observed=obs, expected=exp)
    chk.direct('element-dictionary-route(hand-edited Element dictionaries)', sum(br.values()), sum(br.values()),
               'circumstance [4] - the route: Element.from_dict on the JSON of to_dict() and on hand-edited variants: '
               'every key absent / null, extra keys, every numeric key as int / float / numeric text, thickness and '
               'material numbers as ints / text, the orientation flag written as bool / int / float / text (19 '
               'spellings). Verdict = the one of the unchanged tree; an accepted dictionary gives the element of the '
               'constructor route (attributes, two Conduction steps bit for bit) with the orientation the flag means; the '
               'result does not depend on which Element dictionary was parsed before (a contrasting one is parsed in '
               'between); the caller\'s dictionary and class-level data are left alone',
               mismatches=len(probs), branches=br)

    # ---- [3] python -O at kernel level
    probs, nk = U3.kernel_verdict_problems(chk, 'C11')
    for lab, obs, exp in probs[:2]:
        chk.violation('impl-violation', 'kernel call under python -O / verdict of a refusal: ' + lab, case={'call': lab},
                      observed=obs, expected=exp)
    chk.direct('kernel-calls-under-python-O(Conduction, SurfFlux, Element.from_dict)', nk, nk,
               'circumstance [3]: ordinary Conduction / SurfFlux / from_dict calls and every refusal the unchanged tree '
               'expresses without `assert` (boundary kind 3 and 1.5, one layer, dt 0, reference temperature 0, missing '
               'orientation key, orientation "false") in this process and in a fresh interpreter under python -O: '
               'identical outcomes bit for bit, each refusal of the class the unchanged tree raises', mismatches=len(probs))

    # ---- [1]-[6] on a compact live run
    data = U3.default_data(month=rng.choice([1, 4, 7, 10]), day=rng.randint(1, 28))
    nb = U3.planted_wall_data(month=rng.choice([2, 6, 11]))
    res, probs = U3.live_circumstances(chk, data, UU.rp(UU.EPW_SGP), ('conduction',), 'live11',
                                       neighbour=(nb, UU.rp(UU.EPW_SGP)))
    for circ, obs, exp in probs[:3]:
        chk.violation('impl-violation', 'live run under a circumstance that must not matter: ' + circ,
                      case={'month': data['month'], 'day': data['day'], 'nday': 1, 'dtsim': 300, 'circumstance': circ,
                            'epw': UU.EPW_SGP}, observed=obs, expected=exp)
    calls = res['plain']['monitors']['conduction']['counts']
    chk.direct('live-run-under-circumstances(Conduction monitor)', calls.get('calls', 0), len(res),
               'a 1-day run (Singapore, dtsim 300, dictionary route) with EVERY Element.Conduction call monitored (pure: '
               'the list passed in and every other attribute unchanged; result a new list; stored-heat change = dt x heat '
               'supplied to 1e-9 for both boundary kinds), repeated [1] with the whole model rendered after '
               'construction / generate() / every 41st step / at the end, [2] under DEBUG logging, [3] under python -O, '
               '[4] through `python -m uwg simulate model` (real subprocess, and executed inside a monitored child), [5] '
               'with another model generated and simulated between generate() and simulate(), [6] caller\'s dictionary '
               'compared before / after: records, written file and verdict equal the plain run, the monitor holds '
               'everywhere', mismatches=len(probs), branches={k: 1 for k in res})



# ----------------------------------------------------------------------------- round 5: element state off its defaults
# Every element uwg generates has waterStorage = 0, horizontal as its role says, bookkeeping attributes as the last
# SurfFlux left them. All of them are documented attributes a caller may set (the package's own tests set
# `rural.waterStorage = 0.005`). C11 speaks about the LAYERS: whatever else the element carries, one step changes the
# heat stored in the layers by dt x the heat supplied at the two faces.
FLAGS = (True, False, 1, 0)


def gen_state(rng, film=None):
    import v3_util as V3
    st = dict(flag=rng.choice(FLAGS), film=film or rng.choice(V3.FILMS), vc=rq(rng, 0, 1, 100),
              alb=rq(rng, 0.05, 0.9, 100), emis=rq(rng, 0.1, 1, 100), route=rng.choice(['constructor', 'from_dict']),
              roadlike=rng.random() < 0.4,
              book={k: rq(rng, -400, 900, 10) for k in ('solRec', 'infra', 'lat', 'sens', 'solAbs', 'flux', 'aeroCond')})
    st['book'].update(T_ext=rq(rng, 250, 330, 10), T_int=rq(rng, 250, 330, 10))
    return st


def state_json(st):
    return dict(horizontal_flag=repr(st['flag']), waterStorage='%s (%s)' % (st['film'][1], st['film'][0]),
                vegcoverage=str(st['vc']), albedo=str(st['alb']), emissivity=str(st['emis']), built_by=st['route'],
                grass_and_tree_attributes=st['roadlike'], bookkeeping_attributes={k: str(v) for k, v in st['book'].items()})


def build_stateful(impl, cs, st, conv):
    """an Element through the constructor or through Element.from_dict, then the documented attributes assigned the
    way a caller does (plain attribute assignment)"""
    import v3_util as V3
    Element, Material = impl.element.Element, impl.material.Material
    if cs.get('kind') == 'shared-material':
        one = Material(conv(cs['k'][0]), conv(cs['c'][0]), 'm')
        mats = [one] * len(cs['k'])
    else:
        mats = [Material(conv(k), conv(c), 'm%d' % j) for j, (k, c) in enumerate(zip(cs['k'], cs['c']))]
    d = [conv(x) for x in cs['d']]
    if st['route'] == 'constructor':
        el = Element(conv(st['alb']), conv(st['emis']), d, mats, conv(st['vc']), conv(F(293)), st['flag'], 'e')
    else:
        el = Element.from_dict({'type': 'Element', 'albedo': conv(st['alb']), 'emissivity': conv(st['emis']),
                                'layer_thickness_lst': d, 'material_lst': [m.to_dict() for m in mats],
                                'vegcoverage': conv(st['vc']), 't_init': conv(F(293)), 'horizontal': st['flag'],
                                'name': 'e'})
    el.layerTemp = [conv(x) for x in cs['t']]
    V3.set_film(el, conv, st['film'][1])
    for k, v in st['book'].items():
        setattr(el, k, conv(v))
    if st['roadlike']:
        el.grasscoverage, el.treecoverage = conv(st['vc'] / 2), conv(st['vc'] / 4)
    return el


def wet_surf_call(el, cs, conv, prec, set_temps=True):
    """the REAL SurfFlux on an element that may carry a film: the Param object has the package's constants (the film
    branch evaluates qsat); returns the bookkeeping it left, the new profile and the film before / after"""
    import v3_util as V3
    if set_temps:
        el.layerTemp = [conv(x) for x in cs['t']]
    el.solRec, el.infra = conv(cs['solRec']), conv(cs['infra'])
    forc = NS(pres=conv(cs['pres']), prec=conv(prec), deepTemp=conv(cs['deepT']))
    par = V3.film_param(conv, cs['s'], cs['e'], cs['va'], cs['gf'], cs['tf'])
    sim = NS(month=cs['m'], dt=conv(cs['dt']))
    w0 = el.waterStorage
    el.SurfFlux(forc, par, sim, conv(cs['hum']), conv(cs['tref']), conv(cs['wind']), conv(cs['bc']), conv(cs['intF']))
    return dict(aero=el.aeroCond, solAbs=el.solAbs, lat=el.lat, sens=el.sens, flux=el.flux, T_ext=el.T_ext,
                T_int=el.T_int, x=list(el.layerTemp), film0=w0, film1=el.waterStorage)


def surf_balance(cs, t, r, tol):
    """C11 on a SurfFlux call as the caller books it: the flux SurfFlux reports (and its parts), the profile before and
    after. tol = 0: exact."""
    d, k, c = cs['d'], cs['k'], cs['c']
    n = len(d)
    b = [F(v) for v in t]
    a = [F(v) for v in r['x']]
    flux = F(r['flux'])
    net = F(r['solAbs']) + F(cs['infra']) - F(r['lat']) - F(r['sens'])
    scale = sum(c[j] * d[j] * abs(b[j]) for j in range(n)) or F(1)
    if abs(flux - net) > tol * (abs(net) + 1):
        return 'flux %s is not solAbs + infra - lat - sens = %s' % (float(flux), float(net))
    if cs['bck'] == 'flux':
        lhs = sum(c[j] * d[j] * (a[j] - b[j]) for j in range(n))
        rhs = cs['dt'] * (flux + cs['intF'])
        what = 'dt x (net surface flux %.6f + inner flux %.6f W/m2)' % (float(flux), float(cs['intF']))
    else:
        if abs(a[-1] - cs['deepT']) > tol:
            return 'deep layer %s is not the deep temperature %s' % (float(a[-1]), float(cs['deepT']))
        g = 2 / (d[n - 2] / k[n - 2] + d[n - 1] / k[n - 1])
        deep = g * (F(1, 2) * (a[n - 2] - a[n - 1]) + F(1, 2) * (b[n - 2] - b[n - 1]))
        lhs = sum(c[j] * d[j] * (a[j] - b[j]) for j in range(n - 1))
        rhs = cs['dt'] * (flux - deep)
        what = 'dt x (net surface flux %.6f - conductive flux into the deep layer %.6f W/m2)' % (float(flux), float(deep))
    if abs(lhs - rhs) > tol * scale:
        return 'heat stored in the layers changed by %.6f J/m2, supplied: %s = %.6f J/m2 (difference %.6g J/m2)' % (
            float(lhs), what, float(rhs), float(lhs - rhs))
    return None


def run_element_state(chk, pkg):
    import uwgutil as UU
    import v3_util as V3
    rng = chk.rng
    big = chk.tier == 'thorough'
    plain = UU.uwg_mod()

    # ---- (1) Conduction on elements whose other documented state is off its defaults: exact tie + energy oracle
    pairs, nbad, ncase, br = [], 0, 0, {}
    for film in V3.FILMS:
        for flag in FLAGS:
            for _ in range(2 if not big else 12):
                cs = gen_case(rng, n=rng.choice([2, 3, 4, 6, 9, 15]))
                st = gen_state(rng, film=film)
                st['flag'] = flag
                for mode, impl in (('exact', pkg), ('float', plain)):
                    conv = V3.conv_of(mode)
                    el = build_stateful(impl, cs, st, conv)
                    snap = {k: getattr(el, k) for k in ('waterStorage', 'horizontal', 'vegcoverage', 'albedo', 'emissivity',
                                                        'solRec', 'infra', 'lat', 'sens', 'solAbs', 'flux', 'aeroCond')}
                    xs = call_cond(el, cs, conv)
                    ncase += 1
                    key = '%s/%s/%s' % (mode, 'wet' if film in V3.WET else 'dry', 'horizontal' if flag else 'vertical')
                    br[key] = br.get(key, 0) + 1
                    if mode == 'exact':
                        pairs.append((line_of(cs), 'ok ' + frac_list(xs)))
                        msg = oracle(cs, xs)
                    else:
                        msg = balance_msg(cs, cs['t'], xs, F(1, 10 ** 9))
                        if msg is None and cs['kind'] in ('uniform', 'steady') and \
                                max(abs(F(a) - b) for a, b in zip(xs, cs['t'])) > F(1, 10 ** 8):
                            msg = '%s profile is not a fixed point (moved by %.3g K)' % (
                                cs['kind'], max(abs(float(F(a) - b)) for a, b in zip(xs, cs['t'])))
                    if msg is None:
                        ch = [k for k, v in snap.items() if getattr(el, k) != v]
                        if ch:
                            msg = 'Conduction changed attribute %s of the element' % ch[0]
                    if msg:
                        nbad += 1
                        if nbad <= 2:
                            chk.violation('impl-violation', 'energy oracle on Element.Conduction, element state off its '
                                          'defaults (%s arithmetic)' % mode,
                                          case=dict(case_json(cs), element_state=state_json(st), arithmetic=mode),
                                          observed=msg, expected='the heat stored in the LAYERS changes by dt x the heat '
                                          'supplied at the two faces, whatever else the element carries (water film, '
                                          'orientation, vegetation, bookkeeping of the last SurfFlux)')
    # sequences on one object, the film changed by the caller between the steps (rain, drying)
    nseq = 8 if not big else 80
    for _ in range(nseq):
        base = gen_case(rng, kind='random', n=rng.choice([2, 3, 5, 8]))
        st = gen_state(rng, film=rng.choice(V3.WET))
        st['flag'] = rng.choice([True, 1, True, False])
        for mode, impl in (('exact', pkg), ('float', plain)):
            conv = V3.conv_of(mode)
            el = build_stateful(impl, base, st, conv)
            e0 = V3.stored_heat(base['d'], base['c'], el.layerTemp)
            supplied, cur_st, allflux = F(0), st, True
            for step in range(rng.randint(2, 4)):
                cs = vary_step(rng, base)
                cs['t'] = [F(x) for x in el.layerTemp]
                film = rng.choice(V3.FILMS)
                V3.set_film(el, conv, film[1])
                cur_st = dict(cur_st, film=film)
                xs = call_cond(el, cs, conv)
                el.layerTemp = xs
                ncase += 1
                br['%s/sequence' % mode] = br.get('%s/sequence' % mode, 0) + 1
                if mode == 'exact':
                    pairs.append((line_of(cs), 'ok ' + frac_list(xs)))
                msg = balance_msg(cs, cs['t'], xs, F(0) if mode == 'exact' else F(1, 10 ** 9))
                if cs['bc'] == 'flux':
                    supplied += cs['dt'] * (cs['flx1'] + cs['v2'])
                else:
                    allflux = False
                if msg:
                    nbad += 1
                    if nbad <= 3:
                        chk.violation('impl-violation', 'energy oracle on a sequence of Conduction steps, film set by the caller '
                                      'between the steps (step %d, %s arithmetic)' % (step + 1, mode),
                                      case=dict(case_json(cs), element_state=state_json(cur_st), arithmetic=mode),
                                      observed=msg, expected='exact energy balance of the layers at every step')
                    break
            else:
                if allflux:
                    e1 = V3.stored_heat(base['d'], base['c'], el.layerTemp)
                    if abs((e1 - e0) - supplied) > (F(0) if mode == 'exact' else F(1, 10 ** 9) * abs(e0)):
                        nbad += 1
                        chk.violation('impl-violation', 'energy over a whole sequence of flux-boundary steps (%s)' % mode,
                                      case=dict(case_json(base), element_state=state_json(st)),
                                      observed='stored heat changed by %.6f J/m2 over the sequence, supplied %.6f J/m2' % (
                                          float(e1 - e0), float(supplied)), expected='equal (theorem energy_sequence)')
    chk.direct('energy-oracle(Conduction, element state off its defaults; exact and float)', ncase, ncase,
               'C11 statement on every case of the tie above, in exact rationals and in plain floats (1e-9 of the stored '
               'heat): stored-heat change of the layers = dt x heat supplied (both boundary kinds), uniform / steady fixed, '
               'no attribute of the element changed by Conduction; over whole flux-boundary sequences E(end) - E(start) = '
               'sum of the heat supplied', mismatches=nbad, branches=br)

    # ---- (2) SurfFlux on elements that carry a film (a caller set waterStorage > 0 before the step)
    nbad, ncase, br, dry_pairs = 0, 0, {}, []
    members = [(o, b, s, f) for o in ('road', 'roof', 'wall') for b in ('flux', 'deep') for s in ('in', 'before')
               for f in V3.FILMS[1:]]
    if not big:
        members = [m for i, m in enumerate(members) if i % 2 == chk.seed % 2] + members[:6]
    else:
        members = members * 6
    for (o, b, s, film) in members:
        cs = gen_surf(rng, orient=o, bck=b, season=s, kind='random')
        if rng.random() < 0.8 and cs['solRec'] == 0:
            cs['solRec'] = rq(rng, 20, 900, 1)
        prec = rng.choice([F(0), F(0), F(1, 10 ** 7), F(3, 10 ** 6)])
        wet = film in V3.WET and o != 'wall'
        for mode, impl in (('exact', pkg), ('float', plain)):
            conv = V3.conv_of(mode)
            Element, Material = impl.element.Element, impl.material.Material
            el = Element(conv(cs['alb']), conv(F(9, 10)), [conv(x) for x in cs['d']],
                         [Material(conv(k), conv(c), 'm') for k, c in zip(cs['k'], cs['c'])], conv(cs['vc']),
                         conv(F(293)), 0 if o == 'wall' else 1, 'x')
            if o == 'road':
                el.grasscoverage, el.treecoverage = conv(cs['g']), conv(cs['tr'])
            V3.set_film(el, conv, film[1])
            try:
                r = wet_surf_call(el, cs, conv, prec)
            except (ZeroDivisionError, ValueError, OverflowError) as ex:   # stub / float domain of qsat: not this property
                br['%s/%s' % (mode, type(ex).__name__)] = br.get('%s/%s' % (mode, type(ex).__name__), 0) + 1
                continue
            ncase += 1
            key = '%s/%s/%s/%s' % (mode, o, b, 'film' if wet else 'no-film-branch')
            br[key] = br.get(key, 0) + 1
            msg = surf_balance(cs, cs['t'], r, F(0) if mode == 'exact' else F(1, 10 ** 9))
            if mode == 'exact' and not wet:
                # the film does not act (below the tolerance / vertical element): the dry Lean model must answer exactly
                dry_pairs.append((surf_line(cs), surf_ans(r)))
            if msg:
                nbad += 1
                if nbad <= 3:
                    chk.violation('impl-violation', 'energy oracle on Element.SurfFlux of an element carrying a water film '
                                  '(%s arithmetic)' % mode,
                                  case=dict(case_json(cs), waterStorage_set_by_the_caller='%s (%s)' % (film[1], film[0]),
                                            precipitation=str(prec), arithmetic=mode),
                                  observed=msg, expected='the layers gain dt x (solAbs + infra - lat - sens + inner flux) (kind '
                                  '1) / the deep-layer balance (kind 2), exactly as for a dry element: the flux SurfFlux '
                                  'reports is the flux into the layers')
    # histories: the film evaporates / is refilled over 3-6 calls on one element
    for _ in range(6 if not big else 60):
        base = gen_surf(rng, orient=rng.choice(['road', 'roof']), kind='random', n=rng.choice([2, 3, 5, 8]))
        film = rng.choice(V3.WET)
        hseed = rng.random()
        for mode, impl in (('exact', pkg), ('float', plain)):
            conv = V3.conv_of(mode)
            Element, Material = impl.element.Element, impl.material.Material
            el = Element(conv(base['alb']), conv(F(9, 10)), [conv(x) for x in base['d']],
                         [Material(conv(k), conv(c), 'm') for k, c in zip(base['k'], base['c'])], conv(base['vc']),
                         conv(F(293)), 1, 'x')
            if base['orient'] == 'road':
                el.grasscoverage, el.treecoverage = conv(base['g']), conv(base['tr'])
            el.layerTemp = [conv(x) for x in base['t']]
            V3.set_film(el, conv, film[1])
            srng = __import__('random').Random(hseed)      # the same history in both arithmetics
            for step in range(4):
                cs = gen_surf(srng, orient=base['orient'], kind='random', n=len(base['d']))
                for q in ('d', 'k', 'c', 'alb', 'vc', 'g', 'tr', 's', 'e'):
                    cs[q] = base[q]
                cs['m'] = srng.randint(1, 12)
                cs['t'] = [F(x) for x in el.layerTemp]
                try:
                    r = wet_surf_call(el, cs, conv, srng.choice([F(0), F(2, 10 ** 6)]), set_temps=False)
                except (ZeroDivisionError, ValueError, OverflowError):
                    break
                ncase += 1
                br['%s/history' % mode] = br.get('%s/history' % mode, 0) + 1
                msg = surf_balance(cs, cs['t'], r, F(0) if mode == 'exact' else F(1, 10 ** 9))
                if msg:
                    nbad += 1
                    if nbad <= 4:
                        chk.violation('impl-violation', 'energy oracle on a history of SurfFlux calls on one element carrying '
                                      'a film (call %d, %s arithmetic)' % (step + 1, mode),
                                      case=dict(case_json(cs), waterStorage_at_the_start=film[1],
                                                waterStorage_before_this_call=str(r['film0']), arithmetic=mode),
                                      observed=msg, expected='exact energy balance of the layers at every call')
                    break
    chk.correspond('Element.Conduction / SurfFlux(element state off its defaults)~conduction / surfFlux', 'C11',
                   pairs + dry_pairs,
                   rule='(a) fractionised REAL Element.Conduction on elements built through the constructor / through '
                        'Element.from_dict whose OTHER documented attributes a caller may set are moved off the values every '
                        'generated model has: waterStorage in {0, 1e-20 (below the is_near_zero tolerance), 3e-10, 0.0004, '
                        '0.0021, 0.005 as tests/test_element.py sets it, 0.02 above wgmax} x orientation flag {True, False, 1, '
                        '0}, vegcoverage 0..1, albedo, emissivity, grass / tree attributes, and the bookkeeping attributes '
                        '(solRec, infra, lat, sens, solAbs, flux, aeroCond, T_ext, T_int) at arbitrary values; single calls '
                        'and 2-4 steps on one object with the film re-set by the caller between the steps; vs the Lean '
                        '`conduction` of the LAYERS alone (the model knows no other state: Conduction must not read any). '
                        '(b) fractionised REAL SurfFlux on a vertical element with waterStorage > 0 and on horizontal '
                        'elements whose film lies below the is_near_zero tolerance (1e-20): the film branch is not taken, the '
                        'Lean surfFlux (which follows the else branch) must answer exactly',
                   classify=lambda line, impl: ('cond/' + line.split(' bc=')[1].split(' ')[0]) if line.startswith('cond')
                   else ('surfflux/wall' if ' hor=0 ' in line else 'surfflux/horizontal'))
    chk.direct('energy-oracle(SurfFlux, a caller set waterStorage > 0 before the step; exact and float)', ncase, ncase,
               'the family composition B excludes for the package itself ("waterStorage = 0: scan, not theorem") explored on '
               'the REAL SurfFlux -> Conduction: road / roof-like / wall elements with waterStorage set by plain assignment '
               'to 1e-20, 3e-10, 0.0004, 0.0021, 0.005 (tests/test_element.py), 0.02, with and without precipitation, both '
               'boundary kinds, in and off season, exact rationals (Param with the package\'s constants, qsat over the shared '
               'stubs) and plain floats; histories of 4 calls on one element while the film evaporates / is refilled. Oracle: '
               'flux = solAbs + infra - lat - sens and the heat stored in the layers changes by dt x (flux + inner flux) '
               '(kind 1) / deep-layer balance (kind 2)', mismatches=nbad, branches=br)

    # ---- (3) a live run the way tests/test_element.py prepares it: films assigned after generate()
    import u3_util as U3
    work = chk.work()
    films = rng.choice([(0.005, 0.002, 0.004), (0.001, 0.005, 0.0005), (0.005, 0.005, 0.005)])
    month, day = rng.choice([(1, 1), (4, 12), (7, 20), (10, 3)])
    probs, counts, err = [], {}, None
    with U3.Patch() as p:
        mon = U3.ConductionMonitor(p)
        EL = plain.element.Element
        orig_surf = EL.SurfFlux
        wetcalls = {}

        def counting_surf(self_, forc, parameter, simTime, humRef, tempRef, windRef, boundCond, intFlux):
            wet = self_.waterStorage > 1e-10
            if wet:
                wetcalls[self_.name] = wetcalls.get(self_.name, 0) + 1
            before = list(self_.layerTemp)
            r = orig_surf(self_, forc, parameter, simTime, humRef, tempRef, windRef, boundCond, intFlux)
            if wet and len(surf_probs) < 2:
                # the caller's book of the SurfFlux call: the flux it REPORTS against the heat the layers gained
                cs = dict(d=[F(x) for x in self_.layer_thickness_lst], k=[F(x) for x in self_.layerThermalCond],
                          c=[F(x) for x in self_.layerVolHeat], bck='flux' if abs(boundCond - 1.) < 1e-9 else 'deep',
                          dt=F(simTime.dt), intF=F(intFlux), deepT=F(forc.deepTemp), infra=F(self_.infra))
                msg = surf_balance(cs, before, dict(x=list(self_.layerTemp), flux=self_.flux, solAbs=self_.solAbs,
                                                   lat=self_.lat, sens=self_.sens), F(1, 10 ** 9))
                if msg:
                    surf_probs.append('%s at %s/%s %ss, film %r m: %s' % (self_.name, simTime.month, int(simTime.day),
                                                                          int(simTime.secDay), self_.waterStorage, msg))
            return r
        surf_probs = []
        p.set(EL, 'SurfFlux', counting_surf)
        m = UU.new_model(outdir=work, outname='wet11.epw', month=month, day=day, nday=1, dtsim=300)
        try:
            with core_quiet():
                m.generate()
                m.rural.waterStorage = films[0]
                m.UCM.road.waterStorage = films[1]
                for b in m.BEM:
                    b.roof.waterStorage = films[2]
                    b.mass.waterStorage = films[2]
                m.simulate()
        except Exception as ex:  # noqa: BLE001 - the model's own fail-stop is not a verdict of this property
            if type(ex) is not Exception:
                raise
            err = str(ex)[:80]
        res = mon.result()
        probs, counts = res['problems'] + surf_probs, res['counts']
    if err:
        chk.notes.append('live run with films skipped: ' + err)
    elif not wetcalls:
        raise __import__('core').Infra('live run with films: no SurfFlux call saw a film')
    counts = dict(counts, **{'SurfFlux calls with a film on ' + k: v for k, v in wetcalls.items()})
    for pr in probs[:2]:
        chk.violation('impl-violation', 'Conduction monitor on a live run whose elements carry a water film',
                      case={'month': month, 'day': day, 'nday': 1, 'dtsim': 300, 'epw': UU.EPW_SGP,
                            'after generate()': 'rural.waterStorage = %s; UCM.road.waterStorage = %s; every roof and mass: '
                                                '%s' % films}, observed=pr,
                      expected='every Conduction call of the run: stored-heat change of the layers = dt x heat supplied')
    chk.direct('live-run-with-water-films(Conduction monitor)', counts.get('calls', 0), 1,
               'generate(); rural / road / roofs / floors given a film by plain assignment (as tests/test_element.py does); '
               'simulate() for one day (Singapore, dtsim 300) with EVERY Element.Conduction call monitored: pure, new list, '
               'stored-heat change = dt x heat supplied to 1e-9 for both boundary kinds; and every SurfFlux call of an element '
               'that carries a film booked from outside: the flux it reports = solAbs + infra - lat - sens, and the layers '
               'gain dt x (that flux + inner flux) / the deep-layer balance', mismatches=len(probs),
               branches=counts)


def core_quiet():
    import core
    return core.quiet()


def run(chk):
    chk.proof(MODULE, THEOREMS, extra_modules=[SURF_MODULE])
    if chk.tier == 'thorough':
        chk.leanchecker([MODULE, SURF_MODULE])
    pkg = fracexec.load()
    n = 300 if chk.tier == 'quick' else 3000
    cases = [gen_case(chk.rng, n=nn) for nn in range(2, 41) for _ in (0, 1)]  # every layer count 2..40
    cases += [gen_case(chk.rng) for _ in range(n)]
    cases += [gen_case(chk.rng, n=1)]                      # IndexError branch
    results = [impl_conduction(pkg, cs) for cs in cases]
    pairs = [(line_of(cs), r if isinstance(r, str) else 'ok ' + frac_list(r))
             for cs, r in zip(cases, results)]
    mism = chk.correspond(
        'Element.Conduction~conduction', 'C11', pairs,
        rule='fractionised Element.Conduction vs Lean `conduction` on layerings with 2..40 layers '
             '(every count at least twice), both boundary kinds, random/uniform/steady profiles; '
             'exact equality of the rational temperature vector; non-trivial = non-error result',
        classify=lambda line, impl: line.split(' bc=')[1].split(' ')[0])
    # the property's own oracle on the implementation (always evaluated: cheap, and it is what
    # turns a broken correspondence into a concrete failing input)
    bad = 0
    for cs, r in zip(cases, results):
        if isinstance(r, str):
            continue
        msg = oracle(cs, r)
        if msg:
            bad += 1
            if bad <= 3:
                chk.violation('impl-violation', 'energy oracle on Element.Conduction',
                              case=case_json(cs), observed=msg,
                              expected='exact energy balance / fixed point')
    chk.direct('energy-oracle(Element.Conduction)', len(cases), len(cases) - 1,
               'C11 statement evaluated on the exact result of the real Conduction for every '
               'generated case', mismatches=bad,
               branches={k: sum(1 for c in cases if c['kind'] == k)
                         for k in ('random', 'uniform', 'steady')})
    # sequences of steps on ONE Element object (timestep, fluxes and boundary kind vary from step to
    # step, as SurfFlux drives it): every step must equal the model on the current temperatures and
    # the energy oracle must hold step by step (state carried inside the object would show here)
    nseq = 25 if chk.tier == 'quick' else 250
    seq_pairs, seq_bad, nst = [], 0, 0
    Element, Material = pkg.element.Element, pkg.material.Material
    for _ in range(nseq):
        base = gen_case(chk.rng, kind='random')
        mats = [Material(k, c, 'm') for k, c in zip(base['k'], base['c'])]
        el = Element(F(1, 10), F(9, 10), list(base['d']), mats, F(0), F(293), 1, 'e')
        el.layerTemp = list(base['t'])
        for step in range(chk.rng.randint(2, 5)):
            cs = dict(base)
            cs['t'] = list(el.layerTemp)
            cs['dt'] = F(chk.rng.choice([1, 60, 300, 600, 900, 3600]))
            cs['bc'] = chk.rng.choice(['flux', 'deep'])
            cs['flx1'] = rq(chk.rng, -500, 900, 10)
            cs['v2'] = rq(chk.rng, -300, 300, 10) if cs['bc'] == 'flux' else rq(chk.rng, 270, 300, 10)
            if step == 2:   # materials may change between steps too
                j = chk.rng.randrange(len(cs['d']))
                cs['k'] = list(cs['k']); cs['k'][j] = cs['k'][j] * 2
                el.layerThermalCond = list(cs['k'])
                base = cs
            bc = 1 if cs['bc'] == 'flux' else 2
            xs = el.Conduction(cs['dt'], cs['flx1'], bc, cs['v2'] if bc == 2 else F(0),
                               cs['v2'] if bc == 1 else F(0))
            el.layerTemp = xs
            nst += 1
            seq_pairs.append((line_of(cs), 'ok ' + frac_list(xs)))
            msg = oracle(cs, xs)
            if msg:
                seq_bad += 1
                if seq_bad <= 2:
                    chk.violation('impl-violation', 'energy oracle on a sequence of steps on one Element (step %d)' % step,
                                  case=case_json(cs), observed=msg, expected='exact energy balance at every step')
    chk.correspond('Element.Conduction(sequence on one object)~conduction', 'C11', seq_pairs,
                   rule='2-5 successive Conduction calls on the SAME Element object with varying timestep, fluxes, '
                        'boundary kind (and once a changed conductivity), temperatures fed back as SurfFlux does; each '
                        'step compared with the stateless Lean model and with the energy oracle',
                   classify=lambda line, impl: line.split(' bc=')[1].split(' ')[0])
    chk.direct('energy-oracle(sequence on one object)', nst, nst, 'C11 statement at every step of every sequence',
               mismatches=seq_bad)
    run_surfflux(chk, pkg)
    run_element_state(chk, pkg)
    run_circumstances(chk, pkg)
    chk.assumptions.append('Element.Conduction is exercised through fracexec (exact rationals); '
                           'double rounding is outside the theorem')
