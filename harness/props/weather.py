"""Weather.__init__ + utilities.str2fl: the REAL class (executed over exact rationals) on written synthetic rural
files vs the Lean model Uwg.Weather.read, plus the row-level oracle (a record holds the values of its own row; the
forcing humidity is hum_from_rhum_temp of the row's RH, temperature and pressure). Hooked into C02."""
import csv
import os
from fractions import Fraction as F

import fracexec
from fracexec import frac_str
from props.epwheader import enc_rows, spell

MODULE = 'UwgVerif.Props.Weather'
THEOREMS = ['Uwg.Weather.read_rowwise', 'Uwg.Weather.read_length', 'Uwg.Weather.rowRec_congr',
            'Uwg.Weather.rowRec_hum', 'Uwg.Weather.rowRec_values', 'Uwg.Weather.read_window_only',
            'Uwg.Weather.read_prefix']

COLS = (6, 7, 8, 9, 12, 13, 14, 15, 20, 21)
TEXT = ['', 'x', 'N/A', '--', '*', '1.2.3', '9e', ',', 'null']


def gen_cell(rng, j, edge):
    """one modelled cell: mostly a number in the EPW range of its column, in any spelling float() reads"""
    k = rng.random()
    if k < edge * 0.25:
        return rng.choice(TEXT)
    if j == 6:      # dry bulb C
        v = rng.choice([F(rng.randint(-7000, 7000), 100), F(rng.randint(-70, 70)), F('99.9'), F('-0.05'), F(0),
                        F('-273.15') if rng.random() < edge * 0.3 else F(12), F(-300) if rng.random() < edge * 0.3 else F(30)])
    elif j == 7:    # dew point
        v = rng.choice([F(rng.randint(-7000, 7000), 100), F('99.9'), F(0)])
    elif j == 8:    # RH: 0..110 allowed, decimals allowed
        v = rng.choice([F(rng.randint(0, 110)), F(rng.randint(0, 11000), 100), F(100), F(101), F(103), F(110), F(0),
                        F(1), F('0.5'), F('95.38'), F(999)])
    elif j == 9:    # pressure Pa
        v = rng.choice([F(rng.randint(31000, 120000)), F(100900), F(999999), F(0) if rng.random() < edge else F(101325)])
        if rng.random() < 0.15:
            s = '%d' % v
            return s[:-3] + ',' + s[-3:] if len(s) > 3 else s       # thousands separator, read by str2fl
    elif j in (12, 13, 14, 15):
        v = rng.choice([F(rng.randint(0, 1200)), F(0), F(9999)])
    elif j == 20:
        v = rng.choice([F(rng.randint(0, 360)), F(999)])
    else:           # wind speed
        v = rng.choice([F(rng.randint(0, 400), 10), F(0), F(10), F(20), F('9.89'), F(999), F('0.25')])
    places = 2 if v.denominator > 10 else (1 if v.denominator > 1 else rng.choice([0, 1]))
    return spell(rng, v, places)


def gen_table(rng):
    nrows = rng.choice([1, 2, 3, 5, 8, 24])
    edge = rng.choice([0.0, 0.0, 0.15, 0.5])
    hdr = [['LOCATION', rng.choice(['SINGAPORE', 'X, Y', ''])] + ['-'] * rng.choice([0, 3, 8])] + \
          [['H%d' % i] for i in range(1, 8)]
    kind = rng.choice(['ok'] * 5 + ['short-row', 'no-location-cell', 'window-past-end', 'empty-window', 'hi-past-end',
                                    'window-in-header'])
    rows = []
    for i in range(nrows):
        n = rng.choice([35, 35, 22, 23, 30, 40])
        r = ['1989', '1', str(1 + i // 24), str(1 + i % 24), '60', 'flags']
        r += [rng.choice(['0', '9', 'A7', '', '99', '1,2']) for _ in range(n - 6)]
        for j in COLS:
            r[j] = gen_cell(rng, j, edge)
        rows.append(r)
    hi = 8 + rng.randint(0, max(0, nrows - 1))
    hf = rng.randint(hi, 8 + nrows - 1) if rng.random() < 0.8 else 8 + nrows - 1
    if kind == 'short-row':
        k = rng.randrange(nrows)
        rows[k] = rows[k][:rng.choice([0, 5, 6, 7, 9, 12, 16, 20, 21])]
        hi, hf = 8, 8 + nrows - 1
    elif kind == 'no-location-cell':
        hdr[0] = hdr[0][:rng.choice([0, 1])]
    elif kind == 'window-past-end':
        hf = 8 + nrows + rng.randint(0, 5)
    elif kind == 'empty-window':
        hf = hi - rng.randint(1, 3)
    elif kind == 'hi-past-end':
        hi = 8 + nrows + rng.randint(0, 3)
        hf = hi + 2
    elif kind == 'window-in-header':
        hi = rng.randint(0, 7)
        hf = rng.randint(hi, 8 + nrows - 1)
    table = hdr + rows
    if rng.random() < 0.05:
        table = [] if rng.random() < 0.5 else table
    return kind, table, hi, hf


def fmt_val(v):
    return 'T' if isinstance(v, str) else frac_str(v)


def impl_weather(pkg, work, idx, table, hi, hf):
    path = os.path.join(work, 'wx%05d.epw' % idx)
    with open(path, 'w', newline='') as f:
        w = csv.writer(f, lineterminator='\n')
        for r in table:
            w.writerow(r)
    W = pkg.weather.Weather
    try:
        x = W(path, hi, hf)
    except IndexError:
        return 'err index', None
    except TypeError:
        return 'err type', None
    except ZeroDivisionError:
        return 'err zerodiv', None
    except ValueError:
        return 'err value', None
    except Exception as e:  # noqa  (a class the model does not know: shows as a mismatch with this input)
        return 'err %s' % type(e).__name__, None
    recs = []
    for i in range(len(x.staTemp)):
        recs.append(';'.join([frac_str(x.staTemp[i]), fmt_val(x.staTdp[i]), frac_str(x.staRhum[i]),
                              frac_str(x.staPres[i]), fmt_val(x.staInfra[i]), fmt_val(x.staHor[i]),
                              fmt_val(x.staDir[i]), fmt_val(x.staDif[i]), fmt_val(x.staUdir[i]),
                              fmt_val(x.staUmod[i]), frac_str(x.staHum[i])]))
    return 'ok ' + '/'.join(recs), x


def num(cell):
    """independent reading of a numeric cell (the oracle's own)"""
    return F(cell.strip().replace('_', '').replace(',', ''))


def oracle(pkg, table, hi, hf, x):
    """C02 / C09 at the source: record i holds the values of row hi+i; its humidity is the psychrometric function
    of that row's RH, temperature, pressure (evaluated by the real hum_from_rhum_temp on the oracle's own reading)"""
    cd = table[hi:hf + 1]
    if len(x.staTemp) != len(cd):
        return '%d records for %d rows' % (len(x.staTemp), len(cd))
    hum = pkg.psychrometrics.hum_from_rhum_temp
    for i, r in enumerate(cd):
        try:
            t, rh, p = num(r[6]), num(r[8]), num(r[9])
        except (ValueError, IndexError):
            return 'record %d exists although cells 6 / 8 / 9 of its row %r are not all numbers' % (i, r[6:10])
        if x.staTemp[i] != t + F('273.15'):
            return 'record %d: temperature %s K, row says %s C' % (i, x.staTemp[i], r[6])
        if x.staRhum[i] != rh:
            return 'record %d: relative humidity %s, row says %s' % (i, x.staRhum[i], r[8])
        if x.staPres[i] != p:
            return 'record %d: pressure %s, row says %s' % (i, x.staPres[i], r[9])
        if x.staHum[i] != hum(rh, t, p):
            return 'record %d: humidity ratio is not hum_from_rhum_temp(%s, %s, %s)' % (i, r[8], r[6], r[9])
        for name, j in (('staUmod', 21), ('staUdir', 20), ('staInfra', 12), ('staDir', 14), ('staDif', 15)):
            v = getattr(x, name)[i]
            try:
                want = num(r[j]) if r[j] != '' else None
            except ValueError:
                want = None
            if want is not None and v != want:
                return 'record %d: %s = %s, row says %s' % (i, name, v, r[j])
        if x.staRobs[i] != 0:
            return 'record %d: precipitation %s' % (i, x.staRobs[i])
    return None


def run_weather(chk, n_quick=300, n_thorough=3000):
    pkg = fracexec.load()
    rng = chk.rng
    work = chk.work()
    n = n_quick if chk.tier == 'quick' else n_thorough
    cases, cls, bad, nor = [], {}, 0, 0
    for idx in range(n):
        kind, table, hi, hf = gen_table(rng)
        ans, x = impl_weather(pkg, work, idx, table, hi, hf)
        line = 'weather rows=%s hi=%d hf=%d' % (enc_rows(table), hi, hf)
        cases.append((line, ans))
        cls[line] = kind if ans.startswith('ok') else '%s:%s' % (kind, ans)
        if x is not None:
            nor += 1
            msg = oracle(pkg, table, hi, hf, x)
            if msg:
                bad += 1
                if bad <= 2:
                    chk.violation('impl-violation', 'station record does not hold the values of its rural row',
                                  case={'table_rows': table, 'HI': hi, 'HF': hf}, observed=msg,
                                  expected='record i = (cells 6, 8, 9, 12..15, 20, 21 of row HI+i; hum_from_rhum_temp of them)')
    chk.correspond('Weather.__init__~Weather.read', 'Weather', cases,
                   rule='the REAL Weather(epw, HI, HF) with str2fl (exact rationals, shared stubs) on written synthetic '
                        'tables vs Lean Weather.read: every station vector entry of every row of the window, text '
                        'left by str2fl marked, or the exception class; modelled cells over the full EPW ranges '
                        '(RH 0..110 with decimals and 999, wind 0 / 10 / 20 / two decimals, pressure with a '
                        'thousands separator, temperature at and below absolute zero, missing markers), empty and '
                        'non-numeric cells, rows of 0..40 cells, windows past the end / empty / inside the header, '
                        'missing LOCATION cell, empty table',
                   classify=lambda line, impl: cls[line])
    chk.direct('station-record-oracle(row values, humidity of the forcing)', nor, nor,
               'on every returned Weather object: one record per window row; temperature, RH, pressure, wind, wind '
               'direction, infrared, direct and diffuse radiation equal the oracle\'s own reading of that row\'s '
               'cells; humidity ratio = the real hum_from_rhum_temp of the row\'s RH, temperature and pressure; '
               'precipitation 0', mismatches=bad)
