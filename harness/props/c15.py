"""C15 - Air-node updates have an isothermal fixed point and stay bounded.

Three air nodes, three ties (all exact, real source run over rationals through fracexec):

* canyon air      `UCMDef.UCModel`                 ~ Lean `Uwg.Air.ucModel`
* indoor air      `Building.BEMCalc` (balance)     ~ Lean `Uwg.Hvac.bemCalc` (model shared with C14)
* boundary layer  `UBLDef.ublmodel`, `nightforc`   ~ Lean `Uwg.Air.ublModel`, `Uwg.Air.nightforc`

Oracles (the property itself on the implementation's exact results): isothermal fixed point,
source-free result inside the range of exchanged temperatures, adding sensible heat never lowers
the node (paired runs), boundary-layer temperature = mean of its along-wind cells; and the same
range / mean statements with a 1e-9 relative tolerance on every call of real float simulations.

The hypotheses of those theorems on the exchange weights (`uExch >= 0`, `aeroCond >= 0`, densities,
areas, rural wind profile >= 0, night loop count = number of cells) are proved for the values the
code itself produces in `Props/C15Inputs.lean`; the ties and oracles for that code (`urbflux`,
`Element.SurfFlux`, `UCMDef.__init__`, `UBLDef.__init__`, the wind profile of `RSMDef.vdm`) live
in `props/c15_inputs.py` and are run from here.
"""
import sys
import types
from fractions import Fraction as F

import core
import fracexec
from fracexec import frac_str, frac_list
from props import c14
from props import c15_inputs
import t3_util as T3
import u4_util as U4
import w4_util as W4

MODULE = 'UwgVerif.Props.C15'
THEOREMS = [
    'Uwg.C15.canyon_fixed_point', 'Uwg.C15.canyon_fixed_point_sources',
    'Uwg.C15.canyon_convex', 'Uwg.C15.canyon_monotone_anthrop',
    'Uwg.C15.canyon_monotone_waste', 'Uwg.C15.ucModel_ok',
    'Uwg.C15.indoor_fixed_point', 'Uwg.C15.indoor_convex', 'Uwg.C15.indoor_monotone_in_source',
    'Uwg.C15.ubl_day_fixed_point', 'Uwg.C15.ubl_day_convex', 'Uwg.C15.ubl_day_monotone_in_source',
    'Uwg.C15.ubl_day_mean', 'Uwg.C15.advCoefDay_nonneg',
    'Uwg.C15.night_mean', 'Uwg.C15.night_fixed_point', 'Uwg.C15.night_convex',
    'Uwg.C15.night_monotone_in_source', 'Uwg.C15.night_partial_count',
    'Uwg.C15.ublModel_ok',
]
NS = types.SimpleNamespace

UCM_FIELDS = ['pres', 'forcHum', 'cp', 'tUbl', 'canTemp', 'canHum', 'tRoad', 'aeroCond',
              'roadArea', 'roofArea', 'facArea', 'uExch', 'sensAnthrop', 'treeSensHeat',
              'bldHeight', 'hMix', 'bldDensity', 'verToHor', 'qRoof0']
BLD_FIELDS = ['frac', 'indoorTemp', 'tWall', 'glazingRatio', 'uValue', 'vent', 'nFloor', 'infil',
              'sensWaste', 'solRec', 'shgc', 'tRoof', 'roofSens', 'flArea', 'elecTotal',
              'gasTotal']
UCM_OUT = ['canTemp', 'Q_road', 'Q_ubl', 'Q_wall', 'Q_traffic', 'Q_window', 'Q_vent', 'Q_hvac',
           'Q_roof', 'ElecTotal', 'GasTotal', 'sensHeat', 'wallTemp', 'roofTemp']
UBL_FIELDS = ['sensHeat', 'qUbl', 'ruralSens', 'cp', 'circCoeff', 'g', 'dayThreshold', 'windMin',
              'wind', 'dir', 'dif', 'secDay', 'dt', 'dayBLHeight', 'nightBLHeight', 'orthLength',
              'urbArea', 'perimeter', 'paralLength', 'charLength', 'ublTemp']
RSM_LISTS = ['densityProfC', 'dz', 'z', 'tempProf', 'windProf']

rq = c14.rq


def mod(pkg, name):
    """Sub-module of the fractionised package (the package re-exports classes under the same
    names, so attribute access would give the class)."""
    import importlib
    return importlib.import_module(pkg.__name__ + '.' + name)


# =============================================================================== canyon node
def gen_ucm(rng, kind=None, stock=None, nb=None):
    """A canyon state.  Explored beside the numbers: the SHAPE of the stock (`stock`: fractions adding up to
    exactly one / to anything within the 1e-2 tolerance of the `bld` setter on either side / equal decimals such
    as 3 x 0.333 / entries with fraction 0; one to five archetypes, sometimes thirty) and the building geometry
    (`nFloor` > 1 with floor_height = bldHeight / nFloor, or the one-floor clamp of BEMCalc with a floor height
    at or above the average building height); every building / wall / roof / BEMDef stand-in carries all
    documented attributes of its class."""
    kind = kind or rng.choice(['random', 'random', 'isothermal', 'nosource', 'hot', 'cold'])
    if nb is None:
        nb = rng.choice([0, 1, 1, 2, 2, 3, 5]) if rng.random() < 0.97 else 30
    stock = stock or rng.choice(T3.STOCK_KINDS)
    T = rq(rng, 270, 315, 4)
    c = {'kind': kind}
    c['pres'] = rq(rng, 90000, 104000, 1)
    c['forcHum'] = rq(rng, 0.001, 0.02, 2000)
    c['cp'] = rng.choice([F(1004), rq(rng, 990, 1020, 1)])
    c['canTemp'] = rq(rng, 265, 315, 4)
    c['canHum'] = rq(rng, 0.001, 0.025, 2000)
    c['aeroCond'] = rq(rng, 2, 30, 4)
    c['roadArea'] = rq(rng, 50, 3000, 1)
    c['roofArea'] = rq(rng, 50, 3000, 1)
    c['facArea'] = rq(rng, 50, 5000, 1)
    c['uExch'] = rq(rng, 0.01, 1.5, 100)
    c['bldHeight'] = rq(rng, 3, 80, 2)
    c['hMix'] = rng.choice([F(1), F(0), rq(rng, 0, 1, 10)])
    c['bldDensity'] = rq(rng, 0.05, 0.9, 20)
    c['verToHor'] = rq(rng, 0.1, 2.5, 20)
    c['qRoof0'] = rng.choice([F(0), F(0), rq(rng, -5, 5, 2)])
    iso = kind == 'isothermal'
    nos = kind in ('isothermal', 'nosource')
    temp = (lambda: T) if iso else (lambda: rq(rng, 265, 320, 4))
    c['tUbl'] = temp()
    c['tRoad'] = temp()
    c['sensAnthrop'] = F(0) if nos else rq(rng, 0, 60, 2)
    c['treeSensHeat'] = F(0) if nos else rq(rng, -5, 40, 2)
    if kind == 'hot':       # drive the 350 K check
        c['sensAnthrop'] = rq(rng, 300, 30000, 1)
    if kind == 'cold':      # drive the 200 K check
        c['treeSensHeat'] = -rq(rng, 300, 30000, 1)
    fr = T3.stock_fracs(rng, stock, nb)
    c['stock'] = stock
    blds = []
    for j in range(nb):
        b = {}
        b['frac'] = fr[j]
        b['indoorTemp'] = temp()
        b['tWall'] = temp()
        b['glazingRatio'] = rng.choice([F(0), rq(rng, 0, 0.9, 20), rq(rng, 0, 0.9, 20)])
        b['uValue'] = rq(rng, 0.5, 6, 10)
        b['vent'] = F(rng.randint(0, 30), 10000)
        b['nFloor'] = rng.choice([rq(rng, 1, 25, 4), rq(rng, 1, 25, 4), rq(rng, 1, 3, 4), F(1)])
        b['infil'] = rq(rng, 0, 2, 20)
        b['sensWaste'] = F(0) if nos else rq(rng, 0, 400, 2)
        # sources vanish when solRec = 0 or shgc = 1; cover both ways of having none
        b['solRec'] = rng.choice([F(0), rq(rng, 0, 500, 1)]) if nos else rq(rng, 0, 500, 1)
        b['shgc'] = F(1) if (nos and b['solRec'] != 0) else rq(rng, 0.1, 0.9, 20)
        b['tRoof'] = rq(rng, 265, 330, 4)
        b['roofSens'] = rq(rng, -50, 300, 2)
        b['flArea'] = rq(rng, 100, 100000, 1)
        b['elecTotal'] = rq(rng, 0, 80, 4)
        b['gasTotal'] = rq(rng, 0, 80, 4)
        # everything else a Building / Element / BEMDef documents (no input of the model)
        b['battrs'] = T3.full_building_attrs(rng, {'nFloor': b['nFloor']}, c['bldHeight'])
        b['wextra'], b['rextra'], b['bextra'] = T3.element_extras(rng), T3.element_extras(rng), T3.bemdef_extras(rng)
        blds.append(b)
    c['blds'] = blds
    c['circ'] = U4.circ_pick(rng)      # the canyon object rendered around the step / DEBUG logging on (no input)
    # the `forc` argument carries every attribute of a real Forcing (rural dry bulb on either side of the canyon / 288 K)
    c.update(W4.gen_forcing(rng, c['canTemp']))
    return c


def ucm_edge(rng):
    out = []

    def mk(**kw):
        c = gen_ucm(rng, 'random')
        c.update(kw)
        c['kind'] = 'edge'
        out.append(c)
    mk(canTemp=F(0))
    mk(tUbl=F(0))
    mk(canHum=-F(1000000, 1607858))
    mk(aeroCond=F(0), uExch=F(0), blds=[])          # H2 = 0
    mk(sensAnthrop=F(10 ** 7))
    mk(sensAnthrop=-F(10 ** 7))
    mk(blds=[])
    return out


def ucm_shape(c):
    """Shape of the stock and of the building geometry of a canyon case (for the branch counts)."""
    tot = sum(b['frac'] for b in c['blds'])
    s = 'no-buildings' if not c['blds'] else ('sum=1' if tot == 1 else ('sum<1' if tot < 1 else 'sum>1'))
    if any(b['frac'] == 0 for b in c['blds']):
        s += '+zero-frac'
    if any(b['nFloor'] == 1 and b.get('battrs', {}).get('floor_height', 0) > c['bldHeight'] and b['vent'] > 0
           and b['frac'] > 0 for b in c['blds']):
        s += '+clamped-floor'
    return s


def ucm_line(c):
    s = 'ucm ' + ' '.join('%s=%s' % (k, frac_str(c[k])) for k in UCM_FIELDS)
    for k in BLD_FIELDS:
        s += ' %s=%s' % (k, frac_list([b[k] for b in c['blds']]))
    return s


def impl_ucm(pkg, c):
    """Run the REAL UCMDef.UCModel over exact rationals (object built without the constructor)."""
    cls = mod(pkg, 'UCMDef').UCMDef
    u = object.__new__(cls)
    u.canTemp, u.canHum = c['canTemp'], c['canHum']
    u.road = NS(layerTemp=[c['tRoad'], c['tRoad'] - 3], aeroCond=c['aeroCond'])
    u.roadArea, u.roofArea, u.facArea = c['roadArea'], c['roofArea'], c['facArea']
    u.uExch, u.sensAnthrop, u.treeSensHeat = c['uExch'], c['sensAnthrop'], c['treeSensHeat']
    u.bldHeight, u.h_mix, u.bldDensity = c['bldHeight'], c['hMix'], c['bldDensity']
    u.verToHor, u.Q_roof = c['verToHor'], c['qRoof0']
    BEM = []
    for b in c['blds']:
        battrs = dict(b.get('battrs', {}))
        battrs.update(indoor_temp=b['indoorTemp'], glazing_ratio=b['glazingRatio'],
                      u_value=b['uValue'], vent=b['vent'], nFloor=b['nFloor'],
                      infil=b['infil'], sensWaste=b['sensWaste'], shgc=b['shgc'],
                      ElecTotal=b['elecTotal'], GasTotal=b['gasTotal'])
        wattrs = dict(b.get('wextra', {}), layerTemp=[b['tWall'], b['tWall'] + 2], solRec=b['solRec'])
        wattrs.setdefault('sens', F(0))
        rattrs = dict(b.get('rextra', {}), layerTemp=[b['tRoof'], b['tRoof'] - 2], sens=b['roofSens'])
        rattrs.setdefault('solRec', F(0))
        mattrs = dict(b.get('wextra', {}), layerTemp=[b['indoorTemp'], b['indoorTemp']], solRec=F(0), sens=F(0))
        BEM.append(NS(**dict(b.get('bextra', {}), building=NS(**battrs), wall=NS(**wattrs), roof=NS(**rattrs),
                             mass=NS(**mattrs), frac=b['frac'], fl_area=b['flArea'])))
    forc = W4.full_forc(c, pres=c['pres'], hum=c['forcHum'])
    parameter = NS(cp=c['cp'])
    circ = c.get('circ', '')
    try:
        if U4.rendered(circ):
            U4.observe(u)
        with U4.under(circ):
            u.UCModel(BEM, c['tUbl'], forc, parameter)
        if U4.rendered(circ):
            U4.observe(u)
    except ZeroDivisionError:
        return 'err zerodiv'
    except IndexError:
        return 'err index'
    except AttributeError:
        return 'err attr'
    except Exception as e:
        if type(e) is Exception and 'canyon temperature' in str(e):
            return 'err fatal'
        raise
    return {k: F(getattr(u, k)) for k in UCM_OUT}


def ucm_fmt(r):
    return r if isinstance(r, str) else 'ok ' + frac_list([r[k] for k in UCM_OUT])


def ucm_temps(c):
    """Temperatures the canyon node exchanges heat with (those with a non-zero coefficient are
    what matters; all are listed, the oracle is only used when every coefficient is >= 0)."""
    ts = [c['tRoad'], c['tUbl']]
    for b in c['blds']:
        ts += [b['indoorTemp'], b['tWall']]
    return ts


def ucm_sources_zero(c):
    return (c['sensAnthrop'] + c['treeSensHeat'] == 0 and
            all(b['sensWaste'] * c['hMix'] == 0 and
                b['glazingRatio'] * b['solRec'] * (1 - b['shgc']) == 0 for b in c['blds']))


def ucm_oracle(c, r):
    if isinstance(r, str):
        return None
    ts = ucm_temps(c)
    if ucm_sources_zero(c):
        if len(set(ts)) == 1 and r['canTemp'] != ts[0]:
            return 'isothermal canyon at %s without sources moved to %s' % (
                float(ts[0]), float(r['canTemp']))
        if not (min(ts) <= r['canTemp'] <= max(ts)):
            return 'source-free canyon temperature %s outside [%s, %s]' % (
                float(r['canTemp']), float(min(ts)), float(max(ts)))
    return None


# =============================================================================== boundary layer
def gen_ubl(rng, kind=None, branch=None):
    kind = kind or rng.choice(['random', 'random', 'isothermal', 'nosource'])
    branch = branch or rng.choice(['day-forced', 'day-convective', 'night', 'night'])
    T = rq(rng, 275, 310, 4)
    iso = kind == 'isothermal'
    temp = (lambda: T) if iso else (lambda: rq(rng, 270, 315, 4))
    nz = rng.randint(2, 12)
    nzref = rng.randint(1, nz)
    nzfor = rng.randint(1, nzref)
    c = {'kind': kind, 'want': branch}
    c['nzref'], c['nzfor'] = nzref, nzfor
    c['dz'] = [rq(rng, 2, 40, 2) for _ in range(nz)]
    z, acc = [], F(0)
    for d in c['dz']:
        z.append(acc + d / 2)
        acc += d
    c['z'] = z
    c['densityProfC'] = [rq(rng, 0.9, 1.3, 100) for _ in range(nz)]
    c['tempProf'] = [temp() for _ in range(nz)]
    c['windProf'] = [rq(rng, 0, 9, 4) for _ in range(nz)]
    c['charLength'] = F(rng.choice([rng.randint(100, 5000), rng.randint(100, 5000), 1000, 250,
                                    rng.randint(1, 300)]))
    c['maxdx'] = F(rng.choice([250, 250, 250, 100, 400, 1000]))
    c['dayBLHeight'] = rq(rng, 500, 1500, 1)
    c['nightBLHeight'] = rq(rng, 30, 150, 1)
    c['cp'] = rng.choice([F(1004), rq(rng, 990, 1020, 1)])
    c['circCoeff'] = rq(rng, 0.8, 1.5, 10)
    c['g'] = F('9.81')
    c['dayThreshold'] = rng.choice([F(150), F(200), rq(rng, 50, 300, 1)])
    c['windMin'] = rng.choice([F(1), F(0), rq(rng, 0, 2, 4)])
    c['dt'] = F(rng.choice([60, 300, 600, 900, 3600]))
    c['ruralSens'] = rq(rng, -50, 300, 2)
    c['qUbl'] = F(0) if kind in ('isothermal', 'nosource') else rq(rng, -50, 400, 2)
    c['ublTemp'] = temp()
    if branch.startswith('day'):
        c['dir'] = rq(rng, 100, 800, 1)
        c['dif'] = rq(rng, 60, 300, 1) + c['dayThreshold']
        c['secDay'] = rng.choice([F(300 * rng.randint(0, 288)), F(43200)])
        c['sensHeat'] = rq(rng, -20, 500, 2)
        if branch == 'day-forced':
            c['wind'] = rq(rng, 6, 25, 4)
            c['sensHeat'] = c['ruralSens'] + rq(rng, -50, 60, 2)
        else:
            c['wind'] = rq(rng, 0, 1, 4)
            c['windMin'] = rq(rng, 0, 1, 4)
            c['sensHeat'] = c['ruralSens'] + rq(rng, 50, 400, 2)
    else:
        c['dir'] = F(0)
        c['dif'] = rng.choice([F(0), rq(rng, 0, 40, 1)])
        c['secDay'] = F(300 * rng.randint(0, 288))
        c['sensHeat'] = rq(rng, -30, 150, 2)
        c['wind'] = rq(rng, 0, 12, 4)
    c['cells'] = None          # filled from the real constructor's cell count in impl_ubl
    c['cellgen'] = [temp() for _ in range(64)]
    c['override'] = {}
    # circumstance of the step (no input of it): the UBLDef object rendered (repr / str) right before the step and
    # again after it, before ublTemp and the cells are read; DEBUG logging on around the step; both
    c['circ'] = U4.circ_pick(rng)
    c.update(W4.gen_forcing(rng, c['ublTemp']))     # every other attribute of a real Forcing (no input of the step)
    return c


def ubl_edge(rng):
    out = []

    def mk(branch, **kw):
        c = gen_ubl(rng, 'random', branch)
        ov = kw.pop('override', {})
        c.update(kw)
        c['override'] = ov
        c['kind'] = 'edge'
        out.append(c)
    for br in ('day-forced', 'night'):
        mk(br, cp=F(0))
        mk(br, densityProfC=[F(0)] * 12, nzref=2, nzfor=1, dz=[F(5)] * 12,
           z=[F(5 * k) + F(5, 2) for k in range(12)], tempProf=[F(290)] * 12,
           windProf=[F(2)] * 12)                                       # refDens = 0
        mk(br, nzref=20, nzfor=1)                                       # IndexError
        mk(br, override={'urbArea': F(0)})
        mk(br, override={'paralLength': F(0)})
        mk(br, override={'paralLength': F(1, 2)})                       # int(paralLength) = 0
        mk(br, override={'charLength': F(0)})
        mk(br, override={'ublTempdx': []})
        mk(br, override={'paralLength': F(10)})                         # count > number of cells
        mk(br, override={'paralLength': F(100000)})                     # count = 0
        mk(br, override={'charLength': F(300), 'paralLength': F(250)})  # count < number of cells
    mk('night', nightBLHeight=F(0))
    mk('day-forced', dayBLHeight=F(0))
    mk('day-forced', tempProf=[F(0)] * 12, nzref=2, nzfor=1, dz=[F(5)] * 12,
       z=[F(5 * k) + F(5, 2) for k in range(12)], densityProfC=[F(1)] * 12,
       windProf=[F(2)] * 12)                                            # eqTemp = 0
    mk('day-forced', secDay=F(43200))
    mk('night', secDay=F(43200), dir=F(0), dif=F(0))
    return out


def build_ubl(pkg, c):
    """Real (fractionised) UBLDef built by its own constructor, then given the generated state."""
    ubl = mod(pkg, 'UBLDef').UBLDef('C', c['charLength'], F(290), c['maxdx'], c['dayBLHeight'],
                            c['nightBLHeight'])
    n = len(ubl.ublTempdx)
    ubl.ublTempdx = list(c['cellgen'][:n]) if n <= 64 else [c['cellgen'][0]] * n
    ubl.ublTemp = c['ublTemp']
    for k, v in c['override'].items():
        setattr(ubl, k, list(v) if isinstance(v, list) else v)
    return ubl


def rsm_of(c):
    return NS(nzref=c['nzref'], nzfor=c['nzfor'], densityProfC=list(c['densityProfC']),
              dz=list(c['dz']), z=list(c['z']), tempProf=list(c['tempProf']),
              windProf=list(c['windProf']))


def impl_ubl(pkg, c, qubl=None):
    """Run the REAL UBLDef.ublmodel over exact rationals; returns (line, result)."""
    try:
        ubl = build_ubl(pkg, c)
    except ZeroDivisionError:
        return None, 'err zerodiv'
    st = {'orthLength': ubl.orthLength, 'urbArea': ubl.urbArea, 'perimeter': ubl.perimeter,
          'paralLength': ubl.paralLength, 'charLength': ubl.charLength, 'ublTemp': ubl.ublTemp,
          'cells': list(ubl.ublTempdx)}
    q = c['qUbl'] if qubl is None else qubl
    vals = dict(c)
    vals.update(st)
    vals['qUbl'] = q
    line = 'ubl ' + ' '.join('%s=%s' % (k, frac_str(vals[k])) for k in UBL_FIELDS)
    line += ' cells=%s nzref=%d nzfor=%d' % (frac_list(st['cells']), c['nzref'], c['nzfor'])
    for k in RSM_LISTS:
        line += ' %s=%s' % (k, frac_list(c[k]))
    UCM = NS(sensHeat=c['sensHeat'], Q_ubl=q)
    rural = NS(sens=c['ruralSens'])
    forc = W4.full_forc(c, wind=c['wind'], dir=c['dir'], dif=c['dif'])
    parameter = NS(cp=c['cp'], circCoeff=c['circCoeff'], g=c['g'], windMin=c['windMin'],
                   dayThreshold=c['dayThreshold'])
    simTime = NS(secDay=c['secDay'], dt=c['dt'])
    circ = c.get('circ', '')
    try:
        if U4.rendered(circ):
            U4.observe(ubl)
        with U4.under(circ):
            ubl.ublmodel(UCM, rsm_of(c), rural, forc, parameter, simTime)
        if U4.rendered(circ):
            U4.observe(ubl)
    except ZeroDivisionError:
        return line, 'err zerodiv'
    except IndexError:
        return line, 'err index'
    return line, {'ublTemp': F(ubl.ublTemp), 'cells': [F(x) for x in ubl.ublTempdx], 'state': st}


def ubl_fmt(r):
    return r if isinstance(r, str) else 'ok %s %s' % (frac_str(r['ublTemp']), frac_list(r['cells']))


def ubl_is_day(c):
    t = c['secDay'] / 3600
    sun = c['dir'] + c['dif']
    return ((sun > c['dayThreshold'] and (t < 12 or abs(t - 12) < F(1, 10 ** 10))) or
            (sun > c['dayThreshold'] and t > 12) or c['sensHeat'] > 150)


def ubl_branch(c, r):
    if isinstance(r, str):
        return r.replace(' ', '-')
    if not ubl_is_day(c):
        return 'night'
    # forced or convective: recomputed from the state (spec of the branch condition)
    nzr = c['nzref']
    den = c['z'][nzr - 1] + c['dz'][nzr - 1] / 2
    refDens = sum(c['densityProfC'][k] * c['dz'][k] for k in range(nzr)) / den
    x = c['g'] * max(c['sensHeat'] - c['ruralSens'], 0) / c['cp'] / refDens / \
        c['tempProf'][nzr - 1] * c['dayBLHeight']
    u_circ = c['circCoeff'] * (x * F(1, 3) + 1)        # stub rpow
    return 'day-forced' if max(c['wind'], c['windMin']) > u_circ else 'day-convective'


def ubl_oracle(c, r):
    if isinstance(r, str):
        return None
    st = r['state']
    cells, new = st['cells'], r['cells']
    day = ubl_is_day(c)
    n = len(cells)
    consistent = n > 0 and st['charLength'] == n * st['paralLength'] and \
        st['paralLength'] != 0 and int(st['charLength']) // max(int(st['paralLength']), 1) == n
    if (day or consistent) and n > 0 and r['ublTemp'] != sum(new) / n:
        return 'boundary-layer temperature %s is not the mean %s of its %d cells' % (
            float(r['ublTemp']), float(sum(new) / n), n)
    nonneg = all(w >= 0 for w in c['windProf']) and all(d >= 0 for d in c['dz']) and \
        c['dt'] >= 0 and st['paralLength'] > 0 and c['nightBLHeight'] > 0
    if c['qUbl'] == 0 and (day or (consistent and nonneg)):
        if day:
            ts = [c['tempProf'][c['nzref'] - 1], st['ublTemp']]
            ok_sign = True       # advCoef >= 0 is part of what is checked: see below
        else:
            ts = list(c['tempProf'][:c['nzfor']]) + list(cells)
            ok_sign = True
        lo, hi = min(ts), max(ts)
        if ok_sign:
            if lo == hi and (r['ublTemp'] != lo or any(x != lo for x in new)):
                return 'isothermal boundary layer at %s without source moved to %s' % (
                    float(lo), float(r['ublTemp']))
            for x in new + [r['ublTemp']]:
                if not (lo <= x <= hi):
                    return 'source-free boundary-layer value %s outside [%s, %s]' % (
                        float(x), float(lo), float(hi))
    return None


def night_cases(rng, pkg, n):
    """Direct calls of the static UBLDef.nightforc."""
    out = []
    for _ in range(n):
        c = gen_ubl(rng, None, 'night')
        ubl = build_ubl(pkg, c)
        csurf = rng.choice([F(0), rq(rng, -1, 2, 100)])
        h = c['nightBLHeight']
        cells = list(ubl.ublTempdx)
        vals = dict(c)
        vals.update(orthLength=ubl.orthLength, urbArea=ubl.urbArea, perimeter=ubl.perimeter,
                    paralLength=ubl.paralLength, charLength=ubl.charLength, ublTemp=ubl.ublTemp)
        line = 'night ' + ' '.join('%s=%s' % (k, frac_str(vals[k])) for k in UBL_FIELDS)
        line += ' csurf=%s hUBL=%s cells=%s nzref=%d nzfor=%d' % (
            frac_str(csurf), frac_str(h), frac_list(cells), c['nzref'], c['nzfor'])
        for k in RSM_LISTS:
            line += ' %s=%s' % (k, frac_list(c[k]))
        try:
            t, cs = mod(pkg, 'UBLDef').UBLDef.nightforc(list(cells), c['dt'], h, ubl.paralLength,
                                                ubl.charLength, rsm_of(c), csurf)
            res = 'ok %s %s' % (frac_str(t), frac_list(cs))
        except ZeroDivisionError:
            res = 'err zerodiv'
        except IndexError:
            res = 'err index'
        out.append((line, res))
    return out


def loop_count_enumeration(pkg, upto):
    """For maxdx = 250 m (the value uwg uses) and every integer charLength: does the loop bound
    int(charLength)//int(paralLength) equal the number of cells the constructor creates?"""
    bad = []
    for L in range(1, upto + 1):
        numdx = round(L / min(L, 250.))
        paral = L / numdx
        if int(L) // int(paral) != int(numdx):
            bad.append(L)
    return bad


def float_night_mean(chk, lengths):
    """Float level: the plain package's constructor + nightforc for many urban lengths: the returned ublTemp
    must be the mean of the returned cells (the property's last clause), unless the call fails (fail-stop)."""
    import types
    core.repo_python_path()
    import importlib
    _U = importlib.import_module("uwg.UBLDef")
    rsm = types.SimpleNamespace(nzfor=2, windProf=[1.5, 2.5], tempProf=[291.0, 292.0], dz=[4.0, 6.0])
    n, bad, stop = 0, [], 0
    for L in lengths:
        try:
            ubl = _U.UBLDef('C', L, 295.0, 250., 1000., 80.)
            cells = [290.0 + 0.37 * i for i in range(len(ubl.ublTempdx))]
            t, cs = _U.UBLDef.nightforc(list(cells), 300., 80., ubl.paralLength, ubl.charLength, rsm, 0.01)
        except (IndexError, ZeroDivisionError):
            stop += 1
            continue
        n += 1
        mean = sum(cs) / len(cs)
        if abs(t - mean) > 1e-9 * max(1.0, abs(mean)):
            bad.append((L, t, mean, len(cs)))
    for L, t, mean, k in bad[:2]:
        chk.violation('impl-violation', 'boundary-layer temperature is not the mean of its along-wind cells (floats)',
                      case={'charLength': L, 'maxdx': 250.0, 'cells': k, 'dt': 300.0, 'nightBLHeight': 80.0},
                      observed='ublTemp %r, mean of the %d cells %r' % (t, k, mean), expected='equal')
    chk.direct('C15-oracle(float nightforc: ublTemp = mean of cells)', n, n,
               'plain float UBLDef constructor (maxdx 250) + nightforc with distinct cell temperatures for every '
               'integer urban length 1..3000, every 7th up to 70000 and halves/thirds: returned ublTemp equals the '
               'mean of the returned cells (1e-9 relative); %d lengths end in IndexError (fail-stop)' % stop,
               mismatches=len(bad))


# =============================================================================== indoor node
def gen_indoor(rng, kind):
    """Indoor-air states for the balance: isothermal / source-free with the HVAC at rest."""
    c = c14.gen_case(rng, 'idle')
    tc = min(c['coolSetDay'], c['coolSetNight'])
    th = max(c['heatSetDay'], c['heatSetNight'])
    T = th + (tc - th) * F(rng.randint(0, 8), 8)
    c['intHeatDay'] = c['intHeatNight'] = F(0)
    c['solRec'] = rng.choice([F(0), rq(rng, 0, 300, 1)])
    if c['solRec'] != 0:
        c['shgc'] = F(0)                     # no transmitted sun either way
    if kind == 'isothermal':
        c['tWall'] = c['tMass'] = c['tCeil'] = c['canTemp'] = T
    else:
        for k in ('tWall', 'tMass', 'tCeil', 'canTemp'):
            c[k] = th + (tc - th) * F(rng.randint(0, 16), 16)
    c['indoorTemp'] = rq(rng, 285, 305, 4)
    c['mode'] = 'indoor-' + kind
    c.update(W4.gen_forcing(rng, c['canTemp']))
    return c


def gen_indoor_locked(rng, kind):
    """Indoor-air states with a heating DEMAND but the plant locked out by the routine's own rule (heating only while
    the canyon air is below 288 K): walls, ceiling, mass and canyon at or above 288 K (exactly 288 K in a share) and
    below both heating set-points, no gains, no sun.  The room has no source then, whatever the rural station reads:
    the rural dry bulb of the full `forc` stand-in lies below 288 K in most of these cases (heat island across the
    switch), at 288 K, or above."""
    c = c14.gen_case(rng, 'idle')
    c['heatSetDay'] = rq(rng, 290, 294, 2)
    c['heatSetNight'] = rng.choice([c['heatSetDay'], rq(rng, 289.5, 293, 2)])
    th = min(c['heatSetDay'], c['heatSetNight'])
    c['intHeatDay'] = c['intHeatNight'] = F(0)
    c['solRec'] = rng.choice([F(0), rq(rng, 0, 300, 1)])
    if c['solRec'] != 0:
        c['shgc'] = F(0)
    lo = F(288)
    pick = lambda: lo + (th - lo) * F(rng.randint(0, 15), 16)         # in [288, th)
    if kind == 'isothermal':
        T = rng.choice([lo, pick(), pick()])
        c['tWall'] = c['tMass'] = c['tCeil'] = c['canTemp'] = T
    else:
        for k in ('tWall', 'tMass', 'tCeil', 'canTemp'):
            c[k] = pick()
        if rng.random() < 0.3:
            c['canTemp'] = lo
    c['indoorTemp'] = rng.choice([c['canTemp'], rq(rng, 285, 300, 4)])
    c['mode'] = 'indoor-locked-' + kind
    c.update(W4.gen_forcing(rng, c['canTemp'], rng.choice(['across', 'across', 'across', 'island', 'at288', 'same'])))
    return c


def impl_indoor(pkg, c):
    """c14's adapter of the REAL BEMCalc, with the full Forcing stand-in of the case"""
    with W4.bem_forcing(pkg, c):
        return c14.impl_bem(pkg, c)


def indoor_oracle(c, r):
    if isinstance(r, str):
        return None
    # heating is a legitimate source only while the canyon air is below 288 K (the switch of the routine, `heatBelow288`
    # of the Lean model): heat delivered with the canyon at or above 288 K is NOT excused as "a system acts"
    heating_ok = c['canTemp'] < 288
    if r['Qhvac'] != 0 or r['sensCoolDemand'] != 0 or (r['Qheat'] != 0 and heating_ok):
        return None                           # a system (or free cooling) acts: C14's subject
    if r['int_heat'] != 0 or r['fluxSolar'] != 0:
        return None
    ts = [c['tWall'], c['tMass'], c['tCeil'], c['canTemp']]
    extra = ''
    if r['Qheat'] != 0:
        extra = ' (heating %s W/m2 delivered although the canyon air is at %s K >= 288 K%s)' % (
            float(r['Qheat']), float(c['canTemp']),
            ('; rural dry bulb forc.temp = %s K' % float(c['forc_temp'])) if 'forc_temp' in c else '')
    if len(set(ts)) == 1 and r['indoor_temp'] != ts[0]:
        return 'isothermal room at %s without sources moved to %s%s' % (
            float(ts[0]), float(r['indoor_temp']), extra)
    if not (min(ts) <= r['indoor_temp'] <= max(ts)):
        return 'source-free indoor temperature %s outside [%s, %s]%s' % (
            float(r['indoor_temp']), float(min(ts)), float(max(ts)), extra)
    return None


# =============================================================================== live float runs
def live_wrappers(sink, tol=1e-9, twin_every=12):
    """Wrap UCMDef.UCModel and UBLDef.ublmodel of the plain uwg package from outside."""
    import copy

    def install(uwg_pkg, label):
        import importlib
        ncall = [0]
        um = importlib.import_module('uwg.UCMDef')     # (the package re-exports the classes
        ub = importlib.import_module('uwg.UBLDef')     #  under the module names)
        o_uc, o_ub = um.UCMDef.UCModel, ub.UBLDef.ublmodel

        def le(a, b, s):
            return a <= b + tol * max(abs(a), abs(b), s)

        def uc(self, BEM, T_ubl, forc, parameter):
            dens_old = forc.pres / (1000 * 0.287042 * self.canTemp * (1. + 1.607858 * self.canHum))
            dens_ubl = forc.pres / (1000 * 0.287042 * T_ubl * (1. + 1.607858 * forc.hum))
            ts = [self.road.layerTemp[0], T_ubl]
            ws = [self.road.aeroCond * self.roadArea,
                  self.roadArea * self.uExch * parameter.cp * dens_ubl]
            Q = (self.roofArea + self.roadArea) * (self.sensAnthrop + self.treeSensHeat)
            for e in BEM:
                b = e.building
                aw = b.glazing_ratio * self.facArea
                ts += [b.indoor_temp, e.wall.layerTemp[0]]
                ws += [e.frac * (aw * b.u_value +
                                 self.roofArea * b.vent * b.nFloor * parameter.cp * dens_old +
                                 self.roofArea * b.infil * self.bldHeight / 3600.0 *
                                 parameter.cp * dens_old),
                       e.frac * (1. - b.glazing_ratio) * self.facArea * self.road.aeroCond]
                Q += e.frac * (self.roofArea * b.sensWaste * self.h_mix +
                               aw * e.wall.solRec * (1.0 - b.shgc))
            o_uc(self, BEM, T_ubl, forc, parameter)
            ncall[0] += 1
            if twin_every and ncall[0] % twin_every == 1 and min(ws) >= 0:
                # the property itself on a state really reached: same object, same stock, sources removed and
                # every exchanged temperature set to T (then to a 0.01 K band): the REAL UCModel must keep T
                # (stay inside the band)
                for band in (0.0, 0.01):
                    u2, B2 = copy.deepcopy(self), copy.deepcopy(BEM)
                    T = float(T_ubl)
                    u2.sensAnthrop = u2.treeSensHeat = 0.0
                    u2.road.layerTemp[0] = T + band
                    for j, e in enumerate(B2):
                        e.building.sensWaste = 0.0
                        e.wall.solRec = 0.0
                        e.building.indoor_temp = T + band * ((j + 1) % 3) / 2.0
                        e.wall.layerTemp[0] = T + band * (j % 2)
                    o_uc(u2, B2, T, forc, parameter)
                    lo, hi = T, T + band
                    tmsg = None
                    if not (lo - tol * T <= u2.canTemp <= hi + tol * T):
                        shape = '; '.join('frac %r nFloor %r floor_height %r vent %r' % (
                            e.frac, e.building.nFloor, e.building.floor_height, e.building.vent) for e in B2)
                        tmsg = ('canyon (twin of a live state, sources removed): every exchanged temperature in '
                                '[%r, %r] K but the real UCModel returns canTemp %r (off by %.3e K); bldHeight %r; '
                                'stock: %s' % (lo, hi, u2.canTemp, u2.canTemp - (lo if u2.canTemp < lo else hi),
                                               self.bldHeight, shape))
                    sink('canyon-twin', label, 'isothermal' if band == 0 else 'band-0.01K', tmsg)
            H2 = sum(ws)
            msg = None
            if min(ws) >= 0 and H2 > 0:
                base = self.canTemp - Q / H2          # the source-free part of the update
                s = max(abs(t) for t in ts)
                if not (le(min(ts), base, s) and le(base, max(ts), s)):
                    msg = 'canyon: canTemp - Q/H2 = %r outside [%r, %r]' % (base, min(ts), max(ts))
                elif Q >= 0 and not le(min(ts), self.canTemp, s):
                    msg = 'canyon: heat added (Q=%r) but canTemp %r below min %r' % (
                        Q, self.canTemp, min(ts))
                sink('canyon', label, 'Q>=0' if Q >= 0 else 'Q<0', msg)
            else:
                sink('canyon', label, 'negative-weight', None)

        def ublw(self, UCM, RSM, rural, forc, parameter, simTime):
            old_T = self.ublTemp
            old_cells = list(self.ublTempdx)
            # the state the step starts from: whatever happened since the previous step (somebody looked at the
            # object, a log line was written, another model ran), the layer temperature is the mean of its cells
            m0 = sum(old_cells) / len(old_cells) if old_cells else old_T
            sink('ubl-entry', label, 'mean-of-cells', None if abs(m0 - old_T) <= tol * abs(old_T) else
                 'ubl: at the start of the step ublTemp %r is not the mean %r of its %d along-wind cells %r' % (
                     old_T, m0, len(old_cells), old_cells[:6]))
            # which closure the step takes, by the rule of the routine evaluated on its inputs (the shape of the
            # result - all cells equal - cannot tell: a layer of ONE cell, charLength < 375 m, looks like that at night)
            t_h, sun = simTime.secDay / 3600., forc.dir + forc.dif
            day = (sun > parameter.dayThreshold and (t_h < 12. or abs(t_h - 12.) < 1e-10)) or \
                (sun > parameter.dayThreshold and t_h > 12.) or (UCM.sensHeat > 150.0)
            o_ub(self, UCM, RSM, rural, forc, parameter, simTime)
            cells = list(self.ublTempdx)
            n = len(cells)
            msg = None
            s = abs(self.ublTemp)
            mean = sum(cells) / n
            if abs(mean - self.ublTemp) > tol * s:
                msg = 'ubl: ublTemp %r is not the mean %r of its cells' % (self.ublTemp, mean)
            elif day and not (all(c == cells[0] for c in cells) and cells[0] == self.ublTemp):
                msg = 'ubl: day step, but the cells %r are not all equal to the well-mixed ublTemp %r' % (
                    cells[:6], self.ublTemp)
            if day:
                ts = [RSM.tempProf[RSM.nzref - 1], old_T]
            else:
                ts = list(RSM.tempProf[:RSM.nzfor]) + old_cells
            wind_ok = all(w >= 0 for w in RSM.windProf[:max(RSM.nzref, RSM.nzfor)])
            if msg is None and wind_ok:
                for x in cells + [self.ublTemp]:
                    if UCM.Q_ubl >= 0 and not le(min(ts), x, s):
                        msg = 'ubl: heat added but value %r below min %r' % (x, min(ts))
                    if UCM.Q_ubl <= 0 and not le(x, max(ts), s):
                        msg = 'ubl: heat removed but value %r above max %r' % (x, max(ts))
            sink('ubl', label, ('day' if day else 'night') +
                 ('-heated' if UCM.Q_ubl >= 0 else '-cooled'), msg)
        bm = importlib.import_module('uwg.building')
        o_bem = bm.Building.BEMCalc

        def bemw(self, UCM, BEM, forc, parameter, simTime):
            # the indoor node and the routine's own switch (heating only while the CANYON air is below 288 K, cooling
            # only while it is above): where the rural station and the canyon lie relative to 288 K is counted, and heat
            # / cooling delivered on the wrong side of the switch is a source the room must not have
            can, rural = UCM.canTemp, forc.temp
            o_bem(self, UCM, BEM, forc, parameter, simTime)
            msg = None
            if can >= 288. and getattr(self, 'Qheat', 0.) != 0.:
                msg = ('indoor: heating of %r W/m2 delivered (room at %r K after the step) although the canyon air is at '
                       '%r K >= 288 K (plant locked out); rural dry bulb forc.temp = %r K' % (
                           self.Qheat, self.indoor_temp, can, rural))
            elif can <= 288. and getattr(self, 'Qhvac', 0.) != 0.:
                msg = ('indoor: cooling energy of %r W/m2 used although the canyon air is at %r K <= 288 K (plant locked '
                       'out); rural dry bulb forc.temp = %r K' % (self.Qhvac, can, rural))
            side = 'canyon%s288,rural%s288' % ('>=' if can >= 288. else '<', '>=' if rural >= 288. else '<')
            sink('indoor-switch', label, side, msg)
        bm.Building.BEMCalc = bemw
        um.UCMDef.UCModel = uc
        ub.UBLDef.ublmodel = ublw

        def undo():
            um.UCMDef.UCModel = o_uc
            ub.UBLDef.ublmodel = o_ub
            if bm.Building.BEMCalc is bemw:        # (c14.live_runs restores its own wrapper before calling us)
                bm.Building.BEMCalc = o_bem
        return undo
    return install


def setup_stock(bld, **attrs):
    def setup(m, uwg_pkg):
        m.bld = bld
        for k, v in attrs.items():
            setattr(m, k, v)
    return setup


_SGP = ('SGP_Singapore.486980_IWEC.epw', 'initialize_singapore.uwg')
_TOR = ('CAN_ON_Toronto.716240_CWEC.epw', 'initialize_toronto.uwg')
LOWRISE = [
    # average building height below the floor-to-floor height of (some of) the stock: DOE floor heights are 8.53 m
    # (warehouse), 6.1 m (supermarket, stand-alone retail), 5.18 m (strip mall), 4.27 m (hospital), 4 m (schools)
    ('lowrise-5m-warehouse-supermarket', 5.0, [('warehouse', 'pst80', 0.4), ('supermarket', 'new', 0.3),
                                              ('smalloffice', 'pst80', 0.3)]),
    ('lowrise-3m-stripmall-retail', 3.0, [('stripmall', 'new', 0.5), ('standaloneretail', 'pst80', 0.5)]),
    ('lowrise-4m-school-hospital', 4.0, [('primaryschool', 'pre80', 0.6), ('hospital', 'new', 0.4)]),
    ('lowrise-2.5m-everything-clamped', 2.5, [('midriseapartment', 'pre80', 0.5), ('smalloffice', 'new', 0.5)]),
]
SHOULDER = [('toronto-14-may-shoulder-season', 5, 14), ('toronto-25-sep-shoulder-season', 9, 25),
            ('toronto-2-jun-shoulder-season', 6, 2)]
RUN_CONFIG = {}


def stock_runs(quick):
    """Live runs whose stock / geometry is legal but unlike the shipped examples (label, epw, param, month, zone,
    autosize, setup)."""
    runs = []
    stocks = T3.LIVE_STOCKS[:4] if quick else T3.LIVE_STOCKS + [
        ('thirty-archetypes-sum-0.9999', T3.thirty_stock(0.9999)), ('thirty-archetypes-sum-1.005', T3.thirty_stock(1.005))]
    for label, bld in stocks:
        runs.append(('stock-' + label,) + _SGP + (1, None, 0, setup_stock(bld)))
        RUN_CONFIG['stock-' + label] = {'bld': bld}
    # shoulder season of a temperate climate: rural station and canyon on different sides of the 288 K plant switch
    for label, month, day in (SHOULDER[:1] if quick else SHOULDER):
        runs.append((label,) + _TOR + (month, '5A', 0, (lambda d: lambda m, uwg_pkg: setattr(m, 'day', d))(day)))
        RUN_CONFIG[label] = {'month': month, 'day': day, 'zone': '5A'}
    for label, h, bld in (LOWRISE[:2] if quick else LOWRISE):
        runs.append((label,) + _SGP + (1, None, 0, setup_stock(bld, bldheight=h)))
        RUN_CONFIG[label] = {'bld': bld, 'bldheight': h}
    if not quick:
        label, h, bld = LOWRISE[0]
        runs.append((label + '-toronto-jul',) + _TOR + (7, '5A', 0, setup_stock(bld, bldheight=h)))
        RUN_CONFIG[label + '-toronto-jul'] = {'bld': bld, 'bldheight': h}
    return runs


# =============================================================================== circumstances (round 4)
def indoor_live_msg(c, r):
    """indoor node of a live BEMCalc call: (branch, message). Heat added (internal + solar gains >= 0) and no system
    acting: the room does not end below the coldest temperature it exchanges heat with."""
    if r['Qhvac'] == 0 and r['Qheat'] == 0 and r['sensCoolDemand'] == 0:
        ts = [c['tWall'], c['tMass'], c['tCeil'], c['canTemp']]
        gains = r['int_heat'] + r['fluxSolar'] * r['nFloor']
        ok = gains < 0 or min(ts) <= r['indoor_temp'] + 1e-9 * abs(r['indoor_temp'])
        return 'hvac-at-rest', (None if ok else 'indoor: gains %r >= 0 but indoor temperature %r below min %r' % (
            gains, r['indoor_temp'], min(ts)))
    return 'hvac-acts', None


def ubl_state_msg(ubl, when):
    cells = list(ubl.ublTempdx)
    mean = sum(cells) / len(cells)
    if abs(mean - ubl.ublTemp) > 1e-9 * abs(ubl.ublTemp):
        return 'boundary layer %s: ublTemp %r is not the mean %r of its %d along-wind cells %r' % (
            when, ubl.ublTemp, mean, len(cells), cells[:6])
    return None


def u4_install(sink, ctx):
    """the three node oracles (and the producers of their weights) as class-level wrappers, for harness/u4_util"""
    core.repo_python_path()
    import uwg as uwg_pkg
    import uwg.building as bmod

    def s4(node, label, branch, msg):
        sink('%s:%s' % (node, branch), msg)
    undo = [live_wrappers(s4, twin_every=48)(uwg_pkg, 'u4'), c15_inputs.live_install(s4)(uwg_pkg, 'u4')]
    orig = bmod.Building.BEMCalc

    def bem(self, UCM, BEM, forc, parameter, simTime):
        c = c14.state_of_building(self, UCM, BEM, forc, parameter, simTime)
        orig(self, UCM, BEM, forc, parameter, simTime)
        branch, msg = indoor_live_msg(c, {k: getattr(self, k) for k in c14.OUT if hasattr(self, k)})
        sink('indoor:' + branch, msg)
    bmod.Building.BEMCalc = bem

    def un():
        bmod.Building.BEMCalc = orig
        for f in undo:
            f()
        c15_inputs.LIVE_STATS.pop('u4', None)
    return un


def u4_state(when):
    def f(m, spec, sink, ctx):
        sink('ubl-state:' + when, ubl_state_msg(m.UBL, when))
    return f


U4_HOOKS = U4.Hooks(
    install=u4_install, after_generate=u4_state('after generate()'), final=u4_state('after simulate()'),
    kernels=[('uwg.UCMDef', 'UCMDef', 'UCModel', (1, 3, 4)),
             ('uwg.UBLDef', 'UBLDef', 'ublmodel', (1, 2, 3, 4, 5, 6)),
             ('uwg.UBLDef', 'UBLDef', 'nightforc', (5,)),
             ('uwg.building', 'Building', 'BEMCalc', (1, 3, 4, 5))])


def circumstance_ties(chk, quick):
    """The six circumstances of harness/generic.py on live runs with the node oracles (see u4_util)."""
    work = chk.work()
    par_t, epw_t = U4.toronto()
    scen = [U4.make_spec('singapore 1 Jan, 1 day, charLength 1000 (4 along-wind cells)', month=1, day=1, nday=1, dtsim=300),
            U4.make_spec('toronto 10 Jan, 1 day, zone 5A, charLength 2600 (10 cells), three archetypes', epw=epw_t,
                         param=par_t, month=1, day=10, nday=1, dtsim=300, zone='5A', charlength=2600,
                         bld=[('largeoffice', 'pst80', 0.335), ('midriseapartment', 'pre80', 0.335),
                              ('warehouse', 'new', 0.335)])]
    if not quick:
        scen += [U4.make_spec('singapore 30 Jun, 2 days, lowrise stock, charLength 300', month=6, day=30, nday=2, dtsim=300,
                              charlength=300, bldheight=5.0, bld=[('warehouse', 'pst80', 0.4), ('supermarket', 'new', 0.6)]),
                 U4.make_spec('toronto 1 Jul, autosize', epw=epw_t, param=par_t, month=7, day=1, nday=1, dtsim=300,
                              zone='5A', autosize=1)]
    counts, nbad, _ = U4.live_battery(
        chk, 'C15', U4_HOOKS, scen, U4.others_default(work), 'C15 node oracles on live runs',
        full=1 if quick else len(scen), required=('canyon', 'ubl:', 'ubl-entry', 'indoor', 'ubl-state'))
    chk.direct('C15-circumstances(live runs: observers, logging, -O, CLI, other models, caller data)',
               sum(counts.values()), len(scen),
               'oracle = the live node statements (canTemp - Q/H2 within the exchanged temperatures, heat added never '
               'below their minimum, indoor node with the HVAC at rest, ublTemp = mean of its cells AFTER every ublmodel '
               'call and - new - at the START of every ublmodel call and on the model after generate() / simulate(), '
               'bounds of the boundary layer, weights of urbflux / SurfFlux). Kernel routines rendered around their '
               'calls: UCMDef.UCModel, UBLDef.ublmodel, UBLDef.nightforc (its RSM argument read-only), '
               'Building.BEMCalc. Scenarios: %s. %s' % ('; '.join(s['label'] for s in scen), U4.BATTERY_RULE),
               mismatches=nbad, branches=counts)


def case_json(c):
    def j(v):
        if isinstance(v, F):
            return str(v)
        if isinstance(v, list):
            return [j(x) for x in v]
        if isinstance(v, dict):
            return {k: j(x) for k, x in v.items()}
        return v
    return j(c)


def unjson(v, key=None):
    if isinstance(v, list):
        return [unjson(x) for x in v]
    if isinstance(v, dict):
        return {k: unjson(x, k) for k, x in v.items()}
    if isinstance(v, str) and key not in ('kind', 'want', 'cond', 'mode', 'run', 'stock', 'documented',
                                          'condtype', 'bldtype', 'builtera', 'circ'):
        try:
            return F(v)
        except ValueError:
            return v
    return v


def replay(chk, path):
    """bin/check C15 --replay <file>: re-run one recorded state against the working tree."""
    import json
    v = json.load(open(path))
    what = v['theorem_or_tie']
    if isinstance(v.get('case'), dict) and 'scenario' in v['case']:
        # a finding of the circumstance ties: the scenarios derive from the seed, re-run them
        core.repo_python_path()
        circumstance_ties(chk, chk.tier == 'quick')
        for x in chk.violations[:3]:
            print('observed:', str(x['observed'])[:600])
        return 1 if chk.violations else 0
    pkg = fracexec.load()
    msg_in = c15_inputs.replay(what, v['case'], pkg) if (
        isinstance(v.get('case'), dict) and v.get('kind') == 'impl-violation') else False
    if msg_in is not False:
        msg = msg_in
    elif 'UCModel' in what:
        c = unjson(v['case'])
        r = impl_ucm(pkg, c)
        msg = ucm_oracle(c, r)
        print('case   :', ucm_line(c)[:600])
        print('result :', ucm_fmt(r)[:300])
    elif 'BEMCalc' in what:
        c = unjson(v['case'])
        r = impl_indoor(pkg, c)
        msg = indoor_oracle(c, r)
        print('case   :', c14.line_of(c)[:600])
        print('result :', c14.fmt_out(r)[:300])
    elif 'ublmodel' in what:
        c = unjson(v['case'])
        line, r = impl_ubl(pkg, c)
        msg = ubl_oracle(c, r)
        print('case   :', (line or '')[:600])
        print('result :', ubl_fmt(r)[:300])
    else:
        print('replay of live-simulation findings: re-run bin/check C15 (%s)' % v['case'])
        return 2
    print('oracle :', msg or 'holds')
    return 1 if msg else 0


def run(chk):
    chk.proof(MODULE, THEOREMS + c15_inputs.THEOREMS, extra_modules=[c15_inputs.MODULE])
    if chk.tier == 'thorough':
        chk.leanchecker([MODULE, c15_inputs.MODULE])
    pkg = fracexec.load()
    rng = chk.rng
    quick = chk.tier == 'quick'

    def guard(failed, text, tie_mismatches):
        """Coverage guard of a generator.  When the tie of the same routine already has mismatches the implementation
        answers differently from the model, so branch counts measured on its results say nothing about the generator:
        the guard becomes a note and the report of the broken tie (with its failing inputs) goes out."""
        if not failed:
            return
        if tie_mismatches:
            chk.notes.append('coverage guard not enforced (%d mismatches in the tie of the same routine): %s' % (
                len(tie_mismatches), text))
            return
        raise core.Infra(text)

    # ---------------------------------------------------------------- canyon node
    n = 500 if quick else 5000
    cases = [gen_ucm(rng) for _ in range(n)] + ucm_edge(rng)
    res = [impl_ucm(pkg, c) for c in cases]
    kinds = {}
    pairs = []
    for c, r in zip(cases, res):
        line = ucm_line(c)
        kinds[line] = '%s/nb=%d/%s%s' % (c['kind'], len(c['blds']), ucm_shape(c),
                                         '/' + r.replace(' ', '-') if isinstance(r, str) else '')
        pairs.append((line, ucm_fmt(r)))
    cmism = chk.correspond(
        'UCMDef.UCModel~ucModel', 'C15', pairs,
        rule='fractionised UCMDef.UCModel (object built without its constructor) vs Lean '
             '`Uwg.Air.ucModel` at Q; 0-5 (sometimes 30) building archetypes; explored beside the numbers: every '
             'shape of stock the `bld` setter accepts (fractions adding up to exactly one; to 1 -/+ 0.0001..0.0099; '
             'n equal 3- or 4-digit decimals such as 3 x 0.333; entries with fraction 0; a single entry) and the '
             'building geometry (nFloor > 1 with floor_height = bldHeight / nFloor; the one-floor clamp of BEMCalc '
             'with floor_height 1..4 x the average building height); the building, wall, roof, mass and BEMDef '
             'stand-ins carry every attribute their class documents (legal values), the model sees only its own '
             'inputs; three cases of five under a circumstance (object rendered around the step, DEBUG logging, both); '
             'exact equality of %s or of the error class' % ', '.join(UCM_OUT),
        classify=lambda line, impl: kinds[line])
    bad = 0
    br = {}
    for c, r in zip(cases, res):
        if isinstance(r, str):
            continue
        br[c['kind']] = br.get(c['kind'], 0) + 1
        if c['kind'] in ('isothermal', 'nosource'):
            k2 = 'fixedpoint-or-range/' + ucm_shape(c)
            br[k2] = br.get(k2, 0) + 1
        msg = ucm_oracle(c, r)
        if msg is None and c['kind'] in ('random', 'nosource') and min(
                [c['roofArea'] + c['roadArea'], c['hMix']]) >= 0:
            # adding sensible heat never lowers the node: paired run with more heat
            c2 = dict(c)
            c2['sensAnthrop'] = c['sensAnthrop'] + rq(rng, 0, 50, 2)
            c2['blds'] = [dict(b, sensWaste=b['sensWaste'] + rq(rng, 0, 100, 2)) for b in c['blds']]
            r2 = impl_ucm(pkg, c2)
            if isinstance(r2, dict) and r2['canTemp'] < r['canTemp']:
                msg = 'more anthropogenic / waste heat lowered the canyon temperature %s -> %s' % (
                    float(r['canTemp']), float(r2['canTemp']))
            br['paired-source'] = br.get('paired-source', 0) + 1
        if msg:
            bad += 1
            if bad <= 3:
                chk.violation('impl-violation', 'C15 oracle on UCMDef.UCModel (exact)',
                              case=case_json(c), observed=msg,
                              expected='fixed point / range / monotone in source')
    nok = sum(1 for r in res if not isinstance(r, str))
    chk.direct('C15-oracle(UCModel, exact)', nok, nok,
               'isothermal fixed point, source-free range, monotonicity in added heat (paired '
               'runs) on the exact results of the real UCModel; the isothermal / source-free states cover every '
               'stock shape (sum of fractions = 1, below, above, zero entries) with and without a building under '
               'the one-floor clamp (branches fixedpoint-or-range/...)', mismatches=bad, branches=br)
    for need in ('sum=1', 'sum<1', 'sum>1'):
        for low in ('', '+clamped-floor'):
            k2 = 'fixedpoint-or-range/' + need + low
            guard(br.get(k2, 0) < (3 if quick else 15),
                  'canyon generator no longer builds isothermal / source-free states with %s often '
                  'enough (%d)' % (k2, br.get(k2, 0)), cmism)

    # ---------------------------------------------------------------- indoor node
    n = 150 if quick else 1500
    icases = [c14.gen_case(rng, m) for m in ('cool', 'heat', 'idle', 'free') for _ in range(n // 5)]
    icases += [gen_indoor(rng, 'isothermal') for _ in range(n)]
    icases += [gen_indoor(rng, 'nosource') for _ in range(n)]
    for c in icases:
        if 'forc_temp' not in c:
            c.update(W4.gen_forcing(rng, c['canTemp']))
    nl = 40 if quick else 400
    icases += [gen_indoor_locked(rng, 'isothermal') for _ in range(nl)]
    icases += [gen_indoor_locked(rng, 'nosource') for _ in range(nl)]
    ires = [impl_indoor(pkg, c) for c in icases]
    keep = [(c, r) for c, r in zip(icases, ires) if not (isinstance(r, str) and r.startswith('skip'))]
    icls = {c14.line_of(c): c['mode'] + '/' + W4.rural_side(c) for c, r in keep}
    imism = chk.correspond(
        'Building.BEMCalc(indoor balance)~bemCalc', 'C14',
        [(c14.line_of(c), c14.fmt_out(r)) for c, r in keep],
        rule='fractionised Building.BEMCalc vs Lean `Uwg.Hvac.bemCalc` (model shared with C14) on '
             'isothermal / source-free indoor states with the HVAC at rest, plus states in every '
             'HVAC branch; exact equality of 23 attributes; round 6: the `forc` stand-in carries EVERY attribute of '
             'uwg.forcing.Forcing (deepTemp, waterTemp, infra, uDir, hum, pres, temp, rHum, dir, dif, prec, wind; the '
             'model sees only pres and waterTemp) with the rural dry bulb on the other side of 288 K than the canyon '
             '(by 0.01 .. 6 K), on the same side, exactly 288 K, or a 0.1-2 K heat island below the canyon (branches '
             '.../rural-across-288, rural-at-288, rural-same-side); family indoor-locked-*: walls, ceiling, mass and '
             'canyon in [288 K, heating set-point) - exactly 288 K in a share - without gains: a heating demand with '
             'the plant locked out by the canyon temperature',
        classify=lambda line, impl: icls[line])
    bad = 0
    br = {}
    for c, r in keep:
        if isinstance(r, str):
            continue
        msg = indoor_oracle(c, r)
        active = r['Qhvac'] != 0 or r['Qheat'] != 0 or r['sensCoolDemand'] != 0
        k = c['mode'] + ('/hvac-acts' if active else '')
        br[k] = br.get(k, 0) + 1
        if c['mode'].startswith('indoor-'):
            k = c['mode'] + '/' + W4.rural_side(c)
            br[k] = br.get(k, 0) + 1
        if msg:
            bad += 1
            if bad <= 3:
                chk.violation('impl-violation', 'C15 oracle on Building.BEMCalc (exact)',
                              case=c14.case_json(c), observed=msg, expected='fixed point / range')
    chk.direct('C15-oracle(BEMCalc indoor balance, exact)', len(keep), len(keep),
               'isothermal fixed point and source-free range of the indoor air node when neither '
               'system (nor free cooling) acts; heat delivered while the canyon air is at or above 288 K does not '
               'count as "a system acts" (the routine heats only below 288 K): the indoor-locked-* states - a heating '
               'demand, canyon in [288 K, set-point), rural dry bulb mostly below 288 K - must keep their common '
               'temperature / stay in range', mismatches=bad, branches=br)
    guard(br.get('indoor-isothermal', 0) < n // 2 or br.get('indoor-nosource', 0) < n // 2 or
          br.get('indoor-locked-isothermal', 0) < nl // 2 or br.get('indoor-locked-nosource', 0) < nl // 2 or
          br.get('indoor-locked-isothermal/rural-across-288', 0) < nl // 4,
          'indoor generator no longer keeps the HVAC at rest: %s' % br, imism)

    # ---------------------------------------------------------------- boundary layer
    n = 500 if quick else 5000
    ucases = [gen_ubl(rng) for _ in range(n)] + ubl_edge(rng)
    ures = [impl_ubl(pkg, c) for c in ucases]
    ucls = {}
    upairs = []
    for c, (line, r) in zip(ucases, ures):
        if line is None:
            continue
        ucls[line] = '%s/%s' % (c['kind'], ubl_branch(c, r))
        upairs.append((line, ubl_fmt(r)))
    umism = chk.correspond(
        'UBLDef.ublmodel~ublModel', 'C15', upairs,
        rule='fractionised UBLDef.ublmodel (object built by its own constructor, then given the '
             'generated state) vs Lean `Uwg.Air.ublModel` at Q with the shared stub for '
             '`** (1/3)`; exact equality of ublTemp and of every cell, or of the error class; three cases of five '
             'run under a circumstance that is no input: the UBLDef object rendered (repr / str) right before the step '
             'and again before its results are read, DEBUG logging on around the step, or both',
        classify=lambda line, impl: ucls[line])
    bad = 0
    br = {}
    for c, (line, r) in zip(ucases, ures):
        if isinstance(r, str):
            continue
        k = ubl_branch(c, r)
        br[k] = br.get(k, 0) + 1
        msg = ubl_oracle(c, r)
        if msg is None and c['kind'] in ('random', 'nosource') and c['cp'] > 0:
            _, r2 = impl_ubl(pkg, c, qubl=c['qUbl'] + rq(rng, 0, 100, 2))
            if isinstance(r2, dict):
                nonneg = all(w >= 0 for w in c['windProf'])
                if nonneg and (r2['ublTemp'] < r['ublTemp'] or
                               any(a < b for a, b in zip(r2['cells'], r['cells']))):
                    msg = 'more heat into the boundary layer lowered it: %s -> %s' % (
                        float(r['ublTemp']), float(r2['ublTemp']))
                br['paired-source'] = br.get('paired-source', 0) + 1
        if msg:
            bad += 1
            if bad <= 3:
                chk.violation('impl-violation', 'C15 oracle on UBLDef.ublmodel (exact)',
                              case=case_json(c),
                              observed=msg, expected='mean of cells / fixed point / range / monotone')
    nok = sum(1 for _, r in ures if not isinstance(r, str))
    chk.direct('C15-oracle(ublmodel, exact)', nok, nok,
               'ublTemp = mean of cells, isothermal fixed point, source-free range, monotone in '
               'Q_ubl (paired runs) on the exact results of the real ublmodel',
               mismatches=bad, branches=br)
    for need in ('day-forced', 'day-convective', 'night'):
        guard(br.get(need, 0) < 30, 'UBL generator no longer reaches branch %s (%s)' % (need, br), umism)
    npairs = night_cases(rng, pkg, 150 if quick else 1500)
    chk.correspond('UBLDef.nightforc~nightforc', 'C15', npairs,
                   rule='the static UBLDef.nightforc called directly vs Lean `Uwg.Air.nightforc`; '
                        'exact equality of (ublTemp, cells)')
    upto = 70000
    badL = loop_count_enumeration(pkg, upto)
    chk.measurements['night_loop_count'] = {
        'what': 'integer charLength in 1..%d (maxdx = 250 m) for which int(charLength)//'
                'int(paralLength) differs from the number of cells' % upto,
        'count': len(badL), 'first': badL[:5]}
    chk.notes.append(
        'night_mean carries "loop count = number of cells" as a hypothesis; with maxdx = 250 m it '
        'holds for every integer charLength from 1 to %s m (first failure: %s -> IndexError, '
        'fail-stop)' % ((badL[0] - 1) if badL else upto, badL[0] if badL else 'none up to %d' % upto))

    float_night_mean(chk, list(range(1, 3001)) + list(range(3001, 70001, 7)) +
                     [x + 0.5 for x in range(1, 2000, 3)] + [x / 3.0 for x in range(3, 6000, 5)])

    # ---------------------------------------------------------------- where the weights come from
    c15_inputs.run_inputs(chk, pkg, quick)

    # ---------------------------------------------------------------- live float simulations
    live = {}
    live_bad = []

    def sink(node, label, branch, msg):
        k = '%s:%s:%s' % (label, node, branch)
        live[k] = live.get(k, 0) + 1
        if msg and len(live_bad) < 3:
            live_bad.append((label, msg))

    def on_bem(label, c, r):
        branch, msg = indoor_live_msg(c, r)
        sink('indoor', label, branch, msg)
    runs = c14.LIVE_RUNS + (c14.LIVE_RUNS_THOROUGH if not quick else []) + stock_runs(quick)
    inst_nodes, inst_inputs = live_wrappers(sink), c15_inputs.live_install(sink)

    def install_all(uwg_pkg, label):
        undo = [inst_nodes(uwg_pkg, label), inst_inputs(uwg_pkg, label)]
        return lambda: [u() for u in undo]
    done = c14.live_runs(chk, runs, 1 if quick else 3, on_bem=on_bem, extra_wrappers=install_all)
    if done is None:
        chk.notes.append('live float runs skipped: no tests/epw + tests/parameters found')
    else:
        for label, msg in live_bad:
            chk.violation('impl-violation', 'C15 oracle on a live simulation (%s)' % label,
                          case={'run': label, 'config': RUN_CONFIG.get(label, 'shipped parameter file')},
                          observed=msg,
                          expected='range / mean statements within 1e-9 relative')
        ntot = sum(live.values())
        chk.measurements['urban_wind_profile_growth'] = {
            'what': 'urbflux APPENDS nzref levels to UCM.windProf at every call and nothing resets '
                    'or reads the list: its length after the live runs',
            'runs': dict(c15_inputs.LIVE_STATS)}
        if not getattr(chk, 'live_aborted', None) and (
                not any(':canyon:' in k for k in live) or not any(':ubl:' in k for k in live) or
                not any(':urbflux:' in k for k in live) or not any(':surfflux:' in k for k in live)):
            raise core.Infra('live wrappers were never called: %s' % live)
        chk.direct('C15-oracle(live float simulations)', ntot, ntot,
                   'every UCModel / ublmodel / BEMCalc call of real simulations %s wrapped from '
                   'outside: canTemp - Q/H2 within the exchanged temperatures, heat added never '
                   'below their minimum, ublTemp = mean of cells, boundary layer bounded on the '
                   'side opposite to the source; relative tolerance 1e-9; and every urbflux / '
                   'SurfFlux call: uExch >= 0, ustarMod >= ustar, aeroCond > 0 (road, walls, roofs, '
                   'rural), air density > 0, canWind >= 0, canyon areas > 0, z0u / l_disp in range; '
                   'loop bound = number of cells of the UBL object; runs stock-* use stocks the `bld` setter accepts '
                   'but no shipped example has (sum of fractions 0.995 / 1.005 / 0.999 = 3 x 0.333, a zero fraction, '
                   'thorough: thirty archetypes), runs lowrise-* an average building height below the floor height '
                   'of (part of) the stock; canyon-twin = at every 12th UCModel call the same UCMDef and BEM objects '
                   'are deep-copied, sources removed and every exchanged temperature set to T (then into a 0.01 K '
                   'band): the real UCModel must return T (stay in the band); indoor-switch = every BEMCalc call: no heating '
                   'delivered while the canyon air is at or above 288 K, no cooling energy while it is at or below (the '
                   'switch of the routine reads the CANYON), counted by the side of 288 K on which canyon and rural '
                   'station lie; runs toronto-*-shoulder-season start in mid May / late September / June, when the '
                   'two straddle 288 K' % sorted(done),
                   mismatches=len(live_bad), branches=live)
    circumstance_ties(chk, quick)
    chk.assumptions.append(
        'C15: the three node updates are exercised through fracexec (exact rationals); the '
        'exponent 1/3 in the circulation velocity is the shared stub rpow; double rounding is '
        'outside the theorems (live runs use tolerance 1e-9)')
