"""C09 - moisture is conserved and the written humidity fields are consistent.

Ties (all against the working tree in core.REPO):
  1. exact skeleton correspondence: the REAL psychrometrics.py (and Weather.__init__) executed over
     Fractions with the shared stub table vs the Lean model `Model/Psychro.lean` at Q
     (driver Drv/C09.lean) - exact equality of rationals, including every exception branch;
  2. float-level oracles on the plain `uwg` package: the moisture identity T1 on the
     -40..50 C x 60..108 kPa x 1..100 % grid (1e-12 relative), strict monotonicity T3/T4/T5;
  3. a real 1-day simulation (Singapore files), epw_precision 1 and 4: for every record
     canHum is bit-identical to staHum of the driving row, the recorded RH / dew point are
     bit-identical to psychrometrics(canTemp, staHum, pres), and every WRITTEN row satisfies
       hum(RH_w - d, T_w - d, P) <= ratio * hum(rural RH, rural T, rural P) <= hum(RH_w + d, T_w + d, P)
     with d = half a unit of the last written decimal (rigorous: hum is increasing in RH and T).
Measured, never decided (outside the theorem): accuracy of the dew-point correlation,
|saturation_pressure(Tdp) - pw| / pw, reported in chk.measurements; it only becomes a violation
when it leaves the band DEW_BAND inside the correlation's stated validity range 0..93 C.
"""
import contextlib
import io
import json
import os
import shutil
import tempfile
from fractions import Fraction as F

import core
import fracexec
from fracexec import frac_str, frac_list

MODULE = 'UwgVerif.Props.C09'
THEOREMS = ['Uwg.C09.psychro_defined', 'Uwg.C09.moisture_identity',
            'Uwg.C09.moisture_identity_checked', 'Uwg.C09.moisture_deviation',
            'Uwg.C09.written_rh_consistent', 'Uwg.C09.written_rh_consistent_range',
            'Uwg.C09.phi_strictMono_w', 'Uwg.C09.tdp_strictMono_w', 'Uwg.C09.tdp_zero_branch',
            'Uwg.C09.satPressure_strictMono', 'Uwg.C09.phi_strictAnti_T',
            'Uwg.satExponent_eq', 'Uwg.psychro_fields', 'Uwg.satExponent_strictMono',
            'Uwg.dewPoint_strictMono', 'Uwg.satPa_lt']

RATIO = 0.62198 / 0.621945
# Measured on the unchanged tree (grid below): max |sat(Tdp) - pw| / pw = 2.11e-3 for 0 <= Tdp <= 93 C
# (dew-point error <= 0.032 K). Band = 5e-3, a factor 2.4 above the measurement.
DEW_BAND = 5e-3
ID_TOL = 1e-12


# ------------------------------------------------------------------ generators (exact tie)
def dec(rng, lo, hi, places=None):
    """Random decimal in [lo, hi] with a random number of decimal places, as a Fraction."""
    places = rng.choice([0, 1, 2, 3, 6]) if places is None else places
    den = 10 ** places
    return F(rng.randint(int(lo * den), int(hi * den)), den)


def gen_psy(rng, kind=None):
    kind = kind or rng.choice(['valid'] * 8 + ['w0', 'w0', 'wneg', 'wsing', 'P0', 'Pneg', 'T0',
                                               'Tneg'])
    T = dec(rng, 233.15, 323.15)
    w = dec(rng, 0.0001, 0.04, 6) or F(1, 1000)
    P = dec(rng, 60000, 108000, rng.choice([0, 1]))
    if kind == 'w0':
        w = F(0)
    elif kind == 'wneg':
        w = -dec(rng, 0.001, 0.5, 3)
    elif kind == 'wsing':
        w = F('-0.621945')
    elif kind == 'P0':
        P = F(0)
    elif kind == 'Pneg':
        P = -P
    elif kind == 'T0':
        T = F(0)
    elif kind == 'Tneg':
        T = -dec(rng, 1, 50)
    return kind, 'psy Tdb=%s w=%s P=%s' % (frac_str(T), frac_str(w), frac_str(P)), (T, w, P)


def gen_sat(rng, kind=None):
    kind = kind or rng.choice(['valid'] * 6 + ['T0', 'Tneg'])
    t = dec(rng, -40, 50)
    if kind == 'T0':
        t = F('-273.15')
    elif kind == 'Tneg':
        t = F('-273.15') - dec(rng, 1, 50)
    return kind, 'sat T=%s' % frac_str(t), (t,)


def gen_hum(rng, psy, kind=None):
    kind = kind or rng.choice(['valid'] * 8 + ['rh0', 'T0', 'Tneg', 'Psing'])
    rh = dec(rng, 1, 100)
    t = dec(rng, -40, 50)
    P = dec(rng, 60000, 108000, rng.choice([0, 1]))
    if kind == 'rh0':
        rh = F(0)
    elif kind == 'T0':
        t = F('-273.15')
    elif kind == 'Tneg':
        t = F('-273.15') - dec(rng, 1, 50)
    elif kind == 'Psing':
        # P == PW exactly (ZeroDivisionError); PWS under the stub table, from the real routine
        P = rh * (psy.saturation_pressure(t) * 1000) / 100
    return kind, 'hum RH=%s T=%s P=%s' % (frac_str(rh), frac_str(t), frac_str(P)), (rh, t, P)


def gen_dens(rng, kind=None):
    kind = kind or rng.choice(['valid'] * 6 + ['T0', 'Hsing'])
    P = dec(rng, 60000, 108000, 0)
    t = dec(rng, 233.15, 323.15)
    H = dec(rng, 0, 0.04, 6)
    if kind == 'T0':
        t = F(0)
    elif kind == 'Hsing':
        H = -1 / F('1.607858')
    return kind, 'dens P=%s T=%s H=%s' % (frac_str(P), frac_str(t), frac_str(H)), (P, t, H)


def guard_pow(psy):
    """CPython's math.pow raises ValueError for a negative base with a non-integral exponent; the
    shared stub table has no such guard, so it is added here (the Lean model has it)."""
    stub = psy.pow

    def pow_(a, b):
        b_int = isinstance(b, int) or (isinstance(b, F) and b.denominator == 1)
        if not b_int and F(a) < 0:
            raise ValueError('math domain error')
        return stub(a, b)
    psy.pow = pow_


def call(fn, *a):
    try:
        r = fn(*a)
    except ValueError:
        return 'err value'
    except ZeroDivisionError:
        return 'err zerodiv'
    except AssertionError:
        return 'err assert'
    except IndexError:
        return 'err index'
    except AttributeError:
        return 'err attr'
    if isinstance(r, tuple):
        return 'ok ' + frac_list(r)
    return 'ok ' + frac_list([r])


def write_rows_epw(path, rows):
    """A minimal EPW: 8 header lines + one data line per (T, RH, P) with decimal text cells."""
    with open(path, 'w') as f:
        f.write('LOCATION,Generated,-,-,-,0,0,0,0,0\n')
        for i in range(7):
            f.write('HEADER%d,0\n' % i)
        for (t, rh, p) in rows:
            cells = ['2000', '1', '1', '1', '60', 'x', t, '0', rh, p, '0', '0', '300', '0', '0',
                     '0', '0', '0', '0', '0', '90', '1.5'] + ['0'] * 13
            f.write(','.join(cells) + '\n')


def dtext(x, places):
    """Decimal text of a Fraction with exactly `places` decimals (x has at most that many)."""
    s = '-' if x < 0 else ''
    n = abs(x) * 10 ** places
    assert n.denominator == 1
    n = n.numerator
    if places == 0:
        return s + str(n)
    return s + '%d.%0*d' % (n // 10 ** places, places, n % 10 ** places)


def exact_tie(chk):
    pkg = fracexec.load(core.REPO)
    psy = pkg.psychrometrics
    guard_pow(psy)
    n = 800 if chk.tier == 'quick' else 6000
    cases, kinds = [], {}
    forced = ['valid', 'w0', 'wneg', 'wsing', 'P0', 'Pneg', 'T0', 'Tneg']
    for k in forced + [None] * n:
        kind, line, a = gen_psy(chk.rng, k)
        cases.append((line, call(psy.psychrometrics, *a)))
        kinds[line] = 'psy:' + kind
    for k in ['valid', 'T0', 'Tneg'] + [None] * (n // 3):
        kind, line, a = gen_sat(chk.rng, k)
        cases.append((line, call(psy.saturation_pressure, *a)))
        kinds[line] = 'sat:' + kind
    for k in ['valid', 'rh0', 'T0', 'Tneg', 'Psing'] + [None] * n:
        kind, line, a = gen_hum(chk.rng, psy, k)
        cases.append((line, call(psy.hum_from_rhum_temp, *a)))
        kinds[line] = 'hum:' + kind
    for k in ['valid', 'T0', 'Hsing'] + [None] * (n // 3):
        kind, line, a = gen_dens(chk.rng, k)
        cases.append((line, call(psy.moist_air_density, *a)))
        kinds[line] = 'dens:' + kind
    # driver fragment through the REAL Weather class (exact): staHum of generated rows, then
    # canHum = staHum, then psychrometrics(canTemp, canHum, staPres)
    nrow = 150 if chk.tier == 'quick' else 1500
    rows = []
    for _ in range(nrow):
        pt, pr = chk.rng.choice([0, 1, 2]), chk.rng.choice([0, 1])
        rows.append((dtext(dec(chk.rng, -40, 50, pt), pt), dtext(dec(chk.rng, 1, 100, pr), pr),
                     dtext(dec(chk.rng, 60000, 108000, 0), 0)))
    epw = os.path.join(chk.work(), 'rows.epw')
    write_rows_epw(epw, rows)
    try:
        wx = pkg.weather.Weather(epw, 8, 8 + nrow - 1)
        wx_err = None
    except Exception as e:  # noqa
        wx, wx_err = None, '%s: %s' % (type(e).__name__, e)
    for i, (t, rh, p) in enumerate(rows):
        tc = dec(chk.rng, 233.15, 323.15)
        line = 'rec RH=%s T=%s P=%s Tc=%s' % (frac_str(F(rh)), frac_str(F(t)), frac_str(F(p)),
                                              frac_str(tc))
        if wx is None:
            ans = 'err fatal'
        else:
            can_hum = wx.staHum[i]                      # UCM.canHum = copy(forc.hum)
            if wx.staTemp[i] != F(t) + F('273.15') or wx.staPres[i] != F(p):
                ans = 'err attr'
            else:
                try:
                    r = psy.psychrometrics(tc, can_hum, wx.staPres[i])
                    ans = 'ok ' + frac_list([can_hum, r[2], r[4]])
                except ValueError:
                    ans = 'err value'
                except ZeroDivisionError:
                    ans = 'err zerodiv'
        cases.append((line, ans))
        kinds[line] = 'rec:weather-row'
    if wx_err:
        chk.notes.append('fractionised Weather() failed on the generated EPW: ' + wx_err)

    def classify(line, impl):
        return kinds.get(line, '?') + ('' if impl.startswith('ok') else '->' + impl)
    mism = chk.correspond(
        'psychrometrics.py~Model.Psychro', 'C09', cases,
        rule='fractionised psychrometrics / saturation_pressure / hum_from_rhum_temp / '
             'moist_air_density and Weather.staHum->psychrometrics vs the Lean model at Q with the '
             'shared stub table; exact equality of every returned rational and of the exception '
             'class (w=0 -> alpha=-3 branch, negative vapour pressure -> ValueError, zero '
             'denominators); non-trivial = non-error result',
        classify=classify)
    return mism, cases


# ------------------------------------------------------------------ float oracles
def grid():
    Ts = list(range(-40, 51, 5))
    Ps = [1000.0 * p for p in range(60, 109, 6)]
    RHs = [1] + list(range(5, 101, 5))
    return Ts, Ps, RHs


def float_oracles(chk):
    """T1 identity and T3/T4/T5 strict monotonicity on the plain package; dew-point measurement."""
    import uwg.psychrometrics as up
    psy, hum, sat = up.psychrometrics, up.hum_from_rhum_temp, up.saturation_pressure
    Ts, Ps, RHs = grid()
    n = bad = 0
    worst_id = 0.0
    dew_in = dew_in_k = 0.0
    dew_below = 0.0
    n_in = 0
    table = {}

    def viol(what, case, observed, expected):
        nonlocal bad
        bad += 1
        if bad <= 3:
            chk.violation('impl-violation', what, case=case, observed=observed, expected=expected)

    for T in Ts:
        for P in Ps:
            for RH in RHs:
                n += 1
                case = {'T_C': T, 'P_Pa': P, 'RH': RH}
                try:
                    w = hum(RH, T, P)
                    tdb, w_, phi, h, tdp, v = psy(T + 273.15, w, P)
                    w2 = hum(phi, tdb, P)
                    pw = w * (P / 1000.) / (0.621945 + w)
                    resid = abs(sat(tdp) - pw) / pw
                except Exception as e:  # the routines must be defined on the whole grid
                    viol('psychrometric routines defined on the grid (psychro_defined)', case,
                         '%s: %s' % (type(e).__name__, e), 'no exception')
                    continue
                table[(T, P, RH)] = (w, phi, tdp)
                dev = abs(w2 / (RATIO * w) - 1.0)
                worst_id = max(worst_id, dev)
                if not (w > 0 and w_ == w) or dev > ID_TOL:
                    viol('T1 moisture_identity (float oracle)', case,
                         'hum(phi(T,w,P),T,P)/w = %.15g (w=%.15g)' % (w2 / w if w else float('nan'), w),
                         '0.62198/0.621945 = %.15g within %g' % (RATIO, ID_TOL))
                if 0.0 <= tdp <= 93.0:
                    n_in += 1
                    dew_in = max(dew_in, resid)
                    if resid > DEW_BAND:
                        viol('dew-point correlation band (measurement left its band)', case,
                             '|sat(Tdp)-pw|/pw = %.4g at Tdp=%.3f' % (resid, tdp),
                             '<= %g inside 0..93 C' % DEW_BAND)
                elif -40.0 <= tdp < 0.0:
                    dew_below = max(dew_below, resid)
    # monotonicity
    mono = 0
    for T in Ts:
        for P in Ps:
            seq = [table.get((T, P, RH)) for RH in RHs]
            if None in seq:
                continue
            for (a, b, rh) in zip(seq, seq[1:], RHs[1:]):
                mono += 1
                if not (a[0] < b[0]):
                    continue        # w itself must increase with RH for the step to be meaningful
                if not a[1] < b[1]:
                    viol('T3 phi_strictMono_w (float oracle)', {'T_C': T, 'P_Pa': P, 'RH_hi': rh},
                         'phi %.15g -> %.15g for w %.15g -> %.15g' % (a[1], b[1], a[0], b[0]),
                         'strictly increasing')
                if not a[2] < b[2]:
                    viol('T4 tdp_strictMono_w (float oracle)', {'T_C': T, 'P_Pa': P, 'RH_hi': rh},
                         'Tdp %.15g -> %.15g for w %.15g -> %.15g' % (a[2], b[2], a[0], b[0]),
                         'strictly increasing')
    for P in Ps:
        for w in (0.0005, 0.002, 0.01, 0.03):
            try:
                phis = [psy(T + 273.15, w, P)[2] for T in Ts]
                sats = [sat(float(T)) for T in Ts]
            except Exception as e:
                viol('psychrometrics defined (T5 sweep)', {'P_Pa': P, 'w': w},
                     '%s: %s' % (type(e).__name__, e), 'no exception')
                continue
            for i in range(len(Ts) - 1):
                mono += 1
                if not phis[i + 1] < phis[i] or not sats[i] < sats[i + 1]:
                    viol('T5 phi_strictAnti_T (float oracle)',
                         {'P_Pa': P, 'w': w, 'T_lo_C': Ts[i], 'T_hi_C': Ts[i + 1]},
                         'phi %.15g -> %.15g, sat %.15g -> %.15g' % (
                             phis[i], phis[i + 1], sats[i], sats[i + 1]),
                         'phi strictly decreasing, saturation pressure strictly increasing')
    # the zero-humidity branch (except ValueError: alpha = -3)
    try:
        tdp0 = psy(300.0, 0.0, 101325.0)[4]
        if abs(tdp0 - (-32.94912)) > 1e-9:
            viol('zero-humidity branch (tdp_zero_branch)', {'w': 0.0}, tdp0, -32.94912)
    except Exception as e:
        viol('zero-humidity branch (tdp_zero_branch)', {'w': 0.0}, repr(e), -32.94912)
    chk.measurements.update({
        'identity_max_rel_dev_from_ratio': worst_id,
        'identity_ratio': RATIO,
        'dewpoint_rel_residual_max_within_0_93C': dew_in,
        'dewpoint_rel_residual_band': DEW_BAND,
        'dewpoint_cases_within_0_93C': n_in,
        'dewpoint_rel_residual_max_for_-40<=Tdp<0C': dew_below,
        'dewpoint_note': 'residual = |saturation_pressure(Tdp) - pw| / pw; the correlation is stated '
                         'valid for 0..93 C only; below 0 C the code still uses it (e.g. about '
                         '-3.8 K dew-point error at Tdp = -40 C) - measured, not a violation',
    })
    chk.direct('float-oracles(T1,T3,T4,T5,dew band)', n + mono, n + mono,
               'plain uwg.psychrometrics on the grid T=-40..50 C step 5, P=60..108 kPa step 6, '
               'RH=1,5..100 %: identity to 1e-12 relative, strict monotonicity in w and T, '
               'dew-point residual inside its band', mismatches=bad,
               branches={'grid_points': n, 'monotone_steps': mono})
    return bad


# ------------------------------------------------------------------ real simulation
def find_file(*rel):
    """A data file of the source tree (mutation copies may contain only uwg/: fall back to /repo)."""
    for base in (core.REPO, '/repo'):
        f = os.path.join(base, *rel)
        if os.path.exists(f):
            return f
    raise core.Infra('data file %s not found' % os.path.join(*rel))


SGP_PARAM = ('resources', 'initialize_singapore.uwg')
SGP_EPW = ('resources', 'SGP_Singapore.486980_IWEC.epw')
OTHER_EPW = [('tests', 'epw', 'CAN_ON_Toronto.716240_CWEC.epw'),
             ('tests', 'epw', 'CHN_Beijing.Beijing.545110_IWEC.epw'),
             ('tests', 'epw', 'USA_MA_Boston-Logan.Intl.AP.725090_TMY3.epw'),
             ('tests', 'epw', 'USA_PA_Philadelphia.Intl.AP.724080_TMY3.epw')]
TORONTO_PARAM = ('tests', 'parameters', 'initialize_toronto.uwg')


# Building stocks never simulated by the shipped examples: custom reference buildings handed in through
# ref_bem_vector / ref_sch_vector, built from a DOE archetype (deep copy), with a WATER-cooled condenser
# (Building.condtype = 'WATER' is a documented value; all 768 DOE buildings are 'AIR').
# name -> (bld, [(source type, source era, condtype, new type name or None)])
STOCKS = {
    'custom-water(largeoffice pst80 0.4) + DOE midrise apartment': (
        [('largeoffice', 'pst80', 0.4), ('midriseapartment', 'pst80', 0.6)],
        [('largeoffice', 'pst80', 'WATER', None)]),
    'custom-water(new type "datacentre" from largeoffice new 0.3) + DOE largeoffice': (
        [('datacentre', 'new', 0.3), ('largeoffice', 'pst80', 0.7)],
        [('largeoffice', 'new', 'WATER', 'datacentre')]),
    'custom-water(hospital new, whole stock)': (
        [('hospital', 'new', 1.0)], [('hospital', 'new', 'WATER', None)]),
    'custom-water(largehotel pre80 0.5) + custom-air(medoffice new 0.5)': (
        [('largehotel', 'pre80', 0.5), ('medoffice', 'new', 0.5)],
        [('largehotel', 'pre80', 'WATER', None), ('medoffice', 'new', 'AIR', None)]),
    'custom-air(largeoffice pst80 0.4) + DOE midrise apartment': (
        [('largeoffice', 'pst80', 0.4), ('midriseapartment', 'pst80', 0.6)],
        [('largeoffice', 'pst80', 'AIR', None)]),
}


def apply_stock(model, stock):
    import copy
    from uwg.utilities import REF_BLDTYPE, REF_BUILTERA, REF_ZONETYPE
    bld, customs = STOCKS[stock]
    zi = REF_ZONETYPE.index(model.zone)
    bems, schs = [], []
    for (typ, era, cond, newname) in customs:
        ti, ei = REF_BLDTYPE.index(typ), REF_BUILTERA.index(era)
        bem = copy.deepcopy(model.refBEM[ti][ei][zi])
        sch = copy.deepcopy(model.refSchedule[ti][ei][zi])
        bem.building.condtype = cond
        if newname:
            bem.bldtype = newname
            sch.bldtype = newname
        bems.append(bem)
        schs.append(sch)
    model.bld = bld
    model.ref_bem_vector, model.ref_sch_vector = bems, schs


# ------------------------------------------------------------------ rural rows as text -> humidity (float level)
def weather_rows_oracle(chk):
    """The REAL (plain float) Weather class on generated rural rows whose humidity-relevant cells carry decimals and
    every spelling the package reads; the property itself on what it stores: the humidity ratio of a row is the
    humidity ratio of the air state (T, RH, P) written in the row, and what would be written for any canyon
    temperature implies that same humidity ratio."""
    import t1_util as T1
    from uwg.weather import Weather
    import uwg.psychrometrics as up
    rng = chk.rng
    n = 400 if chk.tier == 'quick' else 4000
    rows, kinds = [], {}
    rh_edge = ['0.4', '1', '1.0', '99.99', '100', '100.0', '100.5', '101', '103', '105.5', '110', '95.38', '94.49',
               '0.75', '50.5', ' 87', '8.7e1', '+60']
    p_edge = ['100,900', '101,325', '99950.5', '1.009E5', ' 100900', '31000', '120000', '60000.25']
    t_edge = ['-0.0', '0.0', '-0.04', '0.05', '24.46', '-9.95', '+12.5', ' 7.3', '1.25e1', '-40', '50', '-70.0', '70.0']
    for i in range(n):
        k = rng.random()
        pt, pr, pp = rng.choice([0, 1, 2, 2]), rng.choice([0, 1, 2, 2, 3, 4]), rng.choice([0, 0, 1, 2])
        t = dtext(dec(rng, -40, 50, pt), pt) if k > 0.15 else rng.choice(t_edge)
        rh = dtext(dec(rng, 1, 110, pr), pr) if rng.random() > 0.2 else rng.choice(rh_edge)
        pres = dtext(dec(rng, 60000, 108000, pp), pp) if rng.random() > 0.15 else rng.choice(p_edge)
        rows.append((t, rh, pres))
        kind = ('RH fractional' if '.' in rh and float(rh) != int(float(rh)) else 'RH whole') + \
            (', RH > 100' if float(rh) > 100 else '') + (', P with separator' if ',' in pres else '')
        kinds[kind] = kinds.get(kind, 0) + 1
    epw = os.path.join(chk.work(), 't1_rows.epw')
    with open(epw, 'w', newline='') as f:
        import csv
        wr = csv.writer(f, lineterminator='\n')
        wr.writerow(['LOCATION', 'Generated', '-', '-', '-', '0', '0', '0', '0', '0'])
        for i in range(7):
            wr.writerow(['HEADER%d' % i, '0'])
        for (t, rh, pres) in rows:
            wr.writerow(['2000', '1', '1', '1', '60', 'x', t, '0', rh, pres, '0', '0', '300', '0', '0', '0', '0',
                         '0', '0', '0', '90', '1.5'] + ['0'] * 13)
    bad = 0

    def viol(what, case, observed, expected):
        nonlocal bad
        bad += 1
        if bad <= 2:
            chk.violation('impl-violation', what, case=case, observed=observed, expected=expected,
                          how='a rural EPW with this data row (cells 6, 8, 9); uwg.weather.Weather(epw, 8, 8)')
    try:
        wx = Weather(epw, 8, 8 + n - 1)
    except Exception as e:  # noqa: BLE001
        viol('Weather() reads a rural file whose cells are legal numbers', {'rows (T, RH, P)': rows[:5]},
             '%s: %s' % (type(e).__name__, str(e)[:200]), 'the rows read')
        wx = None
    for i, (t, rh, pres) in enumerate(rows if wx else []):
        T, RH, P = T1.num(t), T1.num(rh), T1.num(pres)
        case = {'rural row cells': {'dry bulb': t, 'relative humidity': rh, 'pressure': pres}, 'row': i}
        got = (wx.staTemp[i], wx.staRhum[i], wx.staPres[i])
        if got != (T + 273.15, RH, P):
            viol('the forcing holds the dry bulb / relative humidity / pressure written in the rural row', case,
                 {'staTemp': got[0], 'staRhum': got[1], 'staPres': got[2]},
                 {'staTemp': T + 273.15, 'staRhum': RH, 'staPres': P})
            continue
        w_ind = T1.ind_hum(RH, T, P)
        if wx.staHum[i] != up.hum_from_rhum_temp(RH, T, P) or abs(wx.staHum[i] - w_ind) > 1e-12 * abs(w_ind):
            viol('the humidity ratio of the forcing is the humidity ratio of the air state written in the rural row '
                 '(moisture neither added nor removed)', case,
                 'staHum = %r (%.4f %% off)' % (wx.staHum[i], 100 * (wx.staHum[i] / w_ind - 1) if w_ind else 0),
                 'hum(RH=%r, T=%r, P=%r) = %r' % (RH, T, P, w_ind))
            continue
        if wx.staHum[i] <= 0:
            continue
        # what would be written for a canyon temperature Tc implies the rural humidity ratio
        Tc = T + rng.choice([0.0, 0.7, 2.3, -1.1])
        try:
            phi = up.psychrometrics(Tc + 273.15, wx.staHum[i], P)[2]
            w_back = up.hum_from_rhum_temp(phi, Tc, P)
        except Exception as e:  # noqa: BLE001
            viol('psychrometrics defined on the humidity of a legal rural row', case, repr(e), 'numbers')
            continue
        if abs(w_back / (RATIO * w_ind) - 1.0) > 1e-9:
            viol('RH computed for the canyon from the forcing humidity implies the rural humidity ratio', case,
                 'hum(phi, Tc=%r, P) = %r' % (Tc, w_back), '%r x %r' % (RATIO, w_ind))
    chk.direct('Weather(rows as text)->staHum (float oracle)', n, n,
               'the plain uwg.weather.Weather on a generated rural file whose dry-bulb / RH / pressure cells carry 0..4 '
               'decimals (as uwg itself writes them at epw_precision >= 1), RH from 0.4 to 110 %, "+", blanks, '
               'exponents and thousands separators: stored T / RH / P equal the numbers in the cells, staHum is '
               'bit-identical to hum_from_rhum_temp of those numbers and within 1e-12 of an independent formula; the '
               'RH psychrometrics gives for a canyon temperature implies 0.62198/0.621945 x that humidity ratio',
               mismatches=bad, branches=kinds)
    return bad


# ------------------------------------------------------------------ records -> written cells (real write_epw)
def steer_rh(up, T, P, tdp_target):
    """RH (4 decimals, text) at which the dew point of air (T, RH, P) is tdp_target: bisection on the real routines
    (dew point is increasing in the humidity ratio, which is increasing in RH)."""
    lo, hi = 0.5, 110.0
    for _ in range(60):
        mid = 0.5 * (lo + hi)
        tdp = up.psychrometrics(T + 273.15, up.hum_from_rhum_temp(mid, T, P), P)[4]
        if tdp < tdp_target:
            lo = mid
        else:
            hi = mid
    return '%.4f' % (0.5 * (lo + hi))


def written_cells_oracle(chk):
    """The REAL write_epw driven with records computed by the real psychrometrics from rural rows, for every
    epw_precision: canyon temperatures and dew points on both sides of 0 C and of every rounding boundary of the
    precision. Judged by the property: the written (T, RH, P) imply the rural humidity ratio within the rounding of
    the written digits; written T / RH / dew point are the recorded values rounded to the precision."""
    import csv
    import types
    import t1_util as T1
    from uwg import UWG
    import uwg.psychrometrics as up
    rng = chk.rng
    precs = list(range(0, 9)) + [12, 16]
    if chk.tier == 'thorough':
        precs += list(range(9, 21))
    bad, total, near = 0, 0, {}

    def viol(what, case, observed, expected):
        nonlocal bad
        bad += 1
        if bad <= 3:
            chk.violation('impl-violation', what, case=case, observed=observed, expected=expected,
                          how='harness/props/c09.py written_cells_oracle: rural row -> hum_from_rhum_temp -> '
                              'psychrometrics(canyon T) -> UCMData -> real write_epw at this precision')
    for p in precs:
        u = 10.0 ** (-p)
        # canyon temperatures (C): around zero, around the rounding boundaries of this precision, ordinary
        tcs = [0.0475, -0.0475, -0.05, 0.05, -0.0312, -0.09, -0.099, -0.1, -0.11, 0.09, -0.004, 0.004, -0.5, 0.5,
               -1.0, -9.95, 9.95, -0.4 * u, 0.4 * u, -0.49 * u, -0.51 * u, -1.4 * u, 1.5 * u, -10.0, 24.4]
        tcs += [rng.uniform(-0.1, 0.0) for _ in range(6)] + [rng.uniform(-30, 40) for _ in range(8)]
        # dew points steered through zero by the rural RH (rural T 5 C)
        tdps = [-0.09, -0.05, -0.0475, -0.0312, -0.011, -0.004, 0.004, 0.05, -0.4 * u, -0.6 * u] + \
               [rng.uniform(-0.1, 0.0) for _ in range(4)]
        rows, states = [], []
        for k, tc in enumerate(tcs):
            t_r = '%.1f' % (tc - rng.choice([0.0, 0.6, 1.3]))
            rh = rng.choice(['75', '100', '95.38', '40', '101', '66.6'])
            rows.append((t_r, rh, rng.choice(['101325', '100900', '98000'])))
            states.append(tc)
        for tdp in tdps:
            pr = rng.choice(['101325', '100900'])
            rows.append(('5.0', steer_rh(up, 5.0, float(pr), tdp), pr))
            states.append(rng.choice([5.4, 6.1, 4.2]))
        epw = os.path.join(chk.work(), 't1_cells_p%d.epw' % p)
        write_rows_epw(epw, rows)
        m = UWG(epw, new_epw_dir=chk.work(), new_epw_name='t1_cells_out_p%d.epw' % p)
        m._read_epw()
        recs = []
        for (t, rh, pr), tc in zip(rows, states):
            T, RH, P = float(t), float(rh), float(pr)
            w = up.hum_from_rhum_temp(RH, T, P)
            r = up.psychrometrics(tc + 273.15, w, P)
            recs.append((T, RH, P, w, tc + 273.15, r[2], r[4]))
        m.UCMData = [types.SimpleNamespace(canTemp=r[4], canRHum=r[5], Tdp=r[6]) for r in recs]
        m.WeatherData = [types.SimpleNamespace(wind=1.5) for _ in recs]
        m.simTime = types.SimpleNamespace(timeInitial=8)
        m.epw_precision = p
        try:
            with contextlib.redirect_stdout(io.StringIO()):
                m.write_epw()
            with open(m.new_epw_path, newline='') as f:
                written = list(csv.reader(f))[8:]
        except Exception as e:  # noqa: BLE001
            viol('write_epw on records of legal rural rows', {'epw_precision': p}, repr(e), 'a file')
            continue
        d = 0.5 * u * (1 + 1e-9) + 1e-12
        for i, ((t, rh, pr), rec) in enumerate(zip(rows, recs)):
            T, RH, P, w, canK, phi, tdp = rec
            total += 1
            wr = written[i]
            case = {'epw_precision': p, 'rural row cells': {'dry bulb': t, 'relative humidity': rh, 'pressure': pr},
                    'record': {'canTemp_K': repr(canK), 'canTemp_C': repr(canK - 273.15), 'canRHum': repr(phi),
                               'Tdp': repr(tdp)}, 'written cells (T, Tdp, RH, P)': wr[6:10]}
            for name, val in (('canyon temperature', canK - 273.15), ('dew point', tdp)):
                if -0.1 < val < 0:
                    near['%s in (-0.1, 0) at p=%d' % (name, p)] = near.get('%s in (-0.1, 0) at p=%d' % (name, p), 0) + 1
            try:
                wT, wTdp, wRH = float(wr[6]), float(wr[7]), float(wr[8])
                lo = up.hum_from_rhum_temp(max(wRH - d, 0.0), wT - d, P)
                hi = up.hum_from_rhum_temp(wRH + d, wT + d, P)
            except Exception as e:  # noqa: BLE001
                viol('written humidity fields parse and lie in the routine domain', case, repr(e), 'numbers')
                continue
            target = RATIO * w
            if wr[9] != pr:
                viol('written pressure column unchanged', case, wr[9], pr)
            elif abs(w - T1.ind_hum(RH, T, P)) > 1e-12 * w:
                viol('hum_from_rhum_temp of the rural row against an independent formula', case, w,
                     T1.ind_hum(RH, T, P))
            elif not (lo <= target * (1 + 1e-10) and target * (1 - 1e-10) <= hi):
                viol('written (T,RH,P) imply the rural humidity ratio (moisture conserved) - written cells next to 0 C '
                     'and to the rounding boundaries of every precision', case,
                     'hum(written RH=%s, T=%s, P=%s) in [%.12g, %.12g] (%+.3f %% .. %+.3f %% of the rural value)' % (
                         wr[8], wr[6], pr, lo, hi, 100 * (lo / target - 1), 100 * (hi / target - 1)),
                     'contains ratio*hum(rural RH=%s, T=%s, P=%s) = %.12g' % (rh, t, pr, target))
            elif abs(wT - (canK - 273.15)) > d or abs(wRH - phi) > d:
                viol('written dry bulb / RH are the recorded values rounded to the precision', case,
                     {'T': wr[6], 'RH': wr[8]}, {'T': canK - 273.15, 'RH': phi})
            elif abs(wTdp - tdp) > d:
                viol('the written dew point is the dew point of the rural humidity ratio (rounded to the precision)',
                     case, wr[7], tdp)
    chk.direct('write_epw(records near 0 C and rounding boundaries, every precision)', total, total,
               'the REAL write_epw on records computed by the real hum_from_rhum_temp / psychrometrics from rural rows, '
               'for epw_precision 0..8, 12, 16 (thorough: 0..20): canyon temperatures on both sides of 0 C (+-0.004 .. '
               '+-0.11, random in (-0.1, 0)), at +-0.4 / 0.49 / 0.51 / 1.4 units of the last place, ordinary ones; dew '
               'points steered through (-0.1, 0.05) by a fractional rural RH found by bisection. Per written row: '
               'ratio*w_rural inside [hum(RH-d,T-d,P), hum(RH+d,T+d,P)] for the written cells (d = half a unit of the '
               'last place), written T / RH / dew point within d of the recorded values, pressure unchanged',
               mismatches=bad, branches=near)
    return bad


def t1_variant(chk, name, rows, month, day, nday, param_in, out_dir):
    """Rural files of the third round (rows: parsed shipped file). Returns the rows to simulate."""
    import s1_util as S
    import t1_util as T1
    import uwg.psychrometrics as up
    first = 8 + 24 * S.doy0(month, day)
    if name == 't1:decimals2':          # humidity-relevant columns with two decimals, as uwg writes them
        return T1.decimal_columns(S.copy_rows(rows), places=2)
    if name == 't1:decimals1':
        return T1.decimal_columns(S.copy_rows(rows), places=1)
    if name == 't1:uwg-output':         # a file morphed by uwg itself (precision 2) used as the rural file
        from uwg import UWG
        src = S.save_epw(rows, os.path.join(out_dir, 'first_rural.epw'))
        m = UWG.from_param_file(param_in, epw_path=src, new_epw_dir=out_dir, new_epw_name='first_out.epw')
        m.month, m.day, m.nday = month, day, nday
        m.epw_precision = 2
        with contextlib.redirect_stdout(io.StringIO()):
            m.generate()
            m.simulate()
            m.write_epw()
        return S.load_epw(m.new_epw_path)
    if name == 't1:dewpoint-through-zero':
        # rural RH (fractional) steered so that the dew point of hour n is -0.115 + 0.01 n C (canyon air is the
        # rural humidity ratio: the written dew points step through (-0.1, 0) in hundredths)
        out = S.copy_rows(rows)
        for n in range(24 * nday):
            r = out[first + n]
            r[8] = steer_rh(up, float(r[6]), float(r[9]), -0.115 + 0.01 * (n % 24) + 0.003 * (n // 24))
        return out
    if name == 't1:drybulb-through-zero':
        # a cold spell: rural dry bulb ramps from -3.2 C upwards by 0.07 K per hour (canyon temperature crosses 0)
        out = S.copy_rows(rows)
        for n in range(24 * nday):
            r = out[first + n]
            r[6] = '%.2f' % (-3.2 + 0.07 * n)
            r[7] = '%.2f' % (-5.0 + 0.07 * n)
            r[8] = '%.1f' % (78.5 + (n % 5))
        return out
    raise KeyError(name)


def judge_row_only(viol, case, precision, rr, wr, w_rural, d, hum):
    """the written-row part of the oracle where no records are observable: stamp and pressure unchanged, written
    (T, RH, P) imply ratio * the rural humidity ratio within the rounding of the written digits"""
    if wr[1:4] != rr[1:4] or wr[9] != rr[9]:
        viol('written stamp / pressure column unchanged', case, wr[1:4] + [wr[9]], rr[1:4] + [rr[9]])
        return
    try:
        wT, wRH, rP = float(wr[6]), float(wr[8]), float(rr[9])
        lo, hi = hum(wRH - d, wT - d, rP), hum(wRH + d, wT + d, rP)
    except Exception as e:  # noqa: BLE001
        viol('written humidity fields parse and lie in the routine domain', case, '%s: %s (%r)' % (
            type(e).__name__, e, wr[6:10]), 'numbers')
        return
    target = RATIO * w_rural
    if not (lo <= target * (1 + 1e-12) and target * (1 - 1e-12) <= hi):
        viol('written (T,RH,P) imply the rural humidity ratio (moisture conserved)', case,
             'hum(written RH=%s, T=%s, P=%s) in [%.12g, %.12g]' % (wr[8], wr[6], rr[9], lo, hi),
             'contains ratio*hum(rural RH=%s, T=%s, P=%s) = %.12g' % (rr[8], rr[6], rr[9], target))


def judge_written(chk, viol, tag, precision, rural, written, model, first, n_rec):
    """The C09 oracle on one finished run: `rural` / `written` are the parsed rural and written files, `model` the
    finished model or an object with the same attributes rebuilt from the records of another interpreter
    (u1_util.Result.modellike()), or None when the route shows no records (command line): then only the written rows
    are judged. Returns the largest relative deviation of the implied humidity ratio from ratio * rural."""
    import uwg.psychrometrics as up
    psy, hum = up.psychrometrics, up.hum_from_rhum_temp
    worst = 0.0
    d = 0.5 * 10.0 ** (-precision) * (1 + 1e-9) + 1e-12
    for n in range(n_rec):
        case = dict(tag, record=n, file_row=first + n)
        rr, wr = rural[first + n], written[first + n]
        rT, rRH, rP = float(rr[6]), float(rr[8]), float(rr[9])
        w_rural = hum(rRH, rT, rP)
        if model is None:
            judge_row_only(viol, case, precision, rr, wr, w_rural, d, hum)
            continue
        ucm = model.UCMData[n]
        if ucm is None:
            viol('every hour of the window has a record', case, None, 'a record')
            continue
        # (a) driver: canHum is the rural humidity ratio of this row, bit for bit
        if not (ucm.canHum == w_rural == model.weather.staHum[n]):
            viol('driver: canHum = staHum(rural row) (written_rh_consistent)', case,
                 'canHum=%r staHum=%r hum(rural row)=%r' % (ucm.canHum, model.weather.staHum[n],
                                                            w_rural),
                 'bit-identical')
        # (b) recorded RH / Tdp are psychrometrics(canTemp, canHum, rural pressure)
        ref = psy(ucm.canTemp, w_rural, rP)
        if not (ucm.canRHum == ref[2] and ucm.Tdp == ref[4]):
            viol('record: (canRHum, Tdp) = psychrometrics(canTemp, canHum, pres)', case,
                 'canRHum=%r Tdp=%r' % (ucm.canRHum, ucm.Tdp), 'phi=%r Tdp=%r' % (ref[2], ref[4]))
        # (c) the WRITTEN row: pressure column untouched; dew point text = formatted correlation
        #     value of the rural humidity ratio; written (T, RH, P) imply ratio * rural w
        want_t = '{0:.{1}f}'.format(ucm.canTemp - 273.15, precision)
        if wr[6] != want_t or wr[1:4] != rr[1:4]:
            viol('the result of record n is written to the rural row record n was computed from (row '
                 'timeInitial + n of the file as read by Weather)', case,
                 {'stamp': wr[1:4], 'dry bulb': wr[6]}, {'stamp': rr[1:4], 'dry bulb': want_t})
            continue
        if wr[9] != rr[9]:
            viol('written pressure column unchanged', case, wr[9], rr[9])
        for nm, val in (('dry bulb', ucm.canTemp - 273.15), ('dew point', ref[4])):
            if -0.1 < val < 0 and precision >= 2:
                key = 'simulated_hours_with_%s_in_(-0.1,0)_at_precision>=2' % nm.replace(' ', '_')
                chk.measurements[key] = chk.measurements.get(key, 0) + 1
        want_tdp = '{0:.{1}f}'.format(ref[4], precision)
        if wr[7] != want_tdp:
            viol('written dew point = Tdp(rural humidity ratio, P)', case, wr[7], want_tdp)
        try:
            wT, wRH = float(wr[6]), float(wr[8])
            lo = hum(wRH - d, wT - d, rP)
            hi = hum(wRH + d, wT + d, rP)
            mid = hum(wRH, wT, rP)
        except Exception as e:
            viol('written humidity fields parse and lie in the routine domain', case,
                 '%s: %s (%r)' % (type(e).__name__, e, wr[6:10]), 'numbers')
            continue
        target = RATIO * w_rural
        worst = max(worst, abs(mid / target - 1.0))
        if not (lo <= target * (1 + 1e-12) and target * (1 - 1e-12) <= hi):
            viol('written (T,RH,P) imply the rural humidity ratio (moisture conserved)', case,
                 'hum(written RH=%s, T=%s, P=%s) in [%.12g, %.12g]' % (wr[8], wr[6], rr[9], lo, hi),
                 'contains ratio*hum(rural RH=%s, T=%s, P=%s) = %.12g' % (rr[8], rr[6], rr[9],
                                                                          target))
    # rows of hours that were not simulated: their humidity fields must be the rural ones (a result written to
    # another row than the one it was computed from shows here and in (c) above)
    for i in range(8, min(len(rural), len(written))):
        if not (first <= i < first + n_rec) and (written[i][6:10] != rural[i][6:10] or written[i][1:4] != rural[i][1:4]):
            viol('rows outside the simulated window keep their rural dry bulb / dew point / RH / pressure',
                 dict(tag, file_row=i, stamp=rural[i][1:4], window_rows=[first, first + n_rec - 1]),
                 written[i][6:10], rural[i][6:10])
            break
    if len(written) != len(rural):
        viol('written file has as many rows as the rural file', dict(tag), len(written), len(rural))
    return worst


def simulate_and_check(chk, precision, month, day, nday, param=SGP_PARAM, epw=SGP_EPW, variant=None, stock=None,
                       attrs=None):
    """variant: header / leap-file variant of s1_util applied to the rural file; stock: key of STOCKS; attrs: legal
    parameter values set on the model before generate() (list of (name, value))."""
    from uwg import UWG
    import uwg.psychrometrics as up
    psy, hum = up.psychrometrics, up.hum_from_rhum_temp
    epw_in = find_file(*epw)
    param_in = find_file(*param)
    out_dir = tempfile.mkdtemp(prefix='c09-', dir=chk.work())
    if variant and variant.startswith('t1:'):
        import s1_util as S
        try:
            epw_in = S.save_epw(t1_variant(chk, variant, S.load_epw(epw_in), month, day, nday, param_in, out_dir),
                                os.path.join(out_dir, 'rural_' + os.path.basename(epw_in)))
        except Exception as e:  # noqa: BLE001 (the preparatory run stopped by the model's own fail-stop)
            chk.notes.append('C09 rural file %s not built: %s: %s' % (variant, type(e).__name__, str(e)[:100]))
            shutil.rmtree(out_dir, ignore_errors=True)
            return 0, 0, 0.0
    elif variant:
        import s1_util as S
        epw_in = S.save_epw(S.apply_variant(S.load_epw(epw_in), variant),
                            os.path.join(out_dir, 'rural_' + os.path.basename(epw_in)))
    bad = 0
    worst = 0.0

    seen = {}

    def viol(what, case, observed, expected):
        nonlocal bad
        bad += 1
        seen[what] = seen.get(what, 0) + 1
        if seen[what] <= 1:         # one witness per failing oracle
            chk.violation('impl-violation', what, case=case, observed=observed, expected=expected)

    tag = {'epw_precision': precision, 'month': month, 'day': day, 'nday': nday,
           'epw': os.path.basename(epw[-1]), 'param': os.path.basename(param_in)}
    if variant:
        tag['epw_variant'] = variant
    if stock:
        tag['stock'] = stock
    if attrs:
        tag['attrs'] = [list(a) for a in attrs]
    model = None
    try:
        model = UWG.from_param_file(param_in, epw_path=epw_in, new_epw_dir=out_dir, new_epw_name='out.epw')
        model.month, model.day, model.nday = month, day, nday
        model.epw_precision = precision
        for (k_, v_) in (attrs or ()):
            setattr(model, k_, v_)
        if stock:
            apply_stock(model, stock)
        with contextlib.redirect_stdout(io.StringIO()):
            model.generate()
            model.simulate()
            model.write_epw()
    except Exception as e:
        if variant or stock or attrs:
            # a legal rural file / a documented custom building must be simulated; the model's own fail-stop on
            # such a run is recorded, not decided here
            chk.notes.append('C09 run %s raised %s: %s' % (tag, type(e).__name__, str(e)[:100]))
            shutil.rmtree(out_dir, ignore_errors=True)
            return 0, 0, 0.0
        raise core.Infra('simulation for C09 failed: %s: %s' % (type(e).__name__, e))
    if stock:
        chk.measurements.setdefault('custom_stock_runs', []).append({
            'stock': stock, 'start': [month, day], 'nday': nday,
            'buildings(type, era, frac, condtype, latWaste at the last step)': [
                (b.bldtype, b.builtera, b.frac, b.building.condtype, getattr(b.building, 'latWaste', None)) for b in model.BEM]})
        conds = sorted(set(b.building.condtype for b in model.BEM))
        want = sorted(set(c[2] for c in STOCKS[stock][1]) | ({'AIR'} if len(STOCKS[stock][0]) > len(STOCKS[stock][1]) else set()))
        if conds != want:
            chk.notes.append('C09 stock %s: condenser types simulated %s, intended %s' % (stock, conds, want))
    out_path = os.path.join(out_dir, 'out.epw')
    if not os.path.exists(out_path):
        raise core.Infra('write_epw produced no file at ' + out_path)
    import csv
    with open(out_path, newline='') as f:
        written = list(csv.reader(f))
    with open(epw_in, newline='', errors='ignore') as f:
        rural = list(csv.reader(f))
    n_rec = len(model.UCMData)
    first = model.simTime.timeInitial          # index into the file's rows (8 header rows)
    worst = judge_written(chk, viol, tag, precision, rural, written, model, first, n_rec)
    if attrs:
        # how slowly the canyon of this member was ventilated: residence time bldHeight / uExch of the hourly records
        res = [model.UCM.bldHeight / u.uExch for u in model.UCMData if u is not None and getattr(u, 'uExch', 0) > 0]
        chk.measurements.setdefault('exchange_regime_runs', []).append({
            'attrs': [list(a) for a in attrs], 'start': [month, day], 'epw': os.path.basename(epw[-1]),
            'hours with canyon residence time bldHeight/uExch > 3600 s': sum(1 for x in res if x > 3600.0),
            'longest residence time [s]': max(res) if res else None})
    shutil.rmtree(out_dir, ignore_errors=True)
    return n_rec, bad, worst


# ------------------------------------------------------------------ round 4: circumstances that are not inputs
def circumstance_runs(chk):
    """(x1) The same un-stubbed run under the six circumstances of harness/generic.py (through u1_util), every
    observation judged by judge_written (records where the route shows them, written rows always) and compared with
    the plain run. (x3) Time steps that are not whole numbers of seconds: whatever the package accepts must keep the
    moisture of hour n on rural row n (long windows, physics stubbed from outside; records, psychrometrics of the
    record and write_epw real)."""
    import csv
    import u1_util as U1
    rng = chk.rng
    thorough = chk.tier == 'thorough'
    work = os.path.join(chk.work(), 'c09x')
    os.makedirs(work)
    counts = {'n': 0, 'bad': 0}
    seen = {}

    def parse(path):
        with open(path, newline='', errors='ignore') as f:
            return list(csv.reader(f))

    def viol_for(label):
        def viol(what, case, observed, expected):
            counts['bad'] += 1
            key = (label, what)
            seen[key] = seen.get(key, 0) + 1
            if seen[key] <= 1 and len(seen) <= 4:
                chk.violation('impl-violation', '%s [%s]' % (what, label), case=case, observed=observed, expected=expected,
                              how='harness/u1_util.py execute / run_circumstances(spec); harness/props/c09.py judge_written')
        return viol

    # ---- (x1) --------------------------------------------------------------------------------------------------
    scen = [(SGP_PARAM, SGP_EPW, rng.randint(1, 12), rng.randint(1, 28), 1)]
    if thorough:
        scen += [(TORONTO_PARAM, OTHER_EPW[0], 1, rng.randint(2, 25), 1), (SGP_PARAM, SGP_EPW, 4, rng.randint(1, 28), 4)]
    br = {}
    for si, (prm, epw, month, day, prec) in enumerate(scen):
        epw_in, param_in = find_file(*epw), find_file(*prm)
        sp = U1.spec(epw_in, attrs=[('month', month), ('day', day), ('nday', 1), ('dtsim', 300)], param=param_in,
                     outdir=os.path.join(work, 'x1_%d' % si), outname='m.epw', precision=None if prec == 1 else prec)
        other = U1.spec(epw_in, attrs=[('month', (month % 12) + 1), ('day', 9), ('nday', 1), ('dtsim', 300),
                                       ('bldheight', 30), ('treecover', 0.3)], param=param_in, outname='other.epw',
                        label='another model on the same rural file: other window, other canyon')
        members = U1.ALL if prec == 1 else ('observed', 'DEBUG', 'python -O', 'neighbours', 'caller data')
        out = U1.run_circumstances(work, sp, other, members=members, tag='x1_%d' % si)
        plain = out[0][1]
        rural = parse(epw_in)
        first = 8 + 24 * U1.doy0(month, day)
        for nm, r, msgs in out:
            counts['n'] += 1
            br[nm] = br.get(nm, 0) + 1
            tag = {'circumstance': nm, 'route': r.route, 'epw_precision': prec, 'month': month, 'day': day, 'nday': 1,
                   'epw': os.path.basename(epw[-1]), 'param': os.path.basename(param_in)}
            viol = viol_for(nm)
            for m_ in msgs:
                viol('no trace in the caller\'s data / class-level state', tag, m_, 'none')
            if r.error:
                viol('the run completes', tag, '%s (%s)' % (r.error, r.stage), 'a written file')
                continue
            model = r.model if r.model is not None else (r.modellike() if r.records is not None else None)
            judge_written(chk, viol, tag, prec, rural, parse(r.file), model, first, 24)
            ap = U1.against_plain(U1.reference_for(out, nm), r)
            if ap:
                viol('records and written bytes equal those of the plain run', tag, '%s: %r' % (ap[0], ap[1]), ap[2])
    n1, b1 = counts['n'], counts['bad']
    chk.direct('moisture oracle under circumstances (observers, DEBUG, python -O, command line, neighbours, caller data)',
               n1, n1,
               'an un-stubbed generate; simulate; write_epw (Singapore, random day; thorough: also Toronto in January and '
               'epw_precision 4) run plainly; while repr / str / ToString of the model and of every reachable uwg object is '
               'taken after construction, after generate(), every 41st step, after simulate() and after write_epw(); with '
               'DEBUG logging on the root and uwg loggers; in a fresh `python -O` interpreter; through `python [-O] -m uwg '
               'simulate model|param` (the JSON also with whole numbers typed as ints); interleaved with another model on the same rural file; from the caller\'s own '
               'dictionary edited in place after generate(). Each observation is judged like every simulated window '
               '(canHum = staHum of its row bit for bit, recorded RH / Tdp = psychrometrics(canTemp, canHum, P), written dew '
               'point text, ratio * w_rural inside the interval of the written RH / T; for the command line the written '
               'rows only) and must equal the plain run in records and bytes',
               mismatches=b1, branches=br)

    # ---- (x3) --------------------------------------------------------------------------------------------------
    counts['n'] = counts['bad'] = 0
    odd = [(112.5, 11), (7.5, 1), (22.5, 2), (12.5, 1), (300.0, 1), (0.5, 1)]
    if thorough:
        odd += [(37.5, 4), (56.25, 10), (2.5, 1), (1800.5, 1), (187.5, 9), (112.5, 20)]
    br3 = {}
    epw_in, param_in = find_file(*SGP_EPW), find_file(*SGP_PARAM)
    rural = parse(epw_in)
    for i, (dtv, nd) in enumerate(odd):
        month, day = rng.choice([(m_, d_) for m_ in range(1, 13) for d_ in (1, 9, 17)
                                 if U1.doy0(m_, d_) + nd <= 364])
        sp = U1.spec(epw_in, attrs=[('month', month), ('day', day), ('nday', nd), ('dtsim', dtv)], param=param_in,
                     outdir=os.path.join(work, 'x3'), outname='d%d.epw' % i, precision=4, stub=True)
        sp['max_steps'] = 40000 if not thorough else 400000
        r = U1.execute(sp)
        counts['n'] += 1
        if r.error and r.stage in ('construct', 'generate'):
            kind = 'refused' if r.error_class != 'TooLong' else 'accepted, too many steps for this tier'
            br3[kind] = br3.get(kind, 0) + 1
            continue
        br3['accepted'] = br3.get('accepted', 0) + 1
        tag = {'dtsim': dtv, 'time step in force (simTime.dt)': (r.info or {}).get('simdt'), 'month': month, 'day': day,
               'nday': nd, 'epw_precision': 4, 'physics': 'stubbed from outside (loop, records, write_epw real)',
               'epw': os.path.basename(SGP_EPW[-1]), 'param': os.path.basename(param_in)}
        viol = viol_for('dtsim = %r' % dtv)
        if r.error:
            viol('the run completes', tag, '%s (%s)' % (r.error, r.stage), 'a written file')
            continue
        judge_written(chk, viol, tag, 4, rural, parse(r.file), r.model, 8 + 24 * U1.doy0(month, day), 24 * nd)
    chk.direct('moisture of hour n on rural row n for every accepted time step (fractional dtsim, long windows)',
               counts['n'], counts['n'],
               'dtsim = 112.5 (11 days), 7.5, 22.5 (2 days), 12.5, 0.5 and the float spelling 300.0 (thorough: also 37.5, '
               '56.25, 2.5, 1800.5, 187.5, 20 days): the package may cut, refuse or accept them; every value it accepts is '
               'run over a window long enough for a truncated step to add up to whole hours - physics stubbed from outside, '
               'the loop, the hourly records with the real psychrometrics and write_epw at epw_precision 4 real - and '
               'judged like every simulated window: the humidity of record n is the humidity ratio of rural row n and the '
               'written (T, RH, P) of that row imply it',
               mismatches=counts['bad'], branches=br3)


# ------------------------------------------------------------------ round 6: canyon exchange regimes
def exchange_regime_runs(chk):
    """Legal but extreme combinations of the canyon exchange parameters (c_exch, bldheight, windmin, h_mix, c_circ) on
    days with calm hours: the canyon is ventilated from very fast to slower than one weather step (residence time
    bldHeight / (c_exch * ustar) far above 3600 s). The moisture oracle of every simulated window judges each hour."""
    rnd = chk.rng
    thorough = chk.tier == 'thorough'
    fam = [
        # (precision, month, day, param, epw, attrs)
        (4, 1, 1, SGP_PARAM, SGP_EPW, [('c_exch', 0.01)]),                               # 10 m canyon, weak exchange
        (4, 1, 1, SGP_PARAM, SGP_EPW, [('c_exch', 0.1), ('bldheight', 150), ('h_mix', 0.2)]),  # towers
        (4, rnd.randint(1, 12), rnd.randint(1, 28), SGP_PARAM, SGP_EPW,
         [('c_exch', rnd.choice([0.001, 0.003, 0.005])), ('windmin', rnd.choice([0.1, 0.5, 1.0])),
          ('bldheight', rnd.choice([5, 10, 25]))]),
        (2, 7, rnd.randint(1, 28), TORONTO_PARAM, OTHER_EPW[0],
         [('c_exch', 0.004), ('windmin', 0.2), ('bldheight', rnd.choice([12, 18]))]),
    ]
    if thorough:
        fam += [(4, rnd.randint(1, 12), rnd.randint(1, 27), SGP_PARAM, e,
                 [('c_exch', rnd.choice([0.002, 0.01, 0.05, 0.1, 5.0])), ('windmin', rnd.choice([0.1, 1.0, 2.0])),
                  ('bldheight', rnd.choice([4, 10, 60, 150])), ('c_circ', rnd.choice([0.8, 1.2, 2.0]))])
                for e in [SGP_EPW] + OTHER_EPW for _ in range(2)]
    tot = bad = 0
    for (prec, month, day, prm, epw, attrs) in fam:
        n, b, _w = simulate_and_check(chk, prec, month, day, 1 if not thorough else 2, prm, epw, None, None, attrs=attrs)
        tot += n
        bad += b
    slow = sum(r['hours with canyon residence time bldHeight/uExch > 3600 s']
               for r in chk.measurements.get('exchange_regime_runs', []))
    chk.direct('simulation(canyon exchange regimes: extreme legal c_exch / bldheight / windmin)', tot, tot,
               'real generate/simulate/write_epw with the exchange coefficient, the building height and the wind floor at '
               'legal extremes (c_exch 0.001 .. 0.1 [thorough .. 5], bldheight 5 .. 150 m, windmin 0.1 .. 1 [2] m/s, h_mix, '
               'c_circ; Singapore 1 Jan with its calm morning, random Singapore days, Toronto in July; thorough: all five '
               'rural files, 2 days): canyons whose air residence time bldHeight / (c_exch * ustar) is far longer than one '
               'weather step in calm hours (%d such hours in this run, see measurements.exchange_regime_runs) beside '
               'quickly ventilated ones. Every hour judged like every simulated window: canHum bit-identical to staHum of '
               'its row, recorded RH / Tdp = psychrometrics(canTemp, canHum, P), written dew point text, ratio * w_rural '
               'inside the interval of the written RH / T, pressure column unchanged' % slow,
               mismatches=bad, branches={'records': tot, 'runs': len(fam), 'slowly ventilated hours': slow})


# ------------------------------------------------------------------ round 7: settings of the host application
CHILD_HOST_RUN = r"""
import sys, io, json, contextlib
sys.path.insert(0, os.environ["UWG_REPO_"])
from uwg import UWG
c = json.loads(os.environ["CFG_"])
m = UWG.from_param_file(c["param"], epw_path=c["epw"], new_epw_dir=c["out_dir"], new_epw_name=c["out_name"])
m.month, m.day, m.nday = c["month"], c["day"], c["nday"]
m.epw_precision = c["precision"]
m.dtsim = 300
with contextlib.redirect_stdout(io.StringIO()):
    m.generate(); m.simulate(); m.write_epw()
print("RESULT " + json.dumps({
    "ucm": [None if u is None else [float(x).hex() for x in (u.canTemp, u.canHum, u.canRHum, u.Tdp)] for u in m.UCMData],
    "staHum": [float(x).hex() for x in m.weather.staHum], "timeInitial": m.simTime.timeInitial}))
"""


def saturated_file(chk):
    """the saturated rural year of run(): RH = 100 %, dew point = dry bulb in every row"""
    import csv
    sat = os.path.join(chk.work(), 'saturated_x1.epw')
    if not os.path.exists(sat):
        rows_ = list(csv.reader(open(find_file(*SGP_EPW), newline='', errors='ignore')))
        for r_ in rows_[8:]:
            r_[8] = '100'
            r_[7] = r_[6]
        with open(sat, 'w', newline='') as f_:
            csv.writer(f_, lineterminator='\n').writerows(rows_)
    return sat


def host_setting_runs(chk):
    """(x2) The run in a fresh interpreter in which the HOST application has changed a process- / thread-wide Python
    setting at start-up (x1_util.HOST_SETTINGS: decimal context, warnings filters, LC_NUMERIC, interpreter settings),
    on an ordinary day at a coarse precision and on the saturated day (canyon RH above 100 % wherever the canyon is
    cooler than the station). The records travel back as hex floats; the oracle runs HERE, in an interpreter with
    default settings: the full C09 oracle of judge_written and, independently, the interval oracle on the written rows
    alone."""
    import csv
    import x1_util as X1
    rng = chk.rng
    thorough = chk.tier == 'thorough'
    members = X1.host_members(rng, 6 if not thorough else len(X1.HOST_SETTINGS))
    out_dir = tempfile.mkdtemp(prefix='c09-host-', dir=chk.work())
    sat = saturated_file(chk)
    scen = [('ordinary', find_file(*SGP_EPW), rng.choice([0, 1]), rng.randint(1, 12), rng.randint(1, 28)),
            ('saturated', sat, rng.choice([1, 3]), rng.choice([1, 4, 12]), rng.randint(2, 12))]
    if thorough:
        scen += [('ordinary', find_file(*SGP_EPW), 2, rng.randint(1, 12), rng.randint(1, 28)),
                 ('saturated', sat, 0, 1, 2)]
    param_in = find_file(*SGP_PARAM)
    jobs = []
    for (sname, epw_in, prec, month, day) in scen:
        for mb in members:
            jobs.append((sname, epw_in, prec, month, day, mb))
    cfgs = [json.dumps({'param': param_in, 'epw': j[1], 'out_dir': out_dir, 'out_name': 'h%d.epw' % k, 'month': j[3],
                        'day': j[4], 'nday': 1, 'precision': j[2]}) for k, j in enumerate(jobs)]
    env = dict(os.environ, UWG_REPO_=core.REPO, UWG_REPO=core.REPO, PYTHONDONTWRITEBYTECODE='1')
    res = X1.run_host_children([j[5] for j in jobs], CHILD_HOST_RUN, env,
                               per_member_env=lambda k, mb: {'CFG_': cfgs[k]})
    tot = bad = 0
    br = {}
    seen = {}

    def viol(what, case, observed, expected):
        nonlocal bad
        bad += 1
        seen[what] = seen.get(what, 0) + 1
        if seen[what] <= 1:
            chk.violation('impl-violation', what, case=case, observed=observed, expected=expected)

    rural_cache = {}
    over100 = 0
    for k, ((sname, epw_in, prec, month, day, mb), (_, rc, so, se)) in enumerate(zip(jobs, res)):
        tag = {'epw_precision': prec, 'month': month, 'day': day, 'nday': 1, 'dtsim': 300,
               'epw': os.path.basename(epw_in) + (' with RH = 100 and dew point = dry bulb in every row' if sname == 'saturated' else ''),
               'param': os.path.basename(param_in), 'host setting': mb['label'],
               'start-up code of the host': mb.get('code', ''), 'interpreter flags': mb.get('argv', []),
               'environment variables': mb.get('env', {}),
               'how': 'fresh interpreter: [python] + flags + -c (x1_util.HOST_PRELUDE + c09.CHILD_HOST_RUN); the oracle is '
                      'evaluated in the checking process (default settings)'}
        line = [l for l in so.split('\n') if l.startswith('RESULT ')]
        br['%s/%s' % (sname, mb['kind'])] = br.get('%s/%s' % (sname, mb['kind']), 0) + 1
        if rc != 0 or not line:
            if 'FATAL ERROR' in se:
                chk.notes.append('C09 host-setting run %s/%s stopped by the model\'s own fail-stop' % (sname, mb['label']))
                continue
            if 'Traceback' in se and 'uwg' in se.split('Traceback')[-1]:
                tot += 1
                viol('the run completes under a setting of the host application', tag, se[-500:], 'a written file')
                continue
            raise core.Infra('C09 host-setting child failed (%s): %s' % (mb['label'], se[-400:]))
        model = X1.ModelLike(json.loads(line[0][7:]))
        if epw_in not in rural_cache:
            with open(epw_in, newline='', errors='ignore') as f:
                rural_cache[epw_in] = list(csv.reader(f))
        rural = rural_cache[epw_in]
        with open(os.path.join(out_dir, 'h%d.epw' % k), newline='') as f:
            written = list(csv.reader(f))
        first, n_rec = model.simTime.timeInitial, len(model.UCMData)
        tot += n_rec
        over100 += sum(1 for u in model.UCMData if u is not None and u.canRHum > 100.0)
        judge_written(chk, viol, tag, prec, rural, written, model, first, n_rec)
        # independently of the records: the interval oracle on the written rows alone
        judge_written(chk, viol, dict(tag, oracle='written rows only'), prec, rural, written, None, first, n_rec)
    shutil.rmtree(out_dir, ignore_errors=True)
    br['recorded hours with canyon RH > 100 %'] = over100
    chk.direct('moisture oracle under settings of the host application (decimal context, warnings filters, LC_NUMERIC, '
               'interpreter settings)', tot, tot,
               'generate/simulate/write_epw (1 day, dt 300) in fresh interpreters whose host has, before importing uwg, set the '
               'decimal context (ROUND_DOWN / ROUND_FLOOR / ROUND_CEILING / ROUND_UP / ROUND_05UP, prec 3 / 6, traps, '
               'BasicContext), turned warnings into errors (python -W error, PYTHONWARNINGS=error, simplefilter) or on (-X dev), '
               'set LC_NUMERIC to a decimal-comma locale, or changed interpreter settings (quick: 6 of the 14 members of '
               'x1_util.HOST_SETTINGS, one directed rounding mode and one warnings-as-errors member at least; thorough: all) - '
               'each on an ordinary Singapore day at epw_precision 0 or 1 and on a SATURATED day (rural RH = 100 %: the canyon '
               'RH exceeds 100 % wherever the canyon is cooler) at precision 1 or 3. Judged in the checking process: canHum = '
               'staHum of the row bit for bit, recorded RH / Tdp = psychrometrics(canTemp, canHum, P), written dry bulb / dew '
               'point = the formatted values, and ratio * w_rural inside [hum(RH-d,T-d,P), hum(RH+d,T+d,P)] for the written T, '
               'RH with d = half a unit of the last decimal (the last also from the written rows alone)',
               mismatches=bad, branches=br)


def run(chk):
    chk.proof(MODULE, THEOREMS)
    if chk.tier == 'thorough':
        chk.leanchecker([MODULE])
    exact_tie(chk)
    float_oracles(chk)
    weather_rows_oracle(chk)
    written_cells_oracle(chk)
    # real simulations: the default 1 decimal, and 4 decimals where the interval is tight;
    # Singapore (warm, humid) and Toronto in January (dew points below the correlation's range)
    rnd = chk.rng
    windows = [(1, 1, 1, 1, SGP_PARAM, SGP_EPW), (4, 1, 1, 1, SGP_PARAM, SGP_EPW),
               (1, 1, 15, 1, TORONTO_PARAM, OTHER_EPW[0]),
               (4, rnd.randint(1, 12), rnd.randint(1, 27), 1, SGP_PARAM, rnd.choice(OTHER_EPW))]
    # a saturated rural day (RH = 100 % in every row): wherever the canyon is cooler than the rural
    # station the canyon RH exceeds 100 % and must be written as it is (moisture is conserved, not capped)
    import csv as _csv
    sat = os.path.join(chk.work(), 'saturated.epw')
    rows_ = list(_csv.reader(open(find_file(*SGP_EPW), newline='', errors='ignore')))
    for r_ in rows_[8:]:
        r_[8] = '100'
        r_[7] = r_[6]
    with open(sat, 'w', newline='') as f_:
        _csv.writer(f_, lineterminator='\n').writerows(rows_)
    windows += [(1, 2, 1, 1, SGP_PARAM, (sat,)), (4, 12, 8, 1, SGP_PARAM, (sat,))]
    windows = [w + (None, None) for w in windows]
    # legal but never-varied rural files: 8784-row leap files (the model is a 365-day clock reading by row offset: what
    # is demanded is that the rows written are the rows read and that moisture is conserved row by row) with windows
    # after, across and before 29 Feb; header variants on 8760-row files
    water = [k for k in STOCKS if 'water' in k]
    windows += [(4, 3, 1, 2, SGP_PARAM, SGP_EPW, 'leap8784', None),
                (1, 2, 27, 3, SGP_PARAM, SGP_EPW, 'leap8784+weekday-Monday', None),
                (4, rnd.randint(3, 12), rnd.randint(1, 28), 1, SGP_PARAM, SGP_EPW,
                 rnd.choice(['leapflag-Yes', 'actual-year-header', 'dst-3/8-11/1+holidays-listed']), None),
                # custom reference buildings with a WATER-cooled condenser, in hours with cooling (Singapore)
                (4, rnd.randint(3, 10), rnd.randint(1, 28), 1, SGP_PARAM, SGP_EPW, None, water[0]),
                (4, rnd.randint(1, 12), rnd.randint(1, 28), 1, SGP_PARAM, SGP_EPW, None, rnd.choice(water[1:]))]
    # rural files whose humidity-relevant cells carry decimals (synthetic, and a file morphed by uwg itself used as
    # the rural file of a second run), dew points / canyon temperatures stepping through 0 C at 2-3 decimals
    windows += [(2, rnd.randint(1, 12), rnd.randint(1, 28), 1, SGP_PARAM, SGP_EPW, 't1:decimals2', None),
                (rnd.choice([2, 3]), rnd.randint(1, 12), rnd.randint(1, 28), 1, SGP_PARAM, SGP_EPW, 't1:uwg-output', None),
                (2, rnd.randint(1, 12), rnd.randint(1, 28), 1, SGP_PARAM, SGP_EPW, 't1:dewpoint-through-zero', None),
                (rnd.choice([2, 3]), 1, rnd.randint(2, 25), 2, TORONTO_PARAM, OTHER_EPW[0], 't1:drybulb-through-zero', None)]
    if chk.tier == 'thorough':
        windows += [(4, rnd.randint(1, 12), rnd.randint(1, 28), 2, SGP_PARAM, e, 't1:decimals1', None) for e in OTHER_EPW]
        windows += [(3, 2, rnd.randint(1, 20), 3, TORONTO_PARAM, OTHER_EPW[2], 't1:drybulb-through-zero', None),
                    (3, rnd.randint(1, 12), rnd.randint(1, 28), 2, SGP_PARAM, SGP_EPW, 't1:dewpoint-through-zero', None),
                    (4, rnd.randint(1, 12), rnd.randint(1, 28), 2, TORONTO_PARAM, OTHER_EPW[0], 't1:uwg-output', None)]
        windows += [(1, 7, 15, 3, SGP_PARAM, SGP_EPW, None, None), (4, 12, 29, 3, SGP_PARAM, SGP_EPW, None, None),
                    (2, 3, 30, 2, TORONTO_PARAM, OTHER_EPW[0], None, None)]
        for e in OTHER_EPW:
            windows += [(rnd.choice([1, 4]), rnd.randint(1, 12), rnd.randint(1, 26), 2, SGP_PARAM, e, None, None)
                        for _ in range(2)]
        for k in STOCKS:
            windows.append((4, rnd.randint(1, 12), rnd.randint(1, 27), 2, SGP_PARAM, SGP_EPW, None, k))
        windows += [(4, rnd.randint(3, 12), rnd.randint(1, 27), 2, SGP_PARAM, e,
                     rnd.choice(['leap8784', 'leap8784noflag', 'leap8784+actual-year-header']), None)
                    for e in [SGP_EPW] + OTHER_EPW[2:]]
        windows.append((3, 7, 1, 2, SGP_PARAM, SGP_EPW, 'leap8784', water[0]))
    tot = totbad = 0
    for (prec, month, day, nday, prm, epw, variant, stock) in windows:
        nrec, bad, worst = simulate_and_check(chk, prec, month, day, nday, prm, epw, variant, stock)
        tot += nrec
        totbad += bad
        key = 'written_rel_dev_max_precision_%d' % prec
        chk.measurements[key] = max(worst, chk.measurements.get(key, 0.0))
    wtxt = '; '.join('%s/%s p=%d %02d-%02d +%dd%s%s' % (w[4][-1].split('.')[0].replace('initialize_', ''),
                                                      os.path.basename(w[5][-1])[:11], w[0], w[1], w[2], w[3],
                                                      ' file variant ' + w[6] if w[6] else '',
                                                      ' stock ' + w[7] if w[7] else '')
                     for w in windows)
    chk.direct('simulation(written rows vs rural rows)', tot, tot,
               'real generate/simulate/write_epw (param/epw precision start +days: %s): per record canHum bit-identical to staHum of its '
               'row, recorded RH/Tdp bit-identical to psychrometrics(canTemp, canHum, pres), written '
               'dew-point text identical to the formatted correlation value, pressure column '
               'unchanged, and ratio*w_rural inside [hum(RH-d,T-d,P), hum(RH+d,T+d,P)] for the written '
               'RH, T with d = half a unit of the last decimal; rows outside the window keep their rural cells. '
               'File variants: 8784-row leap files (windows after / across 28 Feb; only row-by-row consistency is '
               'demanded: the row written is the row read), leap flag / actual-year / DST+holidays headers. Stocks: '
               'custom reference buildings made from DOE archetypes through ref_bem_vector/ref_sch_vector with '
               'condtype WATER (alone, beside DOE buildings, under a new type name, beside a custom AIR building). '
               'Rural files with decimals (t1:decimals2 = dry bulb / dew point / RH with two decimals and fractional '
               'pressures; t1:uwg-output = a file morphed by uwg itself at precision 2 used as the rural file), rural RH '
               'steered so that the written dew point steps through (-0.1, 0) in hundredths, a cold spell whose dry '
               'bulb ramps through 0 C, written with 2-3 decimals'
               % (wtxt,),
               mismatches=totbad, branches={'records': tot, 'windows': len(windows)})
    exchange_regime_runs(chk)
    circumstance_runs(chk)
    host_setting_runs(chk)
    chk.assumptions.append(
        'C09: libm exp/log/pow are interpreted by Real.exp/Real.log/rpow in the theorems and by the '
        'shared rational stubs in the exact tie; IEEE rounding only enters the float oracles '
        '(tolerance 1e-12 relative on the identity)')
    chk.assumptions.append(
        'C09: "the written dew point is the dew point" is an accuracy claim about an empirical '
        'correlation; measured (see measurements), decided only against the band %g inside 0..93 C'
        % DEW_BAND)
    if not chk.broken() and not chk.violations:
        for kf in chk.known_findings():
            if kf['id'] == 'C09-molar-mass-constants':
                chk.report_known(kf)
    chk.notes.append('psychrometrics uses 0.621945, hum_from_rhum_temp 0.62198: the humidity ratio '
                     'implied by the written fields is 0.62198/0.621945 = 1.0000563 times the rural '
                     'one (theorem moisture_deviation); conserved up to that constant')


def replay(chk, path):
    """Re-evaluate the oracle that produced a replay file on the current working tree."""
    with open(path) as f:
        v = json.load(f)
    case = v.get('case') or {}
    if isinstance(case, dict) and ('circumstance' in case or 'dtsim' in case):
        circumstance_runs(chk)          # the circumstance / time-step families are re-explored (same seed)
    elif isinstance(case, dict) and 'record' in case:
        prm = next((q for q in (SGP_PARAM, TORONTO_PARAM) if q[-1] == case.get('param')), SGP_PARAM)
        epw = next((q for q in [SGP_EPW] + OTHER_EPW if q[-1] == case.get('epw')), SGP_EPW)
        simulate_and_check(chk, case['epw_precision'], case['month'], case['day'], case['nday'],
                           prm, epw, case.get('epw_variant'), case.get('stock'),
                           attrs=[tuple(a) for a in case.get('attrs') or []] or None)
    elif isinstance(case, dict) and 'rural row cells' in case:
        # the families of the float-level row / written-cell oracles are re-explored (same generators)
        weather_rows_oracle(chk)
        written_cells_oracle(chk)
    elif isinstance(case, dict) and 'tie' in case:
        exact_tie(chk)
        if chk.corr_problems:
            chk.violation('proof-or-correspondence-broken', 'psychrometrics.py~Model.Psychro',
                          case=chk.corr_problems[0], found_input=False)
    else:
        float_oracles(chk)
    if chk.violations:
        w = chk.violations[0]
        print('VIOLATION property=C09 replay=%s (%s: observed %s, expected %s)' % (
            path, w['theorem_or_tie'], str(w['observed'])[:200], str(w['expected'])[:200]), flush=True)
        return 1
    print('replay %s: not reproduced on the current tree' % path, flush=True)
    return 0
