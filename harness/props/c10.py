"""C10 - fail-stop: complete finite results or an exception, never a hang."""
import csv
import math
import os
import signal

import core
import uwgutil as U
from props.c03 import toy_cases

MODULE = 'UwgVerif.Props.C10'
THEOREMS = ['Uwg.C10.records_complete_on_return', 'Uwg.C10.timestep_refused', 'Uwg.C10.return_or_exception',
            'Uwg.C10.bounds_on_return', 'Uwg.C10.zero_load_defined', 'Uwg.C10.load_fraction_bounds',
            # reader totality / fail-stop (model and proofs of C06): the repaired reader is a structural
            # recursion (cannot loop), raises on a malformed row, and the pre-repair reader diverged
            'Uwg.C06.repaired_reader_raises', 'Uwg.C06.reader_malformed_raises', 'Uwg.C06.asis_reader_diverges']


class Hang(Exception):
    pass


def with_watchdog(fn, seconds):
    """Run fn() in-process with an alarm: a call that does not return within `seconds` is an observed
    hang (seconds is >= 100x the normal duration of the call)."""
    def handler(signum, frame):
        raise Hang()
    old = signal.signal(signal.SIGALRM, handler)
    signal.alarm(seconds)
    try:
        return fn()
    finally:
        signal.alarm(0)
        signal.signal(signal.SIGALRM, old)


def corruptions(rows, rng, per_token):
    """Single-token corruptions of a parsed .uwg file (list of rows of cells)."""
    out = []
    toks = [(i, j) for i, r in enumerate(rows) for j, c in enumerate(r)
            if r and not r[0].strip().startswith('#') and c.strip() != '']
    for (i, j) in toks:
        kinds = ['abc', '', '1e400', '-1', 'nan', 'inf', '0', '#' + rows[i][j], rows[i][j] + ' x', '--5', '1,2']
        for k in (kinds if per_token is None else rng.sample(kinds, per_token)):
            new = [list(r) for r in rows]
            new[i][j] = k
            out.append(((i, j, k), new))
    # structural corruptions: drop a row, duplicate a row, truncate the file
    for i in range(len(rows)):
        if rows[i] and not rows[i][0].strip().startswith('#'):
            out.append((('drop-row', i), [list(r) for k, r in enumerate(rows) if k != i]))
    for cut in (1, len(rows) // 2, len(rows) - 1):
        out.append((('truncate', cut), [list(r) for r in rows[:cut]]))
    return out


def simulate_corrupted(args):
    """Worker: read a corrupted parameter file that the reader ACCEPTED and run one day. Fail-stop
    means: an exception, or complete finite in-bound records and a numeric written file."""
    repo, pth, outdir, tag = args
    os.environ['UWG_REPO'] = repo
    core.REPO = repo
    uwg = U.uwg_mod()

    def call():
        with core.quiet():
            m = uwg.UWG.from_param_file(pth, epw_path=U.rp(U.EPW_SGP), new_epw_dir=outdir,
                                        new_epw_name='s%s.epw' % tag)
            m.nday = 1
            m.generate()
            m.simulate()
            m.write_epw()
        return finite_records(m) or numeric_file(m.new_epw_path, m.simTime.timeInitial, 24, 1)
    try:
        return with_watchdog(call, 300)
    except Hang:
        return 'HANG: no return within 300 s (normal: < 2 s)'
    except Exception:  # noqa - an exception is the fail-stop outcome
        return None


def finite_records(m):
    """C10 oracle on a model whose simulate() returned normally."""
    N = int(m.simTime.days * 24)
    for name in ('WeatherData', 'UCMData', 'UBLData', 'RSMData'):
        lst = getattr(m, name)
        if len(lst) != N or any(x is None for x in lst):
            return '%s has %d of %d records' % (name, sum(1 for x in lst if x is not None), N)
    for n in range(N):
        u, w, b = m.UCMData[n], m.WeatherData[n], m.UBLData[n]
        vals = dict(canTemp=u.canTemp, canHum=u.canHum, canRHum=u.canRHum, Tdp=u.Tdp, wind=w.wind,
                    ublTemp=b.ublTemp, ruralTemp=w.temp)
        for k, v in vals.items():
            if not isinstance(v, (int, float)) or not math.isfinite(v):
                return 'hour %d: %s = %r is not finite' % (n, k, v)
        if not (200.0 <= u.canTemp <= 350.0):
            return 'hour %d: canyon temperature %r outside the declared 200..350 K' % (n, u.canTemp)
        if not (0.0 <= u.canHum < 1.0) or w.wind < 0:
            return 'hour %d: humidity %r / wind %r outside physical bounds' % (n, u.canHum, w.wind)
    return None


def numeric_file(path, first, n, prec):
    import re
    pat = re.compile(r'^-?\d+(\.\d{%d})?$' % prec) if prec else re.compile(r'^-?\d+$')
    rows = list(csv.reader(open(path, newline='', errors='ignore')))
    for i in range(first, first + n):
        for c in (6, 7, 8, 21):
            if not pat.match(rows[i][c]):
                return 'row %d column %d written as %r' % (i, c, rows[i][c])
    return None


def run(chk):
    chk.proof(MODULE, THEOREMS, extra_modules=['UwgVerif.Props.C06'])
    if chk.tier == 'thorough':
        chk.leanchecker([MODULE])
    rng = chk.rng
    work = chk.work()
    uwg = U.uwg_mod()

    # (1) driver: accepted / refused timesteps, exceptions inside the loop (toy physics), records
    cases = toy_cases(chk, 18 if chk.tier == 'quick' else 150, bad_dt=True)
    chk.correspond('simulate(toy physics, bad timesteps, raising steps)~Sim.simulate', 'C03', cases,
                   rule='real simulate loop with toy physics vs Lean Sim.simulate: timesteps that do not divide '
                        'an hour (7, 96, 480, 540, 1000, 2700, 3601, 7200) must be refused before the first step, '
                        'a raising step must end the run with the records stored so far, a normal return must '
                        'hold all 24*days records',
                   nontrivial=lambda l, a: True,
                   classify=lambda l, a: ' '.join(a.split(' ')[:2]) if a.startswith('err') else 'ok')
    bad = 0
    for line, ans in cases:
        days = int(line.split('days=')[1].split(' ')[0])
        if ans.startswith('ok') and ans.count(';') + 1 != 24 * days:
            bad += 1
            chk.violation('impl-violation', 'normal return with partial records', case=line, observed=ans[:200],
                          expected='%d records' % (24 * days))
    # every dt 1..3600: the constructor accepts exactly the divisors of 3600
    nacc = 0
    for dt in range(1, 3601):
        try:
            uwg.SimParam(dt, 3600, 1, 1, 1)
            ok = True
        except Exception:  # noqa
            ok = False
        nacc += ok
        if ok != (3600 % dt == 0):
            bad += 1
            if bad < 4:
                chk.violation('impl-violation', 'timestep acceptance', case={'dt': dt},
                              observed='accepted' if ok else 'refused',
                              expected='accepted iff dt divides 3600')
    chk.direct('timestep-acceptance(dt=1..3600)', 3600, 3600,
               'SimParam(dt, ...) for every dt from 1 to 3600: accepted iff 3600 %% dt == 0 (%d accepted)' % nacc,
               mismatches=bad)
    chk.extra_cov['exhaustive'] = True

    # (2) reader: single-token corruptions of the shipped parameter file, with a watchdog
    src = U.rp(U.PARAM_SGP)
    rows = list(csv.reader(open(src, newline='')))
    corr = corruptions(rows, rng, 2 if chk.tier == 'quick' else None)
    stats = {'raised': 0, 'complete': 0}
    bad2 = 0
    pth = os.path.join(work, 'c.uwg')
    for what, new in corr:
        with open(pth, 'w', newline='') as f:
            csv.writer(f, lineterminator='\n').writerows(new)

        def call():
            with core.quiet():
                return uwg.UWG.from_param_file(pth, epw_path=U.rp(U.EPW_SGP))
        try:
            m = with_watchdog(call, 20)
            missing = [a for a in uwg.UWG.PARAMETER_LIST if not hasattr(m, '_' + a)]
            if missing:
                bad2 += 1
                chk.violation('impl-violation', 'reader returned an incomplete parameter set',
                              case={'corruption': what}, observed='missing %s' % missing[:3],
                              expected='exception or all %d parameters' % len(uwg.UWG.PARAMETER_LIST))
            stats['complete'] += 1
        except Hang:
            bad2 += 1
            chk.violation('impl-violation', 'reader hangs on a corrupted parameter file',
                          case={'corruption': what, 'file_rows': new[:0]}, observed='no return within 20 s '
                          '(normal: < 10 ms)', expected='exception')
        except Exception:  # noqa
            stats['raised'] += 1
    # corruptions the reader ACCEPTED with a non-finite or extreme token: simulate them (in parallel)
    import multiprocessing
    jobs = []
    accepted_nf = [(what, new) for what, new in corruptions(rows, rng, None)
                   if isinstance(what[0], int) and what[2] in ('1e400', 'nan', 'inf', '-1', '0')]
    if chk.tier == 'quick':
        # every scalar parameter set to inf, plus a sample of the other non-finite corruptions
        scalar_inf = [c for c in accepted_nf if c[0][2] == 'inf' and c[0][1] == 1]
        rest = [c for c in accepted_nf if c[0][2] in ('1e400', 'nan', 'inf') and c not in scalar_inf]
        accepted_nf = scalar_inf + rng.sample(rest, min(24, len(rest)))
    for n_, (what, new) in enumerate(accepted_nf):
        pj = os.path.join(work, 'nf%d.uwg' % n_)
        with open(pj, 'w', newline='') as f:
            csv.writer(f, lineterminator='\n').writerows(new)
        jobs.append((core.REPO, pj, work, str(n_)))
    with multiprocessing.Pool(min(16, max(1, len(jobs)))) as pool:
        outs = pool.map(simulate_corrupted, jobs, chunksize=2)
    nbad_nf = 0
    for (what, new), msg in zip(accepted_nf, outs):
        if msg:
            nbad_nf += 1
            if nbad_nf <= 3:
                chk.violation('impl-violation', 'corrupted parameter value simulated without fail-stop',
                              case={'row': new[what[0]], 'token_index': what[1], 'token': what[2]},
                              observed=msg, expected='exception, or complete finite in-bound records and a '
                                                     'numeric weather file')
    chk.direct('simulate-accepted-corruptions(non-finite / extreme tokens)', len(jobs), len(jobs),
               'parameter files with one value replaced by inf / nan / 1e400 (thorough: also 0 and -1): when the '
               'reader and setters accept them, generate; simulate; write_epw must raise or give complete finite '
               'records and numeric fields (300 s watchdog)', mismatches=nbad_nf)
    chk.direct('reader-single-token-corruption(watchdog)', len(corr), len(corr),
               'every non-comment token of resources/initialize_singapore.uwg replaced by non-numeric / empty / '
               'overflow / negative / nan / commented / split text (quick: 2 kinds per token), plus dropped rows and '
               'truncations; each read under a 20 s alarm: must raise or return all 49 parameters',
               mismatches=bad2, branches=stats)

    # (3) real runs: records complete, finite, in bounds; written file numeric; zero-load schedules
    runs = [dict(month=1, day=1, nday=1, dtsim=300), dict(month=7, day=30, nday=2, dtsim=150)]
    if chk.tier == 'thorough':
        runs += [dict(month=m_, day=15, nday=2, dtsim=300) for m_ in (3, 5, 9, 11)]
    bad3 = 0
    for cfg in runs:
        m = U.new_model(outdir=work, outname='c10.epw', **cfg)
        with core.quiet():
            m.generate(); m.simulate(); m.write_epw()
        msg = finite_records(m) or numeric_file(m.new_epw_path, m.simTime.timeInitial, 24 * cfg['nday'], 1)
        if msg:
            bad3 += 1
            chk.violation('impl-violation', 'records / written file after a normal return', case=cfg,
                          observed=msg, expected='all records finite and in bounds; written fields numeric')
    # zero internal load: schedules accepted by SchDef with hours of zero light+equipment+occupancy
    zero = [[0.0] * 24 for _ in range(3)]
    half = [[0.0] * 12 + [0.5] * 12 for _ in range(3)]
    for sched in (zero, half):
        m = U.new_model(outdir=work, outname='c10z.epw', month=6, day=1, nday=1, dtsim=300)
        with core.quiet():
            m.generate()
        for s in m.Sch:
            s._elec, s._light, s._occ = sched, sched, sched
        try:
            with core.quiet():
                m.simulate()
            msg = finite_records(m)
            if msg is None and sched is zero and any(b.building.int_heat_f_rad != 0 for b in m.BEM):
                msg = 'radiant fraction %r with zero internal load' % m.BEM[0].building.int_heat_f_rad
        except ZeroDivisionError as e:
            msg = 'ZeroDivisionError: %s' % e
        if msg:
            bad3 += 1
            chk.violation('impl-violation', 'accepted schedule set with zero-load hours cannot be simulated',
                          case={'schedule': 'all zero' if sched is zero else 'zero until noon'}, observed=msg,
                          expected='complete finite records')
    # numerical blow-up must end in an exception (the shipped fatal-error parameter set)
    fatal = os.path.join(core.REPO, 'tests', 'parameters', 'initialize_fatal_error.uwg')
    nfatal = 0
    if os.path.exists(fatal):
        try:
            m = uwg.UWG.from_param_file(fatal, epw_path=U.rp(U.EPW_SGP), new_epw_dir=work, new_epw_name='f.epw')
            m.dtsim = 3600
            with core.quiet():
                m.generate(); m.simulate()
            msg = finite_records(m)
            if msg:
                bad3 += 1
                chk.violation('impl-violation', 'blow-up returned normally', case={'param': 'initialize_fatal_error.uwg', 'dtsim': 3600},
                              observed=msg, expected='exception or valid records')
        except Exception:  # noqa
            nfatal = 1
    chk.direct('real-runs(records finite+bounded, file numeric, zero-load, blow-up)', len(runs) + 3,
               len(runs) + 3, 'full runs: every record present, finite and inside 200..350 K / humidity / wind '
               'bounds, written fields match -?d+(.d)?; all-zero and half-zero internal-load schedules simulate; '
               'the shipped blow-up parameter set at dtsim=3600 ends in an exception (%s)' % (
                   'raised' if nfatal else 'returned valid records'), mismatches=bad3)
    chk.assumptions.append('non-finite values: `canTemp > 350 or canTemp < 200` is false for NaN, so a NaN would pass '
                           'the code\'s own check - outside the exact model; the scan of every record and written field '
                           'on real runs covers it. Hangs inside libm / the OS are outside.')
    chk.assumptions.append('the indoor / ceiling window (-50..100 C) is checked at the start of the next BEMCalc, so it '
                           'bounds the building state of every step but the last; the hourly records hold canyon, '
                           'boundary-layer and rural quantities')
