"""C10 - fail-stop: complete finite results or an exception, never a hang.

Fifth round (`float_step_loop`; helpers in harness/v2_util.py): the real step loop in doubles for all 45 accepted time
steps x window lengths up to a year (loop bound surveyed for all 45 x 366 pairs) - a normal return holds every record.

Fourth round (`circumstances`; helpers in harness/u2_util.py): fail-stop at the boundary an operator sees - the exit
status of `uwg simulate param|model` for every class of refusal the library makes - and under `python -O`, observers,
DEBUG logging, other models of the process, a refused dictionary used twice."""
import csv
import math
import os
import signal

import core
import s3_util as S3
import t2_util as T
import uwgutil as U
from props.c03 import toy_cases

MODULE = 'UwgVerif.Props.C10'
THEOREMS = ['Uwg.C10.records_complete_on_return', 'Uwg.C10.timestep_refused', 'Uwg.C10.return_or_exception',
            'Uwg.C10.bounds_on_return', 'Uwg.C10.zero_load_defined', 'Uwg.C10.load_fraction_bounds',
            # reader totality / fail-stop (model and proofs of C06): the repaired reader is a structural
            # recursion (cannot loop), raises on a malformed row, and the pre-repair reader diverged
            'Uwg.C06.repaired_reader_raises', 'Uwg.C06.reader_malformed_raises', 'Uwg.C06.asis_reader_diverges']


class Hang(Exception):
    pass


def with_watchdog(fn, seconds):
    """Run fn() in-process with an alarm: a call that does not return within `seconds` is an observed
    hang (seconds is >= 100x the normal duration of the call)."""
    def handler(signum, frame):
        raise Hang()
    old = signal.signal(signal.SIGALRM, handler)
    signal.alarm(seconds)
    try:
        return fn()
    finally:
        signal.alarm(0)
        signal.signal(signal.SIGALRM, old)


def corruptions(rows, rng, per_token):
    """Single-token corruptions of a parsed .uwg file (list of rows of cells)."""
    out = []
    toks = [(i, j) for i, r in enumerate(rows) for j, c in enumerate(r)
            if r and not r[0].strip().startswith('#') and c.strip() != '']
    for (i, j) in toks:
        kinds = ['abc', '', '1e400', '-1', 'nan', 'inf', '0', '#' + rows[i][j], rows[i][j] + ' x', '--5', '1,2']
        for k in (kinds if per_token is None else rng.sample(kinds, per_token)):
            new = [list(r) for r in rows]
            new[i][j] = k
            out.append(((i, j, k), new))
    # structural corruptions: drop a row, duplicate a row, truncate the file
    for i in range(len(rows)):
        if rows[i] and not rows[i][0].strip().startswith('#'):
            out.append((('drop-row', i), [list(r) for k, r in enumerate(rows) if k != i]))
    for cut in (1, len(rows) // 2, len(rows) - 1):
        out.append((('truncate', cut), [list(r) for r in rows[:cut]]))
    return out


def simulate_corrupted(args):
    """Worker: read a corrupted parameter file that the reader ACCEPTED and run one day. Fail-stop
    means: an exception, or complete finite in-bound records and a numeric written file."""
    repo, pth, outdir, tag = args
    os.environ['UWG_REPO'] = repo
    core.REPO = repo
    uwg = U.uwg_mod()

    def call():
        with core.quiet():
            m = uwg.UWG.from_param_file(pth, epw_path=U.rp(U.EPW_SGP), new_epw_dir=outdir,
                                        new_epw_name='s%s.epw' % tag)
            m.nday = 1
            m.generate()
            m.simulate()
            m.write_epw()
        return finite_records(m) or numeric_file(m.new_epw_path, m.simTime.timeInitial, 24, 1)
    try:
        return with_watchdog(call, 300)
    except Hang:
        return 'HANG: no return within 300 s (normal: < 2 s)'
    except Exception:  # noqa - an exception is the fail-stop outcome
        return None


def chain_not_a_number(args):
    """Worker: the whole tool chain on a parameter set in which a value is NOT A NUMBER (a `nan` token in the file,
    or float('nan') assigned to a parameter). Returns None when some call raised (fail-stop), else a description of
    what went through."""
    repo, route, payload, outdir, tag = args
    os.environ['UWG_REPO'] = repo
    core.REPO = repo
    uwg = U.uwg_mod()

    def call():
        name = 'nn%s.epw' % tag
        S3.remove_if_exists(os.path.join(outdir, name))
        with core.quiet():
            if route == 'file':
                m = uwg.UWG.from_param_file(payload, epw_path=U.rp(U.EPW_SGP), new_epw_dir=outdir, new_epw_name=name)
            else:
                m = uwg.UWG.from_param_file(U.rp(U.PARAM_SGP), epw_path=U.rp(U.EPW_SGP), new_epw_dir=outdir,
                                            new_epw_name=name)
                setattr(m, payload, float('nan'))
            m.nday = 1
            m.generate()
            m.simulate()
            m.write_epw()
        nanp = T.nan_parameters(m)
        if not nanp:
            return None                  # (the value was normalised to a number on the way: nothing to object to)
        return ('no exception from reading, generate(), simulate() or write_epw(); %s; %d hourly records; weather file '
                'written: %s' % (', '.join('model.%s = %r' % (a, getattr(m, a)) for a in nanp),
                                 sum(1 for u in m.UCMData if u is not None), os.path.exists(m.new_epw_path)))
    try:
        return with_watchdog(call, 300)
    except Hang:
        return 'HANG: no return within 300 s (normal: < 2 s)'
    except Exception:  # noqa - an exception is the fail-stop outcome
        return None


def not_a_number_tokens(chk, uwg, work, rows):
    """C10 'a malformed parameter file ends with an exception ... for every single-token corruption': the token is
    replaced by a spelling of NOT-A-NUMBER that float() reads. Comparisons with NaN are all false, so a validator
    written as `if value < lo: raise` lets it pass where `assert lo <= value` does not; nothing downstream need
    blow up (thresholds, heights only used in comparisons). Judged on the whole chain: some call must raise."""
    import multiprocessing
    rng = chk.rng
    quick = chk.tier == 'quick'
    toks = [(i, j) for i, r in enumerate(rows) for j, c in enumerate(r)
            if r and not r[0].strip().startswith('#') and c.strip() != '']
    pth = os.path.join(work, 'nn.uwg')
    read_ok, cands, stats = 0, {}, {'refused at reading': 0, 'read, value ignored or normalised': 0, 'read as NaN': 0}
    nread = 0
    for (i, j) in toks:
        for tok in T.NAN_TOKENS:
            new = [list(r) for r in rows]
            new[i][j] = tok
            with open(pth, 'w', newline='') as f:
                csv.writer(f, lineterminator='\n').writerows(new)
            nread += 1

            def call():
                with core.quiet():
                    return uwg.UWG.from_param_file(pth, epw_path=U.rp(U.EPW_SGP))
            try:
                m = with_watchdog(call, 20)
            except Hang:
                chk.violation('impl-violation', 'reader hangs on a not-a-number token',
                              case={'row': new[i], 'token_index': j, 'token': tok}, observed='no return within 20 s',
                              expected='exception')
                continue
            except Exception:  # noqa - refused
                stats['refused at reading'] += 1
                continue
            nanp = T.nan_parameters(m)
            if nanp:
                stats['read as NaN'] += 1
                cands.setdefault((i, j), []).append((tok, new, nanp))
            else:
                stats['read, value ignored or normalised'] += 1
    # keyword / attribute route: float('nan') assigned to every parameter
    attr = []
    for name in uwg.UWG.PARAMETER_LIST:
        with core.quiet():
            m = uwg.UWG.from_param_file(U.rp(U.PARAM_SGP), epw_path=U.rp(U.EPW_SGP))
        nread += 1
        if S3.try_assign(m, name, float('nan')) == 'accepted' and T.has_nan(getattr(m, name)):
            attr.append(name)
            stats['read as NaN'] += 1
    jobs, meta = [], []
    for (i, j), lst in sorted(cands.items()):
        for tok, new, nanp in (rng.sample(lst, min(2, len(lst))) if quick else lst):
            pj = os.path.join(work, 'nn%d.uwg' % len(jobs))
            with open(pj, 'w', newline='') as f:
                csv.writer(f, lineterminator='\n').writerows(new)
            jobs.append((core.REPO, 'file', pj, work, str(len(jobs))))
            meta.append({'route': 'parameter file', 'row': new[i], 'token_index': j, 'token': tok,
                         'parameters_reading_NaN_after_from_param_file': nanp})
    for name in attr:
        jobs.append((core.REPO, 'attribute', name, work, str(len(jobs))))
        meta.append({'route': 'attribute', 'assignment': 'model.%s = float("nan")' % name})
    bad = 0
    if jobs:
        with multiprocessing.Pool(min(16, len(jobs))) as pool:
            outs = pool.map(chain_not_a_number, jobs, chunksize=1)
        for case, msg in zip(meta, outs):
            if msg:
                bad += 1
                if bad <= 3:
                    chk.violation('impl-violation', 'not-a-number parameter value accepted, simulated and written',
                                  case=case, observed=msg,
                                  expected='an exception from from_param_file / the setter, generate(), simulate() or '
                                           'write_epw(): "nan" is not a usable value of any parameter')
    stats['whole chain run on accepted NaN'] = len(jobs)
    chk.direct('not-a-number-tokens(every token x every spelling; attribute route; whole chain)', nread, nread,
               'every non-comment token of resources/initialize_singapore.uwg replaced by each spelling of NaN that '
               'float() reads (%s) and read; float("nan") assigned to each of the %d parameters of a model; wherever the '
               'reader / setter accepts and a parameter then reads NaN, the whole chain generate(); simulate(); '
               'write_epw() is run (in parallel, 300 s watchdog): some call must raise' % (
                   ' '.join(repr(t) for t in T.NAN_TOKENS), len(uwg.UWG.PARAMETER_LIST)),
               mismatches=bad, branches=stats)


def accepted_schedule_sets(chk, uwg, work):
    """C10 'every schedule set accepted by the schedule constructor ... can be simulated': sets a user writes to
    switch heating / cooling off by a sentinel set point (far below 0 K in Celsius, far above any temperature), in
    all or some hours / day types, zero loads, integer entries, loads above one. The run visits the sentinel."""
    import simdriver
    quick = chk.tier == 'quick'
    epws = {'SGP': U.rp(U.EPW_SGP), 'TOR': simdriver.epw_path(simdriver.EPWS[2])}
    bad, br, n = 0, {}, 0
    for label, clim, (month, day), over in T.schedule_members(quick):
        n += 1
        case = {'schedule_set': label, 'constructor_arguments_changed': {
            k: (v if not isinstance(v, list) else {'weekday': v[0], 'saturday': v[1], 'sunday': v[2]})
            for k, v in over.items()}, 'rural_file': os.path.basename(epws[clim]), 'month': month, 'day': day}
        try:
            bem, sch = T.build_schedule(uwg, over)
        except Exception as e:  # noqa: BLE001 - not accepted by the constructor: outside the clause
            br['refused by the constructor'] = br.get('refused by the constructor', 0) + 1
            chk.notes.append('schedule set "%s" is refused by SchDef (%s): not judged' % (label, type(e).__name__))
            continue
        with core.quiet():
            m = uwg.UWG.from_param_file(U.rp(U.PARAM_SGP), epw_path=epws[clim], new_epw_dir=work,
                                        new_epw_name='c10s.epw')
        m.bld, m.zone, m.month, m.day, m.nday, m.dtsim = [('largeoffice', 'pst80', 1.0)], '1A', month, day, 1, 300
        m.ref_bem_vector, m.ref_sch_vector = m._check_reference_data([bem], [sch])
        msg = None
        try:
            with core.quiet():
                m.generate()
                m.simulate()
                m.write_epw()
            msg = finite_records(m) or numeric_file(m.new_epw_path, m.simTime.timeInitial, 24, 1)
            br['simulated'] = br.get('simulated', 0) + 1
        except Exception as e:  # noqa: BLE001
            msg = 'accepted by SchDef(), but the run raised %s: %s' % (type(e).__name__, str(e).split('\n')[0][:140])
        if msg:
            bad += 1
            if bad <= 3:
                chk.violation('impl-violation', 'schedule set accepted by the SchDef constructor cannot be simulated',
                              case=case, observed=msg, expected='24 complete finite records and a numeric weather file')
    # recorded, not judged (unchanged tree): accepted sets far outside the physical domain that end in the model's
    # own fail-stop - a ventilation rate 40x the reference makes the explicit humidity update of the zone overshoot
    # at dtsim = 300 s; a plug load of 500 W/m2 heats the zone beyond the 100 C sanity bound on a working day
    aux = []
    for what, over in [('vent = 0.02 m3/s/m2 (40x the reference office)', dict(vent=0.02))] + (
            [] if quick else [('q_elec = 500 W/m2', dict(q_elec=500.0))]):
        try:
            bem, sch = T.build_schedule(uwg, over)
            with core.quiet():
                m = uwg.UWG.from_param_file(U.rp(U.PARAM_SGP), epw_path=epws['SGP'], new_epw_dir=work,
                                            new_epw_name='c10s.epw')
            m.bld, m.zone, m.month, m.day, m.nday, m.dtsim = [('largeoffice', 'pst80', 1.0)], '1A', 1, 2, 1, 300
            m.ref_bem_vector, m.ref_sch_vector = m._check_reference_data([bem], [sch])
            with core.quiet():
                m.generate()
                m.simulate()
            aux.append('%s: simulated' % what)
        except Exception as e:  # noqa: BLE001
            aux.append('%s: %s (%s)' % (what, type(e).__name__, str(e).split('\n')[0][:60]))
            chk.notes.append('unchanged-tree observation (recorded, not judged): SchDef accepts %s; the 1-day Singapore run '
                             'at dtsim = 300 s ends in %s (%s) - fail-stop, but an accepted schedule set that is not '
                             'simulable at the default timestep' % (what, type(e).__name__, str(e).split('\n')[0][:80]))
    aux = '; '.join(aux)
    chk.direct('accepted-schedule-sets(set-point sentinels, zero / integer / large entries)', n, n,
               'schedule sets built through the REAL SchDef constructor from the shipped large-office set: heating switched '
               'off by a sentinel set point (-999, -9999, -274, -1e6 C: below 0 K) in every hour / at night / on Saturdays / '
               'Sundays / week-ends, cooling switched off (999, 9999, 1e6 C) likewise, both (free-running), cooling set '
               'point below 0 K, all loads zero, integer entries, load fractions above one; 1-day runs (dtsim 300) in '
               'Singapore and Toronto started on the day type that holds the sentinel (1 Jan = Sunday, 2 Jan = weekday, '
               '7 Jan = Saturday): every accepted set gives 24 complete finite in-bound records and a numeric file. '
               'Recorded only: %s' % aux, mismatches=bad, branches=br)


def finite_records(m):
    """C10 oracle on a model whose simulate() returned normally."""
    N = int(m.simTime.days * 24)
    for name in ('WeatherData', 'UCMData', 'UBLData', 'RSMData'):
        lst = getattr(m, name)
        if len(lst) != N or any(x is None for x in lst) or getattr(m, 'N', N) != N:
            return '%s has %d records in %d slots (model.N = %s) for a generated window of %d hours' % (
                name, sum(1 for x in lst if x is not None), len(lst), getattr(m, 'N', None), N)
    for n in range(N):
        u, w, b = m.UCMData[n], m.WeatherData[n], m.UBLData[n]
        vals = dict(canTemp=u.canTemp, canHum=u.canHum, canRHum=u.canRHum, Tdp=u.Tdp, wind=w.wind,
                    ublTemp=b.ublTemp, ruralTemp=w.temp)
        for k, v in vals.items():
            if not isinstance(v, (int, float)) or not math.isfinite(v):
                return 'hour %d: %s = %r is not finite' % (n, k, v)
        if not (200.0 <= u.canTemp <= 350.0):
            return 'hour %d: canyon temperature %r outside the declared 200..350 K' % (n, u.canTemp)
        if not (0.0 <= u.canHum < 1.0) or w.wind < 0:
            return 'hour %d: humidity %r / wind %r outside physical bounds' % (n, u.canHum, w.wind)
    return None


def numeric_file(path, first, n, prec):
    import re
    pat = re.compile(r'^-?\d+(\.\d{%d})?$' % prec) if prec else re.compile(r'^-?\d+$')
    rows = list(csv.reader(open(path, newline='', errors='ignore')))
    for i in range(first, first + n):
        for c in (6, 7, 8, 21):
            if not pat.match(rows[i][c]):
                return 'row %d column %d written as %r' % (i, c, rows[i][c])
    return None


# ----------------------------------------------------------------------------------------------------------
# What a call sequence leaves behind (fail-stop across calls):
#   (a) parameters changed between generate() and simulate(): a normal return must still hold every record;
#   (b) write_epw() after a simulate() that raised part-way (or failing itself on a record): the output path
#       must hold no file, or - byte for byte - the complete file that was there before.
def records_complete(m):
    """`simulate` returned normally: every one of the N hourly records exists (N as the model reports it,
    and as allocated)."""
    n = getattr(m, 'N', None)
    for name in ('WeatherData', 'UCMData', 'UBLData', 'RSMData'):
        lst = getattr(m, name)
        miss = [i for i, x in enumerate(lst) if x is None]
        if miss or len(lst) != n:
            return '%s: %d of N = %s hourly records are missing (%d slots, first missing hour %s)' % (
                name, len(miss), n, len(lst), miss[0] if miss else None)
    return None


def file_bytes(path):
    return open(path, 'rb').read() if os.path.exists(path) else None


def describe_file(path, m):
    rows = list(csv.reader(open(path, newline='', errors='ignore')))
    total = 8 + len(m.epwinput)
    if len(rows) != total:
        return 'a file with %d of %d lines (%d hourly rows are missing)' % (len(rows), total, total - len(rows))
    return 'a file of full length whose content changed'


def changed_after_generate(chk, work):
    import simdriver
    import simtoy
    rng = chk.rng
    n = 16 if chk.tier == 'quick' else 120
    other_epw = simdriver.epw_path(simdriver.EPWS[1])
    kinds = ['nday+1', 'nday+2', 'nday*', 'nday-', 'month', 'day', 'dtsim-div', 'dtsim-nondiv', 'dtweather',
             'epw_path', 'bld-inplace', 'nday+1 & month']
    bad, br = 0, {}
    for k in range(n):
        kind = kinds[k % len(kinds)]
        month, day = rng.choice([(1, 1), (2, 27), (6, 30), (7, 4), (12, 28), (2, 30), (4, 31), (11, 31)])
        days = rng.choice([1, 2, 3]) if kind != 'nday-' else rng.choice([2, 3])
        dt = rng.choice([300, 600, 900, 1200, 1800, 3600, 400])
        name = 'cg%d.epw' % (k % 3)
        S3.remove_if_exists(os.path.join(work, name))
        with core.quiet():
            m = simdriver.build_model(month, day, days, dt, new_epw_dir=work, new_epw_name=name)
        m.bld = list(m.bld)
        if kind.startswith('nday+'):
            m.nday = days + int(kind[5])
        elif kind == 'nday*':
            m.nday = rng.choice([7, 30, 31, 365])
        elif kind == 'nday-':
            m.nday = days - 1
        if kind.endswith('month'):
            m.month = rng.choice([3, 8, 11])
        elif kind == 'day':
            m.day = rng.choice([2, 15, 28])
        elif kind == 'dtsim-div':
            m.dtsim = rng.choice([150, 450, 720])
        elif kind == 'dtsim-nondiv':
            m.dtsim = rng.choice([7, 480, 1000])
        elif kind == 'dtweather':
            m.dtweather = 1800
        elif kind == 'epw_path':
            m.epw_path = other_epw
        elif kind == 'bld-inplace':
            m.bld[0] = ('hospital', 'new', m.bld[0][2])
        case = {'generate_with': {'month': month, 'day': day, 'nday': days, 'dtsim': dt}, 'then_changed': kind,
                'values_at_simulate': {'month': m.month, 'day': m.day, 'nday': m.nday, 'dtsim': m.dtsim}}
        err = simtoy.toy_morph_simulate(m, rng.randint(0, 999), 0)
        msg = None
        if err is None:
            br['returned'] = br.get('returned', 0) + 1
            msg = records_complete(m)
            if msg is None:
                try:
                    with core.quiet():
                        m.write_epw()
                    msg = numeric_file(m.new_epw_path, m.simTime.timeInitial, len(m.UCMData), 1)
                except Exception as e:  # noqa: BLE001
                    msg = 'write_epw raised %s after a normal return of simulate' % type(e).__name__
        else:
            br['raised ' + err] = br.get('raised ' + err, 0) + 1
        if msg:
            bad += 1
            if bad <= 3:
                chk.violation('impl-violation', 'simulate() returned normally with incomplete records '
                                                '(parameter changed after generate)', case=case, observed=msg,
                              expected='every one of the N hourly records exists whenever simulate returns normally')
    # the same with the real physics (two runs)
    real = [('nday', 1, 2), ('nday', 2, 1)] + ([('nday', 1, 3), ('month', 1, 1)] if chk.tier == 'thorough' else [])
    for what, d0, d1 in real:
        m = U.new_model(outdir=work, outname='cgr.epw', month=6, day=1, nday=d0, dtsim=300)
        with core.quiet():
            m.generate()
        if what == 'nday':
            m.nday = d1
        else:
            m.month = 9
        try:
            with core.quiet():
                m.simulate()
            msg = records_complete(m) or finite_records(m)
            br['real returned'] = br.get('real returned', 0) + 1
        except Exception:  # noqa: BLE001 - fail-stop outcome
            msg = None
            br['real raised'] = br.get('real raised', 0) + 1
        if msg:
            bad += 1
            chk.violation('impl-violation', 'simulate() returned normally with incomplete records (parameter '
                                            'changed after generate, real physics)',
                          case={'generate_with_nday': d0, 'then': '%s changed, nday = %d' % (what, m.nday)},
                          observed=msg, expected='every one of the N hourly records exists and is finite')
    chk.direct('parameters-changed-after-generate(records complete on return)', n + len(real), n + len(real),
               'generate() [start dates incl. 2/30, 4/31, 11/31, which the package accepts]; then nday raised by 1, 2 or to 7..365 / lowered, month, day, dtsim (divisor and '
               'non-divisor of 3600), dtweather, rural path or the stock (in place) changed; simulate() [toy '
               'physics; %d runs with the real physics]: whenever it returns normally all four record lists hold '
               'N = model.N records without gaps and write_epw writes numeric fields' % len(real),
               mismatches=bad, branches=br)


def write_after_failure(chk, work):
    import simdriver
    import simtoy
    rng = chk.rng
    n = 14 if chk.tier == 'quick' else 100
    bad, br = 0, {}

    def judge(m, before, case, what):
        """after a failing call sequence the output path holds what it held before"""
        nonlocal bad
        after = file_bytes(m.new_epw_path)
        if after == before:
            return
        bad += 1
        if bad <= 3:
            chk.violation('impl-violation', 'weather file left behind by a failed run (%s)' % what, case=case,
                          observed='%s: the output path now holds %s' % (
                              'no file existed before' if before is None else
                              'the complete file of an earlier run was there before',
                              describe_file(m.new_epw_path, m) if after is not None else 'nothing'),
                          expected='no file, or the earlier complete file byte for byte: a run that raised never '
                                   'writes a weather file with missing values')

    for k in range(n):
        kind = ['raise-partway', 'raise-partway+earlier-file', 'raise-first-step', 'bad-precision',
                'raise-partway+earlier-file-same-object', 'bad-precision+earlier-file', 'missing-dir'][k % 7]
        month, day = rng.choice([(1, 1), (3, 1), (6, 15), (12, 29), (2, 30), (4, 31)])
        days = rng.choice([1, 2, 3])
        dt = rng.choice([600, 900, 1800, 3600])
        name = 'wf%d.epw' % k
        with core.quiet():
            m = simdriver.build_model(month, day, days, dt, new_epw_dir=work, new_epw_name=name)
        case = {'month': month, 'day': day, 'nday': days, 'dtsim': dt, 'sequence': kind}
        before = None
        if 'earlier-file' in kind:
            # an earlier complete run wrote the same output path (same object, or another one)
            e = m if 'same-object' in kind else simdriver.build_model(month, day, days, dt, new_epw_dir=work,
                                                                       new_epw_name=name)
            err = simtoy.toy_morph_simulate(e, rng.randint(0, 999), 0)
            with core.quiet():
                e.write_epw()
            before = file_bytes(m.new_epw_path)
            if err or before is None or numeric_file(m.new_epw_path, e.simTime.timeInitial, 24 * days, 1):
                raise core.Infra('earlier complete run did not produce a complete file')
            if e is m:
                with core.quiet():
                    m.generate()
        if kind.startswith('raise'):
            s0 = rng.randint(0, 999)
            mod = 1 if kind == 'raise-first-step' else None
            err, tries = None, 0
            while mod is None or err is None:
                # a raise modulus that really fires part-way (after >= 1 record, before the last)
                mod = mod or rng.choice([53, 97, 211, 401])
                err = simtoy.toy_morph_simulate(m, s0, mod)
                got = sum(1 for u in m.UCMData if u is not None)
                if err == 'sim-fatal' and (kind == 'raise-first-step' or 0 < got < 24 * days):
                    break
                tries += 1
                if tries > 40:
                    raise core.Infra('no toy run that raises part-way found')
                with core.quiet():
                    m.generate()
                s0, mod, err = rng.randint(0, 999), None, None
            case['records_before_the_exception'] = got
            br['%s(%s)' % (kind, 'some records' if got else 'no record')] = \
                br.get('%s(%s)' % (kind, 'some records' if got else 'no record'), 0) + 1
            try:
                with core.quiet():
                    m.write_epw()
                case['write_epw'] = 'returned'
            except Exception as e:  # noqa: BLE001
                case['write_epw'] = 'raised ' + type(e).__name__
            judge(m, before, case, 'simulate raised, then write_epw')
        else:
            err = simtoy.toy_morph_simulate(m, rng.randint(0, 999), 0)
            if err:
                raise core.Infra('toy run without raise modulus raised: %s' % err)
            if kind == 'missing-dir':
                m._new_epw_path = None
                m._new_epw_dir = os.path.join(work, 'no-such-dir')
            else:
                m.epw_precision = rng.choice([1.5, '1', None, -1])
            case['epw_precision'] = repr(m.epw_precision)
            br[kind] = br.get(kind, 0) + 1
            try:
                with core.quiet():
                    m.write_epw()
                case['write_epw'] = 'returned'
                if numeric_file(m.new_epw_path, m.simTime.timeInitial, 24 * days, 1):
                    judge(m, before, case, 'write_epw with an unusable precision')
            except Exception as e:  # noqa: BLE001
                case['write_epw'] = 'raised ' + type(e).__name__
                judge(m, before, case, 'write_epw raised on a record')
    # the real physics: a run that diverges after some days (Singapore, dtsim = 900, 5 days from 1 March)
    aux = 0
    if chk.tier == 'thorough' or True:
        m = U.new_model(outdir=work, outname='wfreal.epw', month=3, day=1, nday=5, dtsim=900)
        with core.quiet():
            m.generate()
        try:
            with core.quiet():
                m.simulate()
            chk.notes.append('write-after-failure: the real 5-day run at dtsim=900 did not diverge (no verdict)')
        except Exception:  # noqa: BLE001
            got = sum(1 for u in m.UCMData if u is not None)
            case = {'param': U.PARAM_SGP, 'month': 3, 'day': 1, 'nday': 5, 'dtsim': 900,
                    'records_before_the_exception': got}
            try:
                with core.quiet():
                    m.write_epw()
                case['write_epw'] = 'returned'
            except Exception as e:  # noqa: BLE001
                case['write_epw'] = 'raised ' + type(e).__name__
            aux = 1
            br['real blow-up after %d h' % got] = 1
            judge(m, None, case, 'real physics diverged, then write_epw')
    chk.direct('write_epw-after-failed-call(no partial file, earlier file intact)', n + aux, n + aux,
               'toy physics raising after k records (0 < k < N, and at the first step), then write_epw() on the same '
               'object; write_epw with an unusable epw_precision / missing directory after a complete run; each '
               'with and without a complete file of an earlier run (same or another object) at the output path; '
               'one real Singapore run that diverges (dtsim 900, 5 days from 1 March): afterwards the path holds '
               'no file or the earlier file byte for byte', mismatches=bad, branches=br)


# ----------------------------------------------------------------------------------------------------------
# Fourth round: circumstances. Fail-stop must hold at every boundary an operator sees - the exit status of the
# command line included - and whoever looks, whatever the logging level, the interpreter mode, the other models.
def library_verdict(uwg, route, path, outdir, name):
    """what the library calls do with this file: ('raised', class, stage) or ('returned', None, None)"""
    stage = 'reading'
    S3.remove_if_exists(os.path.join(outdir, name))
    try:
        def call():
            nonlocal stage
            with core.quiet():
                if route == 'param':
                    m = uwg.UWG.from_param_file(path, U.rp(U.EPW_SGP), outdir, name)
                else:
                    import json
                    m = uwg.UWG.from_dict(json.load(open(path)), epw_path=U.rp(U.EPW_SGP), new_epw_dir=outdir, new_epw_name=name)
                stage = 'generate'
                m.generate()
                stage = 'simulate'
                m.simulate()
                stage = 'write_epw'
                m.write_epw()
        with_watchdog(call, 300)
    except Hang:
        return ('hang', None, stage)
    except Exception as e:  # noqa: BLE001
        return ('raised', type(e).__name__, stage)
    return ('returned', None, None)


def circumstances(chk, uwg, work, rows):
    import concurrent.futures
    import json
    import generic as G
    import simtoy
    import simdriver
    import u2_util as W
    rng = chk.rng
    quick = chk.tier == 'quick'
    epw = U.rp(U.EPW_SGP)
    nbad, n, br, shown = 0, 0, {}, {}

    def bad(circ, what, case, observed, expected):
        nonlocal nbad
        nbad += 1
        shown[circ] = shown.get(circ, 0) + 1
        if shown[circ] <= 2 and nbad <= 8:
            chk.violation('impl-violation', '%s [%s]' % (what, circ), case=case, observed=observed, expected=expected)

    def count(circ, k=1):
        nonlocal n
        n += k
        br[circ] = br.get(circ, 0) + k
    # the shipped parameter file with a one-day window (the command line cannot set nday)
    base = [list(r) for r in rows]
    for r in base:
        if r and r[0].replace(' ', '').lower() == 'nday':
            r[1] = '1'
    cdir = os.path.join(work, 'c10c')
    os.makedirs(cdir, exist_ok=True)

    def write_rows(new, name):
        p = os.path.join(cdir, name)
        with open(p, 'w', newline='') as f:
            csv.writer(f, lineterminator='\n').writerows(new)
        return p
    # ---- (4) the command line as the route: every class of refusal the library makes
    # all single-token corruptions, grouped by what from_param_file does with them
    groups = {}
    probe = os.path.join(cdir, 'probe.uwg')
    for what, new in corruptions(base, rng, 2 if quick else None):
        with open(probe, 'w', newline='') as f:
            csv.writer(f, lineterminator='\n').writerows(new)
        try:
            def call():
                with core.quiet():
                    return uwg.UWG.from_param_file(probe, epw_path=epw)
            with_watchdog(call, 20)
            cls = 'accepted'
        except Hang:
            continue
        except Exception as e:  # noqa: BLE001
            cls = type(e).__name__
        groups.setdefault(cls, []).append((what, new))
    per = 8 if quick else 60
    picked = []
    for cls in sorted(groups):
        if cls == 'accepted':
            continue
        lst = groups[cls]
        # spread over the kinds of corruption (token text / structural), not the first tokens of the file
        picked += [(cls, w_, new) for w_, new in rng.sample(lst, min(per, len(lst)))]
    later = []          # refusals that come later than the reader
    for key, tok, why in (('dtsim', '7', 'timestep that does not divide an hour: generate() refuses'),
                          ('dtsim', '3600', 'numerical blow-up: simulate() raises after some records'),
                          ('droad', '4.5', 'pavement deeper than the ground-temperature depths: generate() refuses'),
                          ('h_ref', '5', 'reference height below the roughness sublayer: simulate() raises')):
        new = [list(r) for r in base]
        for r in new:
            if r and r[0].replace(' ', '').lower() == key:
                r[1] = tok
        later.append((why, (key, tok), new))
    cases = [('param', cls, {'corruption': list(map(str, w_)), 'row_as_written': new[w_[0]] if isinstance(w_[0], int) and
                              w_[0] < len(new) else None}, new) for cls, w_, new in picked]
    cases += [('param', None, {'parameter': k_[0], 'value_as_written': k_[1], 'what': why}, new) for why, k_, new in later]
    # corruptions the reader accepts (a commented value, 0, -1, inf ... in a cell whose setter lets it pass): whatever the
    # library then does, the command must do the same
    acc = groups.get('accepted', [])
    cases += [('param', 'accepted', {'corruption': list(map(str, w_)), 'row_as_written': new[w_[0]] if isinstance(w_[0], int) and
                                     w_[0] < len(new) else None}, new) for w_, new in rng.sample(acc, min(4 if quick else 30, len(acc)))]
    cases.append(('param', None, {'control': 'the valid file (shipped Singapore parameters, nDay 1)'}, base))
    # JSON models
    with core.quiet():
        good = uwg.UWG.from_param_file(write_rows(base, 'good.uwg'), epw_path=epw).to_dict()
    for key, v in (('albroad', 1.1), ('zone', '9Z'), ('h_mix', -1), ('month', 13), ('type', 'uwg'), ('windmin', None),
                   ('bld', [['largeoffice', 'pst80', 0.4]]), ('schtraffic', good['schtraffic'][:2]), ('dtsim', 7),
                   ('dtsim', 'abc'), ('<delete>', 'h_obs'), ('<control>', None)):
        d = json.loads(json.dumps(good))
        if key == '<delete>':
            del d[v]
        elif key != '<control>':
            d[key] = v
        cases.append(('model', None, {'json_model': 'to_dict of the valid model', 'key': key, 'value': repr(v)}, d))
    results = []
    stale = open(U.rp(U.EPW_SGP), 'rb').read()[:4000]
    for i, (route, cls, case, payload) in enumerate(cases):
        if route == 'param':
            pth = write_rows(payload, 'c%d.uwg' % i)
        else:
            pth = os.path.join(cdir, 'c%d.json' % i)
            with open(pth, 'w') as f:
                json.dump(payload, f)
        lib = library_verdict(uwg, route, pth, cdir, 'lib%d.epw' % i)
        out = os.path.join(cdir, 'cli%d.epw' % i)
        S3.remove_if_exists(out)
        # something an earlier run left at the output name (every other case): a failing command must not touch it
        had = None
        if i % 2 and lib[0] == 'raised':
            with open(out, 'wb') as f:
                f.write(stale)
            had = stale
        code, got, res = W.cli_capture([route, pth, epw, '--new-epw-dir', cdir, '--new-epw-name', 'cli%d.epw' % i])
        count('command line (in process): library %s' % (lib[0] + (' ' + lib[1] if lib[1] else '')))
        case = dict(case, route='uwg simulate %s' % route, library_calls='%s%s' % (
            lib[0], ' %s in %s' % (lib[1], lib[2]) if lib[1] else ''))
        after = file_bytes(out)
        if lib[0] == 'raised':
            if code == 0:
                bad('command line', 'a run that cannot proceed ends the command with an error', case,
                    'the library route raises %s (%s), the command ended NORMALLY: exit status 0, weather file at the output '
                    'name: %s' % (lib[1], lib[2], 'none' if after is None else 'what an earlier run left there' if after == had
                                  else 'a new file'),
                    'a non-zero exit status (the exception of the library reaches the caller of the command)')
            elif after != had:
                bad('command line', 'a failing command leaves the output name as it was', case,
                    'exit status %s; the output name now holds %s' % (code, 'nothing' if after is None else 'another file'),
                    'no file, or the earlier file byte for byte')
        elif lib[0] == 'returned':
            msg = None
            if code != 0 or after is None:
                msg = 'exit status %s, weather file %s' % (code, 'missing' if after is None else 'written')
            elif after != file_bytes(os.path.join(cdir, 'lib%d.epw' % i)):
                msg = 'exit status 0 but the weather file differs from the library route'
            else:
                msg = W.complete_numeric_file(out, epw)
            if msg:
                bad('command line', 'a run the library completes, through the command line', case, msg,
                    'exit status 0 and the complete numeric weather file of the library route')
        results.append((route, case, pth, lib))
    # a handful through the real `python -m uwg` (plain and -O): exit status and file as fail-stop demands
    want_cls = ['AssertionError', 'Exception', 'ValueError', 'IndexError']
    sub = []
    for cls in want_cls:
        hit = [r for r in results if r[3][1] == cls and r[3][2] == 'reading']
        if hit:
            sub.append(rng.choice(hit))
    sub += [r for r in results if r[3][2] in ('generate', 'simulate')][:3 if quick else 8]
    sub += [r for r in results if r[3][0] == 'returned'][:2]
    sub += [r for r in results if r[0] == 'model' and r[3][0] == 'raised'][:2 if quick else 8]
    jobs = []
    for j, (route, case, pth, lib) in enumerate(sub):
        for opt in (False, True):
            name = 'sub%d_%d.epw' % (j, opt)
            jobs.append((j, opt, name, ['simulate', route, pth, epw, '--new-epw-dir', cdir, '--new-epw-name', name]))
    with concurrent.futures.ThreadPoolExecutor(max_workers=8) as ex:
        outs = list(ex.map(lambda jb: G.cli(jb[3], optimize=jb[1]), jobs))
        surface = W.cli_surface_problems()
    for (j, opt, name, args), (rc, so, se) in zip(jobs, outs):
        route, case, pth, lib = sub[j]
        mode = 'python -O -m uwg' if opt else 'python -m uwg'
        count('command line (%s)' % mode)
        fp = os.path.join(cdir, name)
        case = dict(case, command='%s simulate %s <file> <Singapore epw>' % (mode, route))
        if not opt and lib[0] == 'raised' and (rc == 0 or os.path.exists(fp)):
            bad('command line', 'a run that cannot proceed ends the command with an error', case,
                'the library route raises %s (%s); `%s` ended with exit status %s, weather file written: %s' % (
                    lib[1], lib[2], mode, rc, os.path.exists(fp)), 'non-zero exit status and no weather file')
        elif rc == 0:
            msg = 'no weather file' if not os.path.exists(fp) else W.complete_numeric_file(fp, epw)
            if msg:
                bad('command line' + (' -O' if opt else ''), 'exit status 0 means a complete weather file', case,
                    '`%s` ended with exit status 0: %s' % (mode, msg), 'exit status 0 only with a complete numeric weather file')
        elif os.path.exists(fp):
            bad('command line' + (' -O' if opt else ''), 'a failing command writes no weather file', case,
                '`%s` ended with exit status %s and left a file' % (mode, rc), 'no file')
    count('command line surface')
    for p_ in surface:
        bad('command line', 'options of the command line', {'command': '--help'}, p_,
            'the commands, arguments and options of the unchanged tree')
    # ---- (1) + (2) somebody looks at a run that completes, at a run that fails, under DEBUG logging
    cfg = dict(month=7, day=30, nday=1, dtsim=300)
    mp = U.new_model(outdir=cdir, outname='plain.epw', **cfg)
    with core.quiet():
        mp.generate(); mp.simulate(); mp.write_epw()
    count('observers + DEBUG logging', 3)
    try:
        mo, reco, fho = G.run_observed(lambda: U.new_model(outdir=cdir, outname='looked.epw', **cfg))
        msg = finite_records(mo) or numeric_file(mo.new_epw_path, mo.simTime.timeInitial, 24, 1)
    except Exception as e:  # noqa: BLE001
        msg, reco, fho = 'the run that completes when nobody looks raised %s: %s' % (type(e).__name__, str(e)[:150]), None, None
    if msg or reco != U.records(mp) or fho != G.file_hash(mp.new_epw_path):
        bad('observers', 'a complete run while somebody looks (repr / str / ToString at every stage and every 41st step, DEBUG '
            'logging)', cfg, msg or 'hourly records / file differ from the run never looked at',
            'complete finite records, numeric file, identical to the plain run')
    with G.debug_logging():
        # the real physics blowing up (shipped parameters at dtsim = 3600), looked at before, during and after
        mb = U.new_model(outdir=cdir, outname='blow.epw', month=1, day=1, nday=1, dtsim=3600)
        G.poke(mb)
        with core.quiet():
            mb.generate()
        undo = G.poke_during(mb, every=2)
        raised = None
        try:
            with core.quiet():
                mb.simulate()
        except Exception as e:  # noqa: BLE001
            raised = type(e).__name__
        finally:
            undo()
        G.poke(mb)
        got = sum(1 for u in mb.UCMData if u is not None)
        wrote = None
        try:
            with core.quiet():
                mb.write_epw()
            wrote = 'returned'
        except Exception as e:  # noqa: BLE001
            wrote = 'raised ' + type(e).__name__
        G.poke(mb)
        case = {'param': U.PARAM_SGP, 'month': 1, 'day': 1, 'nday': 1, 'dtsim': 3600, 'looked_at': 'after construction, after '
                'generate(), every 2nd step, after the failed simulate(), after write_epw()', 'records_before_the_exception': got}
        if raised is None:
            msg = finite_records(mb)
            if msg:
                bad('observers', 'blow-up while somebody looks', case, 'simulate() returned: %s' % msg, 'an exception')
            else:
                chk.notes.append('circumstances: the dtsim=3600 Singapore run did not blow up (no verdict)')
        elif os.path.exists(os.path.join(cdir, 'blow.epw')):
            bad('observers', 'weather file left behind by a failed run that was looked at', case,
                'simulate() raised %s after %d records, write_epw() %s, a file exists' % (raised, got, wrote), 'no file')
        # toy physics raising part-way, looked at, then write_epw
        mt = simdriver.build_model(6, 15, 2, 900, new_epw_dir=cdir, new_epw_name='toy.epw')
        G.poke(mt)
        err = simtoy.toy_morph_simulate(mt, 17, 53)
        G.poke(mt)
        try:
            with core.quiet():
                mt.write_epw()
        except Exception:  # noqa: BLE001
            pass
        G.poke(mt)
        if err and os.path.exists(os.path.join(cdir, 'toy.epw')):
            bad('observers', 'weather file left behind by a failed run that was looked at (toy physics raising part-way)',
                {'month': 6, 'day': 15, 'nday': 2, 'dtsim': 900}, 'a file exists after %s' % err, 'no file')
    # ---- (5) a failing model and a good model side by side
    count('other models')
    a = U.new_model(outdir=cdir, outname='side_a.epw', month=1, day=1, nday=1, dtsim=3600)
    b = U.new_model(outdir=cdir, outname='side_b.epw', **cfg)
    cl0 = W.class_digest()
    with core.quiet():
        b.generate()
        a.generate()
    try:
        with core.quiet():
            a.simulate()
    except Exception:  # noqa: BLE001
        pass
    with core.quiet():
        b.simulate()
        b.write_epw()
    try:
        with core.quiet():
            a.write_epw()
    except Exception:  # noqa: BLE001
        pass
    msg = finite_records(b) or numeric_file(b.new_epw_path, b.simTime.timeInitial, 24, 1)
    if msg or U.records(b) != U.records(mp) or G.file_hash(b.new_epw_path) != G.file_hash(mp.new_epw_path):
        bad('other models', 'a good run beside a model that blows up', dict(cfg, other_model='shipped parameters at dtsim 3600, '
            'generated after, simulated (raising) before this one'), msg or 'records / file differ from the run alone',
            'complete finite records, the file of the run alone')
    if os.path.exists(os.path.join(cdir, 'side_a.epw')) and any(u is None for u in a.UCMData):
        bad('other models', 'the failing model beside a good one', {'dtsim': 3600}, 'left a weather file', 'no file')
    if W.class_digest() != cl0:
        bad('other models', 'module- and class-level data of the package', {'operations': 'a failing and a good run'},
            'digest changed', 'unchanged')
    # ---- (6) a refused dictionary is refused again (never accepted on second use), and left as it was
    keys = [k for k in good if k != 'type']
    probes = ['abc', None, -1, float('nan'), []]
    nref = 0
    for k in (keys if not quick else rng.sample(keys, 16)):
        for v in (probes if not quick else rng.sample(probes, 2)):
            d = json.loads(json.dumps(good))
            d[k] = v
            msg, verdict = W.from_dict_twice(uwg.UWG, d, lambda x, y: None if x.to_dict() == y.to_dict() or
                                             T.has_nan(x.to_dict()[k]) else 'to_dict differs')
            count('caller-owned dictionary used twice: ' + verdict.split(' ')[0])
            nref += verdict != 'ok'
            if msg:
                bad('caller-owned data', 'a dictionary with one corrupted value given to from_dict twice',
                    {'key': k, 'value': repr(v)}, msg, 'the same verdict both times (a refusal stays a refusal), dictionary as it was')
    # ---- (3) fresh processes, python and python -O: the library calls on a handful of files
    specs = []
    pick = [r for r in sub if r[0] == 'param']
    for j, (route, case, pth, lib) in enumerate(pick):
        for opt in (False, True):
            tag = 'f%d%s' % (j, '-O' if opt else '')
            specs.append((tag, {'ops': [['newf', 'M', {'param': pth, 'out': [os.path.join(cdir, tag), 'o.epw']}], ['gen', 'M'],
                                        ['sim', 'M'], ['write', 'M'], ['rec', 'M', 'run']]}, opt))
    docs = W.children(specs, cdir, workers=8)
    for j, (route, case, pth, lib) in enumerate(pick):
        for opt in (False, True):
            tag = 'f%d%s' % (j, '-O' if opt else '')
            mode = 'python -O' if opt else 'python'
            count(mode + ' (fresh process)')
            rc, doc, err = docs[tag]
            c2 = dict(case, interpreter=mode + ', fresh process', calls='from_param_file; generate; simulate; write_epw')
            fp = os.path.join(cdir, tag, 'o.epw')
            if doc is None:
                bad(mode, 'scenario in a fresh interpreter', c2, 'rc=%s %s' % (rc, err[-200:]), 'runs')
                continue
            calls = doc['log'][:4]
            if all(x == 'ok' for x in calls):
                recs = (doc['obs'].get('run') or {}).get('records') or []
                msg = None
                if len(recs) != 24 or any(r is None for r in recs):
                    msg = '%d of 24 hourly records' % sum(1 for r in recs if r is not None)
                elif any(not math.isfinite(float(x)) for r in recs for x in r):
                    msg = 'a record that is not finite'
                elif not os.path.exists(fp):
                    msg = 'no weather file'
                else:
                    msg = W.complete_numeric_file(fp, epw)
                if msg:
                    bad(mode, 'all four calls returned under %s' % mode, c2, msg, 'complete finite records and a numeric file')
                if not opt and lib[0] == 'raised':
                    bad(mode, 'verdict of the library calls in a fresh process', c2, 'all calls returned',
                        'as in this process: %s in %s' % (lib[1], lib[2]))
            else:
                if os.path.exists(fp):
                    bad(mode, 'a failing call leaves no weather file (%s)' % mode, c2, 'calls: %s; a file exists' % calls, 'no file')
                if not opt and lib[0] == 'returned':
                    bad(mode, 'verdict of the library calls in a fresh process', c2, 'calls: %s' % calls, 'all return')
    chk.direct('circumstances(command line exit status, python -O, observers, DEBUG logging, other models, caller-owned data)',
               n, n,
               '(4) every single-token corruption of the shipped parameter file (nDay 1) is read once and grouped by what '
               'from_param_file does (%s); %d members per class of refusal, refusals that come later (dtsim 7 and droad 4.5 in '
               'generate(), blow-up at dtsim 3600 and h_ref 5 in simulate()), the valid file, and JSON models with one corrupted '
               'key (out of range, unknown zone, wrong type field, missing / null key, short schedule, stock summing to 0.4, '
               'non-numeric and non-divisor timestep) each go through the library calls and through `uwg simulate param|model` '
               '(click runner in this process): library raises => non-zero exit status and the output name holds what it held '
               'before (nothing, or what an earlier run left there); library returns => exit status 0 and the complete numeric '
               'file of the library route; a member of every class again through real `python -m uwg` and `python -O -m uwg` '
               '(exit 0 only with a complete numeric file, otherwise no file); `--help` surface of the unchanged tree; '
               '(1, 2) a complete run, the real blow-up (shipped parameters at dtsim 3600) and a toy run raising part-way while '
               'repr / str / ToString of every reachable object is taken at every stage and during the steps under DEBUG '
               'logging: same records and file / exception still raised, no file left; (5) a blowing-up model and a good model '
               'interleaved: the good one complete and identical to itself alone, class-level digest constant; (6) to_dict of '
               'the valid model with one key set to "abc" / None / -1 / NaN / [] given to from_dict TWICE: same verdict both '
               'times (%d refusals), dictionary as it was; (3) the library calls on the picked files in fresh `python` and '
               '`python -O` processes: all calls return with complete finite records and a numeric file, or no file exists'
               % (', '.join('%s: %d' % (c_, len(groups[c_])) for c_ in sorted(groups)), per, nref),
               mismatches=nbad, branches=br)


# ----------------------------------------------------------------------------------------------------------
# Fifth round: float-only effects of the step loop. `records_complete_on_return` is proved over exact arithmetic; the
# real loop bound, the clock and the record test are computed in doubles, where dt/3600 is not representable for 40 of
# the 45 accepted time steps and quotients such as 24*days/(dt/3600.) land one ulp beside an integer for particular
# (dt, days). The toy-physics ties above run dt >= 60 and windows of 1-3 days only.
def float_step_loop(chk, uwg):
    import multiprocessing
    import v2_util as V
    quick = chk.tier == 'quick'
    suspects, nsurvey = V.float_step_survey(uwg)
    plan = V.float_step_plan(chk.rng, quick, suspects)
    short = V.float_step_shortcut_ok(uwg, [(300, 1), (48, 2)] + ([] if quick else [(3600, 365), (3, 1), (225, 9)]))
    if short:
        # the tree under test builds its clock differently: every window gets its own really generated model (slow
        # path: the one-day windows, the suspects and the windows of at most 20 000 steps)
        chk.notes.append('float-step tie: generate() does not build the clock as SimParam(dtsim, dtweather, month, day, nday) '
                         '(%s); every window was run on its own generated model' % short)
        plan = [p_ for p_ in plan if p_[1] == 1 or p_[2].startswith('suspect') or 86400 * p_[1] // p_[0] <= 20000][:120]
    nw = 4 if quick else 12
    # (longest windows first, dealt round robin: even load)
    order = sorted(plan, key=lambda p_: -86400 * p_[1] // p_[0])
    with multiprocessing.Pool(nw) as pool:
        outs = pool.map(V.float_step_job, [(core.REPO, order[i::nw], bool(short)) for i in range(nw)], chunksize=1)
    res = [r for o in outs for r in o]
    bad, br = 0, {}
    for dt, days, why, outcome, msg in sorted(res, key=lambda r: 86400 * r[1] // r[0]):
        br[outcome] = br.get(outcome, 0) + 1
        if msg:
            bad += 1
            if bad <= 3:
                chk.violation('impl-violation', 'normal return of simulate() with partial records (real float step loop)',
                              case={'dtsim': dt, 'nday': days, 'month': 1, 'day': 1, 'rural_file': U.EPW_SGP,
                                    'steps_needed': 86400 * days // dt, 'why_this_member': why,
                                    'physics': 'stubbed (no-ops); loop, clock and record test as shipped'},
                              observed=msg, expected='all %d hourly records in WeatherData, UCMData, UBLData and RSMData' % (24 * days))
    steps = sum(86400 * d // dt for dt, d, _ in plan)
    chk.direct('float-step-loop(all 45 divisors x window lengths; real doubles)', len(res) + nsurvey, len(res),
               'the REAL step loop of simulate() in doubles (physics stubbed to no-ops, empty building list; the model is '
               'generated once for 1 January + 365 days of the Singapore file and the clock of each member is built by the '
               'real SimParam(dtsim, dtweather, month, day, nday) as _compute_input does - checked against really generated '
               'models) for: every one of the 45 accepted time steps x 1 day; every time step with the longest window of the '
               'strata {1..5, 7..10, 16..21, 32..42, 63..85, 148..170, 296..341, 365, 366} it can afford and random further '
               '(dt, length) pairs of the strata (%d windows, %d steps, dt 1 .. 3600, up to %d days in this run); beforehand the '
               'loop bound `nt` of SimParam is surveyed WITHOUT stepping for all 45 x 366 (dt, nday) pairs against '
               '86400*nday/dt + 1 and the cheapest pairs that deviate are stepped as well (%d deviating pairs in this run). '
               'Verdict: whenever simulate() returns, model.N = 24*nday and none of the 24*nday slots of the four record '
               'lists is empty' % (len(res), steps, max(d for _, d, _ in plan), len(suspects)),
               mismatches=bad, branches=br)
    chk.measurements['float_step_loop'] = {'windows': len(res), 'steps': steps, 'loop_bound_pairs_surveyed': nsurvey,
                                           'loop_bound_deviations': len(suspects)}


def customs_in_zones(chk, uwg):
    """Sixth round (family in harness/w2_util.py): every run with a custom schedule set above is in zone 1A. The zone setter
    accepts 18 names, the library has 16 columns (1B and 5C stand for 1A and 5B): custom pairs in EVERY accepted zone."""
    import w2_util as W
    n, bad, br, zones = W.customs_in_every_zone(chk, uwg, finite_records)
    chk.direct('custom-schedule-sets-in-every-accepted-zone(18 zone names incl. the aliases 1B / 5C; new type / replacing a DOE type)',
               n, n, 'a custom (BEMDef, SchDef) pair built with the real constructors - as a NEW type and as a replacement of '
               'largeoffice/pst80 - in a stock beside a DOE row, in each of the %d zone names the zone setter accepts (%s; the '
               'simulated ones also in lower case; quick: every other combination, both kinds in 1B and 5C): generate() must select '
               'the custom pair; in 1A, 1B, 5C, 8 and further zones (quick: two drawn, thorough: all) a 1-day run (dtsim 300) must give '
               '24 complete finite in-bound records' % (len(zones), ' '.join(zones)), mismatches=bad, branches=br)


def schedule_refusals(chk, uwg, work):
    """Seventh round (family in harness/x2_util.py): the constructor's refusals CELL BY CELL. The shipped large-office
    schedule set with ONE bad cell - negative, slightly negative, negative integer, text, None, nan, a list - at the first /
    a middle / the last position (day type 0 hour 0, day type 1 hour 13, day type 2 hour 23) of each of the seven weeks,
    and weeks with 2 / 4 day types, 23 / 25 hours: the constructor refuses the set, or the set is simulated (1-day run
    started on the day type that holds the bad cell) to 24 complete finite records."""
    import x2_util as X
    quick = chk.tier == 'quick'
    lib_s = T.build_schedule(uwg, {})[1]
    members = X.bad_cell_members(chk.rng, quick)
    accepted, br, bad, n = [], {}, 0, 0
    for label, w, build, pos, kind in members:
        n += 1
        week = build(getattr(lib_s, w))
        try:
            bem, sch = T.build_schedule(uwg, {w: week})
        except Exception:  # noqa: BLE001 - refused: outside the clause
            br['refused:' + kind] = br.get('refused:' + kind, 0) + 1
            continue
        br['accepted:%s (%s)' % (kind, 'set point' if w in ('cool', 'heat') else 'fraction')] = \
            br.get('accepted:%s (%s)' % (kind, 'set point' if w in ('cool', 'heat') else 'fraction'), 0) + 1
        accepted.append((label, w, week, pos, kind, bem, sch))
    # simulate the accepted ones: large deviations first; quick tier: at most 4 runs, one per (kind, fraction / set point)
    order = {'negative': 0, 'negative integer': 1, 'nan': 2, 'slightly negative': 3}
    accepted.sort(key=lambda a: order.get(a[4], 9))
    seen, runs = set(), []
    for a in accepted:
        key = (a[4], a[1] in ('cool', 'heat')) if quick else (a[4], a[1], a[3])
        if key in seen:
            continue
        seen.add(key)
        runs.append(a)
    runs = runs[:4] if quick else runs[:40]
    for label, w, week, pos, kind, bem, sch in runs:
        month, day = X.DAYTYPE_START[pos[0]] if pos else (1, 2)
        case = {'schedule_set': 'the shipped largeoffice / pst80 set with ' + label,
                'constructor argument changed': w, 'value of the cell': repr(week[pos[0]][pos[1]]) if pos else None,
                'rows x hours of the week': [len(d) for d in week], 'month': month, 'day': day, 'nday': 1, 'dtsim': 300}
        with core.quiet():
            m = uwg.UWG.from_param_file(U.rp(U.PARAM_SGP), epw_path=U.rp(U.EPW_SGP), new_epw_dir=work, new_epw_name='c10x.epw')
        m.bld, m.zone, m.month, m.day, m.nday, m.dtsim = [('largeoffice', 'pst80', 1.0)], '1A', month, day, 1, 300
        msg = None
        try:
            m.ref_bem_vector, m.ref_sch_vector = m._check_reference_data([bem], [sch])
            with core.quiet():
                m.generate()
                m.simulate()
            msg = finite_records(m)
            br['simulated'] = br.get('simulated', 0) + 1
        except Exception as e:  # noqa: BLE001
            msg = 'accepted by SchDef(), but the run raised %s: %s' % (type(e).__name__, str(e).split('\n')[0][:140])
        if msg and kind == 'nan' and w in ('cool', 'heat') and KNOWN_NAN_SETPOINT:
            chk.notes.append('unchanged-tree observation (recorded, not judged): SchDef accepts nan as a %s set point; %s' % (w, msg))
            continue
        if msg:
            bad += 1
            if bad <= 3:
                chk.violation('impl-violation', 'schedule set accepted by the SchDef constructor cannot be simulated',
                              case=case, observed=msg, expected='refused by the constructor (as every other malformed cell is), or 24 '
                                                                'complete finite records')
    if not any(k.startswith('refused:negative') for k in br) and not bad and not any(r[4] == 'negative' for r in runs):
        raise core.Infra('negative fractions are neither refused nor simulated: %s' % sorted(br))
    chk.direct('schedule-constructor-refusals(one bad cell per kind, position and week; row / hour counts)', n, n,
               schedule_refusals.__doc__.replace('\n', ' ').replace('    ', ' ') + ' Quick tier: every week x kind at one '
               'rotating position; accepted sets are simulated largest deviation first (quick: at most 4 runs, one per kind).',
               mismatches=bad, branches=br)


KNOWN_NAN_SETPOINT = False     # repaired in /repo (SchDef refuses NaN): a nan set point must be refused or simulate


def run(chk):
    chk.proof(MODULE, THEOREMS, extra_modules=['UwgVerif.Props.C06'])
    if chk.tier == 'thorough':
        chk.leanchecker([MODULE])
    rng = chk.rng
    work = chk.work()
    uwg = U.uwg_mod()

    # (1) driver: accepted / refused timesteps, exceptions inside the loop (toy physics), records
    cases = toy_cases(chk, 18 if chk.tier == 'quick' else 150, bad_dt=True)
    chk.correspond('simulate(toy physics, bad timesteps, raising steps)~Sim.simulate', 'C03', cases,
                   rule='real simulate loop with toy physics vs Lean Sim.simulate: timesteps that do not divide '
                        'an hour (7, 96, 480, 540, 1000, 2700, 3601, 7200) must be refused before the first step, '
                        'a raising step must end the run with the records stored so far, a normal return must '
                        'hold all 24*days records',
                   nontrivial=lambda l, a: True,
                   classify=lambda l, a: ' '.join(a.split(' ')[:2]) if a.startswith('err') else 'ok')
    bad = 0
    for line, ans in cases:
        days = int(line.split('days=')[1].split(' ')[0])
        if ans.startswith('ok') and ans.count(';') + 1 != 24 * days:
            bad += 1
            chk.violation('impl-violation', 'normal return with partial records', case=line, observed=ans[:200],
                          expected='%d records' % (24 * days))
    # every dt 1..3600: the constructor accepts exactly the divisors of 3600
    nacc = 0
    for dt in range(1, 3601):
        try:
            uwg.SimParam(dt, 3600, 1, 1, 1)
            ok = True
        except Exception:  # noqa
            ok = False
        nacc += ok
        if ok != (3600 % dt == 0):
            bad += 1
            if bad < 4:
                chk.violation('impl-violation', 'timestep acceptance', case={'dt': dt},
                              observed='accepted' if ok else 'refused',
                              expected='accepted iff dt divides 3600')
    chk.direct('timestep-acceptance(dt=1..3600)', 3600, 3600,
               'SimParam(dt, ...) for every dt from 1 to 3600: accepted iff 3600 %% dt == 0 (%d accepted)' % nacc,
               mismatches=bad)
    chk.extra_cov['exhaustive'] = True

    # (2) reader: single-token corruptions of the shipped parameter file, with a watchdog
    src = U.rp(U.PARAM_SGP)
    rows = list(csv.reader(open(src, newline='')))
    corr = corruptions(rows, rng, 2 if chk.tier == 'quick' else None)
    stats = {'raised': 0, 'complete': 0}
    bad2 = 0
    pth = os.path.join(work, 'c.uwg')
    for what, new in corr:
        with open(pth, 'w', newline='') as f:
            csv.writer(f, lineterminator='\n').writerows(new)

        def call():
            with core.quiet():
                return uwg.UWG.from_param_file(pth, epw_path=U.rp(U.EPW_SGP))
        try:
            m = with_watchdog(call, 20)
            missing = [a for a in uwg.UWG.PARAMETER_LIST if not hasattr(m, '_' + a)]
            if missing:
                bad2 += 1
                chk.violation('impl-violation', 'reader returned an incomplete parameter set',
                              case={'corruption': what}, observed='missing %s' % missing[:3],
                              expected='exception or all %d parameters' % len(uwg.UWG.PARAMETER_LIST))
            stats['complete'] += 1
        except Hang:
            bad2 += 1
            chk.violation('impl-violation', 'reader hangs on a corrupted parameter file',
                          case={'corruption': what, 'file_rows': new[:0]}, observed='no return within 20 s '
                          '(normal: < 10 ms)', expected='exception')
        except Exception:  # noqa
            stats['raised'] += 1
    # corruptions the reader ACCEPTED with a non-finite or extreme token: simulate them (in parallel)
    import multiprocessing
    jobs = []
    accepted_nf = [(what, new) for what, new in corruptions(rows, rng, None)
                   if isinstance(what[0], int) and what[2] in ('1e400', 'nan', 'inf', '-1', '0')]
    if chk.tier == 'quick':
        # every scalar parameter set to inf, plus a sample of the other non-finite corruptions
        scalar_inf = [c for c in accepted_nf if c[0][2] == 'inf' and c[0][1] == 1]
        rest = [c for c in accepted_nf if c[0][2] in ('1e400', 'nan', 'inf') and c not in scalar_inf]
        accepted_nf = scalar_inf + rng.sample(rest, min(24, len(rest)))
    for n_, (what, new) in enumerate(accepted_nf):
        pj = os.path.join(work, 'nf%d.uwg' % n_)
        with open(pj, 'w', newline='') as f:
            csv.writer(f, lineterminator='\n').writerows(new)
        jobs.append((core.REPO, pj, work, str(n_)))
    with multiprocessing.Pool(min(16, max(1, len(jobs)))) as pool:
        outs = pool.map(simulate_corrupted, jobs, chunksize=2)
    nbad_nf = 0
    for (what, new), msg in zip(accepted_nf, outs):
        if msg:
            nbad_nf += 1
            if nbad_nf <= 3:
                chk.violation('impl-violation', 'corrupted parameter value simulated without fail-stop',
                              case={'row': new[what[0]], 'token_index': what[1], 'token': what[2]},
                              observed=msg, expected='exception, or complete finite in-bound records and a '
                                                     'numeric weather file')
    chk.direct('simulate-accepted-corruptions(non-finite / extreme tokens)', len(jobs), len(jobs),
               'parameter files with one value replaced by inf / nan / 1e400 (thorough: also 0 and -1): when the '
               'reader and setters accept them, generate; simulate; write_epw must raise or give complete finite '
               'records and numeric fields (300 s watchdog)', mismatches=nbad_nf)
    chk.direct('reader-single-token-corruption(watchdog)', len(corr), len(corr),
               'every non-comment token of resources/initialize_singapore.uwg replaced by non-numeric / empty / '
               'overflow / negative / nan / commented / split text (quick: 2 kinds per token), plus dropped rows and '
               'truncations; each read under a 20 s alarm: must raise or return all 49 parameters',
               mismatches=bad2, branches=stats)

    # (3) real runs: records complete, finite, in bounds; written file numeric; zero-load schedules
    runs = [dict(month=1, day=1, nday=1, dtsim=300), dict(month=7, day=30, nday=2, dtsim=150)]
    if chk.tier == 'thorough':
        runs += [dict(month=m_, day=15, nday=2, dtsim=300) for m_ in (3, 5, 9, 11)]
    bad3 = 0
    for cfg in runs:
        m = U.new_model(outdir=work, outname='c10.epw', **cfg)
        with core.quiet():
            m.generate(); m.simulate(); m.write_epw()
        msg = finite_records(m) or numeric_file(m.new_epw_path, m.simTime.timeInitial, 24 * cfg['nday'], 1)
        if msg:
            bad3 += 1
            chk.violation('impl-violation', 'records / written file after a normal return', case=cfg,
                          observed=msg, expected='all records finite and in bounds; written fields numeric')
    # zero internal load: schedules accepted by SchDef with hours of zero light+equipment+occupancy
    zero = [[0.0] * 24 for _ in range(3)]
    half = [[0.0] * 12 + [0.5] * 12 for _ in range(3)]
    for sched in (zero, half):
        m = U.new_model(outdir=work, outname='c10z.epw', month=6, day=1, nday=1, dtsim=300)
        with core.quiet():
            m.generate()
        for s in m.Sch:
            s._elec, s._light, s._occ = sched, sched, sched
        try:
            with core.quiet():
                m.simulate()
            msg = finite_records(m)
            if msg is None and sched is zero and any(b.building.int_heat_f_rad != 0 for b in m.BEM):
                msg = 'radiant fraction %r with zero internal load' % m.BEM[0].building.int_heat_f_rad
        except ZeroDivisionError as e:
            msg = 'ZeroDivisionError: %s' % e
        if msg:
            bad3 += 1
            chk.violation('impl-violation', 'accepted schedule set with zero-load hours cannot be simulated',
                          case={'schedule': 'all zero' if sched is zero else 'zero until noon'}, observed=msg,
                          expected='complete finite records')
    # schedules as ACCEPTED by the public SchDef setters (not planted): occupant-only hours with every legal
    # latent share, and negative fractions (either refused at assignment or simulated to the end)
    nacc = 0
    occ_only = [[0.0] * 8 + [0.5] * 8 + [0.0] * 8 for _ in range(3)]
    nothing = [[0.0] * 24 for _ in range(3)]
    neg = [[-0.25] * 24 for _ in range(3)]
    acc_cases = [('occupants-only', lf, None) for lf in (0.3, 0.6, 1.0)] + [
        ('negative-' + f, 0.3, f) for f in ('elec', 'light', 'occ', 'gas', 'swh')]
    for kind, lf, negfield in acc_cases:
        nacc += 1
        m = U.new_model(outdir=work, outname='c10a.epw', month=6, day=1, nday=1, dtsim=300, latfocc=lf)
        with core.quiet():
            m.generate()
        refused = False
        try:
            for s_ in m.Sch:
                if negfield is None:
                    s_.elec, s_.light, s_.occ = nothing, nothing, occ_only
                else:
                    setattr(s_, negfield, neg)
        except AssertionError:
            refused = True
        if refused:
            continue
        msg = None
        try:
            with core.quiet():
                m.simulate()
            msg = finite_records(m)
        except Exception as e:  # noqa
            if negfield is None:
                msg = '%s: %s' % (type(e).__name__, str(e)[:120])
            # a negative load that was accepted may end in a raise (fail-stop): tolerated, noted
        if msg:
            bad3 += 1
            chk.violation('impl-violation', 'schedule accepted by the SchDef setters cannot be simulated',
                          case={'schedule': kind, 'latfocc': lf}, observed=msg, expected='complete finite records')
    # numerical blow-up must end in an exception (the shipped fatal-error parameter set)
    fatal = os.path.join(core.REPO, 'tests', 'parameters', 'initialize_fatal_error.uwg')
    nfatal = 0
    if os.path.exists(fatal):
        try:
            m = uwg.UWG.from_param_file(fatal, epw_path=U.rp(U.EPW_SGP), new_epw_dir=work, new_epw_name='f.epw')
            m.dtsim = 3600
            with core.quiet():
                m.generate(); m.simulate()
            msg = finite_records(m)
            if msg:
                bad3 += 1
                chk.violation('impl-violation', 'blow-up returned normally', case={'param': 'initialize_fatal_error.uwg', 'dtsim': 3600},
                              observed=msg, expected='exception or valid records')
        except Exception:  # noqa
            nfatal = 1
    chk.direct('real-runs(records finite+bounded, file numeric, zero-load, blow-up)', len(runs) + 3 + nacc,
               len(runs) + 3 + nacc, 'full runs: every record present, finite and inside 200..350 K / humidity / wind '
               'bounds, written fields match -?d+(.d)?; all-zero and half-zero internal-load schedules simulate; '
               'occupant-only hours assigned through the SchDef setters simulate for latfocc 0.3 / 0.6 / 1.0, negative '
               'fractions are refused by the setters or simulate; '
               'the shipped blow-up parameter set at dtsim=3600 ends in an exception (%s)' % (
                   'raised' if nfatal else 'returned valid records'), mismatches=bad3)
    not_a_number_tokens(chk, uwg, work, rows)
    accepted_schedule_sets(chk, uwg, work)
    customs_in_zones(chk, uwg)
    schedule_refusals(chk, uwg, work)
    changed_after_generate(chk, work)
    write_after_failure(chk, work)
    float_step_loop(chk, uwg)
    circumstances(chk, uwg, work, rows)
    chk.assumptions.append('non-finite values: `canTemp > 350 or canTemp < 200` is false for NaN, so a NaN would pass '
                           'the code\'s own check - outside the exact model; the scan of every record and written field '
                           'on real runs covers it. Hangs inside libm / the OS are outside.')
    chk.assumptions.append('the indoor / ceiling window (-50..100 C) is checked at the start of the next BEMCalc, so it '
                           'bounds the building state of every step but the last; the hourly records hold canyon, '
                           'boundary-layer and rural quantities')
