"""C19 - shipped reference library equals its source tables and is usable."""
import multiprocessing
import os

import core
import uwgutil as U
from extract import reftables

MODULE = 'UwgVerif.Props.C19'
THEOREMS = ['Uwg.C19.shipped_eq_regenerated', 'Uwg.C19.shipped_complete', 'Uwg.C19.all_wellformed',
            'Uwg.C19.wellformed_solvable', 'Uwg.C19.shipped_solvable']
HOT = ('resources/SGP_Singapore.486980_IWEC.epw', 7)
COLD = ('tests/epw/CAN_ON_Toronto.716240_CWEC.epw', 1)


def first_difference(a, b, path=''):
    """First differing attribute path of two canonical trees."""
    if type(a) != type(b):
        return path, a, b
    if isinstance(a, dict):
        for k in sorted(set(a) | set(b)):
            if k not in a or k not in b:
                return path + '.' + k, a.get(k), b.get(k)
            d = first_difference(a[k], b[k], path + '.' + k)
            if d:
                return d
        return None
    if isinstance(a, list):
        if len(a) != len(b):
            return path + '.len', len(a), len(b)
        for i, (x, y) in enumerate(zip(a, b)):
            d = first_difference(x, y, '%s[%d]' % (path, i))
            if d:
                return d
        return None
    return None if a == b else (path, a, b)


def wellformed(b, s):
    """C19 well-formedness evaluated directly on live objects. Returns None or a message."""
    for nm in ('wall', 'roof', 'mass'):
        el = getattr(b, nm)
        if len(el.layer_thickness_lst) < 2:
            return '%s has %d layers' % (nm, len(el.layer_thickness_lst))
        if not (len(el.layer_thickness_lst) == len(el.layerThermalCond) == len(el.layerVolHeat)):
            return '%s layer lists differ in length' % nm
        if min(el.layer_thickness_lst) <= 0 or min(el.layerThermalCond) <= 0 or min(el.layerVolHeat) <= 0:
            return '%s has a non-positive thickness / conductivity / heat capacity' % nm
    for o, a in reftables.FRACS:
        v = getattr(getattr(b, o), a)
        if not (0.0 <= v <= 1.0):
            return '%s.%s = %r outside [0,1]' % (o, a, v)
    for o, a in reftables.POSITIVES:
        v = getattr(getattr(b, o), a)
        if not v > 0:
            return '%s.%s = %r not positive' % (o, a, v)
    for nm in reftables.SCHED:
        tab = getattr(s, nm)
        if len(tab) != 3 or any(len(r) != 24 for r in tab):
            return 'schedule %s is not 3 x 24' % nm
    return None


def simulate_one(args):
    repo, i, j, k, epw, month, dtsim = args
    os.environ['UWG_REPO'] = repo
    core.REPO = repo
    try:
        u = U.uwg_mod()
        from uwg.utilities import REF_BLDTYPE, REF_BUILTERA, REF_ZONETYPE
        import tempfile
        with core.quiet():
            m = U.new_model(epw=epw, outdir=tempfile.gettempdir(), outname='c19_%d.epw' % os.getpid(),
                            nday=1, dtsim=dtsim, month=month, day=1,
                            bld=[(REF_BLDTYPE[i], REF_BUILTERA[j], 1.0)], zone=REF_ZONETYPE[k])
            m.generate()
            m.simulate()
        recs = U.records(m)
        if len(recs) != 24 or any(r is None for r in recs):
            return (i, j, k, epw, 'incomplete records')
        import math
        for r in recs:
            if not all(math.isfinite(float(x)) for x in r):
                return (i, j, k, epw, 'non-finite record %s' % (r,))
        return None
    except Exception as e:  # noqa
        return (i, j, k, epw, '%s: %s' % (type(e).__name__, str(e)[:200]))


def run(chk):
    # translator: regenerate the Lean table from the working tree, then re-check the theorems
    info, (sb, ss, rb, rs, srows, rrows) = reftables.generate()
    chk.extra_cov['translator'] = info
    chk.proof(MODULE, THEOREMS)
    if chk.tier == 'thorough':
        chk.leanchecker([MODULE])

    # search / independent oracle in Python on the live objects (gives the concrete witness
    # when a theorem over the regenerated table no longer checks)
    ndiff = nbad = 0
    for i in range(16):
        for j in range(3):
            for k in range(16):
                d = first_difference([reftables.canon(sb[i][j][k]), reftables.canon(ss[i][j][k])],
                                     [reftables.canon(rb[i][j][k]), reftables.canon(rs[i][j][k])])
                if d:
                    ndiff += 1
                    if ndiff <= 2:
                        chk.violation('impl-violation', 'shipped_eq_regenerated: pickle vs reader output',
                                      case={'type': i, 'era': j, 'zone': k, 'attribute': d[0]},
                                      observed='pickle has %r' % (d[1],), expected='reader gives %r' % (d[2],))
                msg = wellformed(sb[i][j][k], ss[i][j][k])
                if msg:
                    nbad += 1
                    if nbad <= 2:
                        chk.violation('impl-violation', 'all_wellformed: archetype not well-formed',
                                      case={'type': i, 'era': j, 'zone': k}, observed=msg,
                                      expected='>=2 positive layers, fractions in [0,1], positive scalars, 3x24 schedules')
    chk.direct('pickle-vs-reader(all attributes)', 768, 768,
               'canonical attribute tree (floats bit-exact) of all 768 BEMDef + 768 SchDef objects: unpickled '
               'vs regenerated by readDOE(serialize_output=False) from resources/DOERefBuildings',
               mismatches=ndiff, samples=[{'type': 3, 'era': 1, 'zone': 0, 'digest': hex(srows[3 * 48 + 16]['digest'])}])
    chk.direct('wellformed-oracle(live objects)', 768, 768,
               'well-formedness predicate evaluated in Python on every unpickled archetype (independent of the '
               'Lean table)', mismatches=nbad)
    # translator cross-check: the exported rows describe the live objects
    bad_tr = 0
    for idx in chk.rng.sample(range(768), 40):
        i, j, k = idx // 48, (idx // 16) % 3, idx % 16
        b = sb[i][j][k]
        r = srows[idx]
        want = [reftables.dbl(getattr(getattr(b, o), a)) for o, a in reftables.FRACS]
        if r['fracs'] != want or (b.bldtype, b.builtera, b.zonetype) != r['key'][:3]:
            bad_tr += 1
    if bad_tr:
        chk.corr_problems.append({'tie': 'translator-selfcheck', 'case': 'row order / field export',
                                  'impl': 'live objects', 'model': 'exported rows differ'})
    chk.direct('translator-selfcheck', 40, 40, 'exported rows re-read and compared with live objects '
               '(row order type x era x zone, exact doubles)', mismatches=bad_tr)

    # "can be simulated in hot and cold climates": executed, not proved
    if chk.tier == 'quick':
        picks = chk.rng.sample(range(768), 6)
        dts = 300
    else:
        picks = list(range(768))
        dts = 300
    jobs = []
    for idx in picks:
        i, j, k = idx // 48, (idx // 16) % 3, idx % 16
        for epw, month in (HOT, COLD):
            jobs.append((core.REPO, i, j, k, epw, month, dts))
    with multiprocessing.Pool(min(16, len(jobs))) as pool:
        res = pool.map(simulate_one, jobs, chunksize=4)
    fails = [r for r in res if r]
    for r in fails[:3]:
        chk.violation('impl-violation', 'archetype cannot be simulated',
                      case={'type': r[0], 'era': r[1], 'zone': r[2], 'epw': r[3]}, observed=r[4],
                      expected='1-day simulation completes with 24 finite records')
    chk.direct('simulate-each-archetype(hot,cold)', len(jobs), len(jobs),
               'one-day simulation of single-archetype stocks in Singapore (July) and Toronto (January); '
               'quick tier: 6 random archetypes, thorough: all 768; exploration inside a proof-level check',
               mismatches=len(fails))
    chk.extra_cov['exhaustive'] = chk.tier == 'thorough'
    chk.assumptions.append('the extractor harness/extract/reftables.py is the tie (translator route): it is trusted to '
                           'export what the live objects contain; SHA-256 digests stand for the attributes that are '
                           'not exported structurally')
    chk.assumptions.append('"can be simulated without error" quantifies over program runs: executed, not proved')
