"""C19 - shipped reference library equals its source tables and is usable.

Ties: the regenerated Lean table (attribute values of pickle and reader output, `decide +kernel`), the Python search for
the first differing attribute, well-formedness on live objects, labels, selection by name, per-archetype simulations;
and - `object_graph_ties`, helpers in harness/t4_util.py - what lies below the attribute values:
  * the file the reader itself writes (its serialisation code, output redirected) vs the shipped file, byte for byte
    (recorded; pickle protocol identified),
  * the OBJECT GRAPH of the unpickled library vs the reader output: side-by-side walk, every mutable object named by the
    position of its first visit, so that which archetypes hold one and the same Element / Material / layer list /
    schedule week / day row is compared, plus the aliasing partition by role,
  * the behavioural consequence: a family of edits and real Conduction steps applied to ONE archetype must change the
    same set of cells in both libraries; stocks of several archetypes and "customise one archetype, simulate another"
    runs must give bit-identical records with the shipped binary and with the binary the reader writes."""
import multiprocessing
import os

import core
import u4_util as U4
import uwgutil as U
from extract import reftables

MODULE = 'UwgVerif.Props.C19'
THEOREMS = ['Uwg.C19.shipped_eq_regenerated', 'Uwg.C19.shipped_complete', 'Uwg.C19.all_wellformed',
            'Uwg.C19.wellformed_solvable', 'Uwg.C19.shipped_solvable']
HOT = ('resources/SGP_Singapore.486980_IWEC.epw', 7)
COLD = ('tests/epw/CAN_ON_Toronto.716240_CWEC.epw', 1)


def first_difference(a, b, path=''):
    """First differing attribute path of two canonical trees."""
    if type(a) != type(b):
        return path, a, b
    if isinstance(a, dict):
        for k in sorted(set(a) | set(b)):
            if k not in a or k not in b:
                return path + '.' + k, a.get(k), b.get(k)
            d = first_difference(a[k], b[k], path + '.' + k)
            if d:
                return d
        return None
    if isinstance(a, list):
        if len(a) != len(b):
            return path + '.len', len(a), len(b)
        for i, (x, y) in enumerate(zip(a, b)):
            d = first_difference(x, y, '%s[%d]' % (path, i))
            if d:
                return d
        return None
    return None if a == b else (path, a, b)


def wellformed(b, s):
    """C19 well-formedness evaluated directly on live objects. Returns None or a message."""
    for nm in ('wall', 'roof', 'mass'):
        el = getattr(b, nm)
        if len(el.layer_thickness_lst) < 2:
            return '%s has %d layers' % (nm, len(el.layer_thickness_lst))
        if not (len(el.layer_thickness_lst) == len(el.layerThermalCond) == len(el.layerVolHeat)):
            return '%s layer lists differ in length' % nm
        if min(el.layer_thickness_lst) <= 0 or min(el.layerThermalCond) <= 0 or min(el.layerVolHeat) <= 0:
            return '%s has a non-positive thickness / conductivity / heat capacity' % nm
    for o, a in reftables.FRACS:
        v = getattr(getattr(b, o), a)
        if not (0.0 <= v <= 1.0):
            return '%s.%s = %r outside [0,1]' % (o, a, v)
    for o, a in reftables.POSITIVES:
        v = getattr(getattr(b, o), a)
        if not v > 0:
            return '%s.%s = %r not positive' % (o, a, v)
    for nm in reftables.SCHED:
        tab = getattr(s, nm)
        if len(tab) != 3 or any(len(r) != 24 for r in tab):
            return 'schedule %s is not 3 x 24' % nm
    return None


ZONES18 = ('1A', '1B', '2A', '2B', '3A', '3B-CA', '3B', '3C', '4A', '4B', '4C', '5A', '5B', '5C', '6A', '6B',
           '7', '8')


def selection_by_name(chk, sb):
    names = []
    for i in range(16):
        for j in range(3):
            names.append((sb[i][j][0].bldtype, sb[i][j][0].builtera))
    by_label = {}
    for i in range(16):
        for j in range(3):
            for k in range(16):
                c = sb[i][j][k]
                by_label[(c.bldtype, c.builtera, c.zonetype)] = c

    def strip(tree):
        return {k: v for k, v in tree.items() if k not in ('frac', 'fl_area')}
    bad = n = 0
    for z in ZONES18:
        zz = {'1B': '1A', '5C': '5B'}.get(z, z)
        case = {'zone': z, 'bld': 'all 48 (type, era) labels of the pickle, 1/48 each'}
        try:
            with core.quiet():
                m = U.new_model(nday=1, autosize=False)
                m.bld = [(t, e, 1.0 / 48) for t, e in names]
                m.zone = z
                m.generate()
        except Exception as e:  # noqa: BLE001
            bad += 1
            if bad <= 2:
                chk.violation('impl-violation', 'selection by name', case=case,
                              observed='%s: %s' % (type(e).__name__, str(e)[:300]),
                              expected='every (type, era) label of the shipped library can be requested')
            continue
        got = {(b.bldtype, b.builtera): b for b in m.BEM}
        for t, e in names:
            n += 1
            b = got.get((t, e))
            want = by_label.get((t, e, zz))
            msg = None
            if b is None:
                msg = 'no archetype simulated for %s %s' % (t, e)
            elif want is None:
                msg = 'the pickle holds no cell labelled %s %s %s' % (t, e, zz)
            elif b.zonetype != zz:
                msg = 'the archetype handed out for %s %s is labelled zone %r' % (t, e, b.zonetype)
            else:
                d = first_difference(strip(reftables.canon(b)), strip(reftables.canon(want)))
                if d:
                    msg = 'the archetype handed out for %s %s differs from the pickle cell of that label at %s: ' \
                          '%r vs %r' % (t, e, d[0], d[1], d[2])
            if msg:
                bad += 1
                if bad <= 2:
                    chk.violation('impl-violation', 'selection by name', case=dict(case, type=t, era=e),
                                  observed=msg, expected='the archetype labelled (%s, %s, %s)' % (t, e, zz))
    return bad, n


def simulate_one(args):
    repo, i, j, k, epw, month, dtsim = args
    os.environ['UWG_REPO'] = repo
    core.REPO = repo
    try:
        u = U.uwg_mod()
        from uwg.utilities import REF_BLDTYPE, REF_BUILTERA, REF_ZONETYPE
        import tempfile
        with core.quiet():
            m = U.new_model(epw=epw, outdir=(os.environ.get('VERIF_WORK_TMP') or tempfile.gettempdir()), outname='c19_%d.epw' % os.getpid(),
                            nday=1, dtsim=dtsim, month=month, day=1,
                            bld=[(REF_BLDTYPE[i], REF_BUILTERA[j], 1.0)], zone=REF_ZONETYPE[k])
            m.generate()
            m.simulate()
        recs = U.records(m)
        if len(recs) != 24 or any(r is None for r in recs):
            return (i, j, k, epw, 'incomplete records')
        import math
        for r in recs:
            if not all(math.isfinite(float(x)) for x in r):
                return (i, j, k, epw, 'non-finite record %s' % (r,))
        return None
    except Exception as e:  # noqa
        return (i, j, k, epw, '%s: %s' % (type(e).__name__, str(e)[:200]))


def simulate_climate(args):
    """(pool worker) one archetype alone, one day, under a member of the climate family of harness/v4_util.py laid over
    the rural file (kind None: the file as shipped); generate, simulate, write. -> JSON-able dict: error (or None), the
    HVAC branches its BEMCalc calls took, hours with a completely dry / saturated canyon, canyon temperature range"""
    repo, i, j, k, src, month, day, kind, dtsim = args
    os.environ['UWG_REPO'] = repo
    core.REPO = repo
    import math
    import tempfile
    import s1_util as S
    import v4_util as V4
    out = {'cell': [i, j, k], 'climate': kind or 'as shipped', 'epw': src, 'month': month, 'day': day, 'dtsim': dtsim,
           'error': None, 'branches': {}, 'dry_hours': 0, 'saturated_hours': 0}
    tmp = None
    u = U.uwg_mod()
    import uwg.building as B
    orig = B.Building.__dict__['BEMCalc']

    def bemcalc(self, *a, **kw):
        r = orig(self, *a, **kw)
        b = V4.hvac_branch(self)
        out['branches'][b] = out['branches'].get(b, 0) + 1
        return r
    try:
        from uwg.utilities import REF_BLDTYPE, REF_BUILTERA, REF_ZONETYPE
        out['labels'] = [REF_BLDTYPE[i], REF_BUILTERA[j], REF_ZONETYPE[k]]
        epw = U.rp(src)
        if kind:
            tmp = os.path.join((os.environ.get('VERIF_WORK_TMP') or tempfile.gettempdir()), 'c19_climate_%d.epw' % os.getpid())
            S.save_epw(V4.climate_rows(S.load_epw(epw), kind, month, day), tmp)
            epw = tmp
        B.Building.BEMCalc = bemcalc
        with core.quiet():
            m = U.new_model(epw=epw, outdir=(os.environ.get('VERIF_WORK_TMP') or tempfile.gettempdir()), outname='c19c_%d.epw' % os.getpid(), nday=1,
                            dtsim=dtsim, month=month, day=day, bld=[(REF_BLDTYPE[i], REF_BUILTERA[j], 1.0)],
                            zone=REF_ZONETYPE[k])
            m.generate()
            b = m.BEM[0].building
            out['rated'] = {'coolcap': b.coolcap, 'heat_cap': b.heat_cap}
            m.simulate()
            m.write_epw()
        recs = U.records(m)
        if len(recs) != 24 or any(r is None for r in recs):
            out['error'] = 'incomplete records'
        elif not all(math.isfinite(float(x)) for r in recs for x in r):
            out['error'] = 'non-finite record'
        elif not os.path.exists(m.new_epw_path):
            out['error'] = 'no file written'
        out['dry_hours'] = sum(1 for x in m.UCMData if x is not None and x.canHum == 0.0)
        out['saturated_hours'] = sum(1 for x in m.UCMData if x is not None and x.canRHum >= 100.0)
        ts = [x.canTemp - 273.15 for x in m.UCMData if x is not None]
        out['canyon_C'] = [round(min(ts), 1), round(max(ts), 1)] if ts else None
    except Exception as e:  # noqa: BLE001 - "without error" is the statement
        import traceback
        tb = traceback.extract_tb(e.__traceback__)[-1]
        out['error'] = '%s: %s [%s:%s]' % (type(e).__name__, str(e).split('\n')[0][:200], os.path.basename(tb.filename),
                                          tb.lineno)
    finally:
        B.Building.BEMCalc = orig
        if tmp and os.path.exists(tmp):
            os.remove(tmp)
    return out


def climate_jobs(chk, sb):
    """archetype x climate jobs: every member of the hot / cold climate families, archetypes drawn at random and STEERED
    to where a rated capacity binds (cold file x the archetypes with the smallest heating capacity - sized for warm zones;
    hot file x the smallest cooling capacities)"""
    import v4_util as V4
    rng = chk.rng
    quick = chk.tier == 'quick'
    cells = [(i, j, k) for i in range(16) for j in range(3) for k in range(16)]
    by_heat = sorted(cells, key=lambda c: sb[c[0]][c[1]][c[2]].building.heat_cap)
    by_cool = sorted(cells, key=lambda c: sb[c[0]][c[1]][c[2]].building.coolcap)

    def steered(lst, n):
        # the smallest capacities, at most three per building type
        out, seen = [], {}
        for c in lst:
            if seen.get(c[0], 0) < 3:
                seen[c[0]] = seen.get(c[0], 0) + 1
                out.append(c)
            if len(out) >= n:
                break
        return out
    weak_heat, weak_cool = steered(by_heat, 40), steered(by_cool, 40)
    jobs = []
    per = 1 if quick else 24
    for n, (kind, (hc, _f)) in enumerate(V4.CLIMATES.items()):
        src, month = (HOT[0], HOT[1]) if hc == 'hot' else (COLD[0], COLD[1])
        weak = weak_cool if hc == 'hot' else weak_heat
        for r in range(per):
            c = rng.choice(weak[:12]) if (r + n) % 2 == 0 else rng.choice(cells)
            jobs.append((core.REPO, c[0], c[1], c[2], src, month, 1, kind, V4.CLIMATE_DTSIM.get(kind, 300)))
    # the files as shipped, archetypes whose rated capacity binds there
    for r in range(2 if quick else 40):
        c = weak_heat[r % len(weak_heat)] if not quick else rng.choice(weak_heat[:12])
        jobs.append((core.REPO, c[0], c[1], c[2], COLD[0], COLD[1], 1, None, 300))
        c = weak_cool[r % len(weak_cool)] if not quick else rng.choice(weak_cool[:12])
        jobs.append((core.REPO, c[0], c[1], c[2], HOT[0], HOT[1], 1, None, 300))
    if not quick:
        # hurricane-force wind needs a shorter time step (at dtsim 300 the model's own fail-stop fires from ~25 m/s on)
        for c in rng.sample(cells, 6):
            jobs.append((core.REPO, c[0], c[1], c[2], COLD[0], COLD[1], 1, V4.STORM, 100))
    return jobs


def climate_retries(jobs, res):
    """the model's own fail-stop (`FATAL ERROR ... try increasing the simulation timesteps per hour`) in a member of the
    climate family at dtsim > 100: the same job at dtsim 100, as the message asks (DESIGN.md section 10: the property does
    not fix the time step).  Runs on the files as shipped are never retried."""
    return [(n, j[:8] + (100,)) for n, (j, r) in enumerate(zip(jobs, res))
            if r['error'] and 'FATAL ERROR' in r['error'] and j[7] is not None and j[8] > 100]


def climate_verdicts(chk, jobs, res, retried=()):
    import v4_util as V4
    if retried:
        chk.measurements['climate_family_runs_stopped_by_the_models_own_fail_stop_at_dtsim_300'] = [
            {'archetype': old['labels'], 'climate': old['climate'], 'rural file': old['epw'], 'at dtsim %s' % old['dtsim']:
             old['error'], 'at dtsim 100': new['error'] or 'completes'} for old, new in retried]
        chk.notes.append('%d run(s) of the climate family were stopped by the model\'s own fail-stop (FATAL ERROR, "try '
                         'increasing the simulation timesteps per hour") and were repeated at dtsim 100 as the message asks: '
                         'see measurements (recorded, not a verdict unless the repeated run fails too)' % len(retried))
    fails = [r for r in res if r['error']]
    for r in fails[:3]:
        chk.violation('impl-violation', 'archetype cannot be simulated alone in a %s climate' % (
            V4.CLIMATES[r['climate']][0] if r['climate'] in V4.CLIMATES else 'hot / cold'),
                      case={'archetype (type, era, zone index)': r['cell'], 'labels': r.get('labels'),
                            'rural file': r['epw'], 'climate laid over the simulated day': r['climate'],
                            'start': [r['month'], r['day']], 'dtsim': r['dtsim'], 'rated capacities W/m2': r.get('rated'),
                            'HVAC branches taken before the failure': r['branches']},
                      observed=r['error'], expected='generate(); simulate(); write_epw() complete: 24 finite hourly records')
    br = {}
    for r in res:
        br['climate:' + r['climate']] = br.get('climate:' + r['climate'], 0) + 1
        for b, v in r['branches'].items():
            br['hvac:' + b] = br.get('hvac:' + b, 0) + v
        if r['dry_hours']:
            br['canyon completely dry (humidity 0) at a record'] = br.get('canyon completely dry (humidity 0) at a record', 0) + r['dry_hours']
        if r['saturated_hours']:
            br['canyon saturated at a record'] = br.get('canyon saturated at a record', 0) + r['saturated_hours']
    need = ['hvac:heating/at-capacity', 'hvac:cooling/at-capacity', 'hvac:heating', 'hvac:cooling', 'hvac:idle',
            'canyon completely dry (humidity 0) at a record', 'canyon saturated at a record']
    missing = [k for k in need if not br.get(k)]
    if missing and not fails:
        raise core.Infra('climate family of C19 no longer reaches: %s (%s)' % (missing, br))
    ts = [r['canyon_C'] for r in res if r.get('canyon_C')]
    if ts:
        chk.measurements['climate_family_canyon_temperature_range_C'] = [min(t[0] for t in ts), max(t[1] for t in ts)]
    chk.direct('simulate-in-climate-families(hot, cold; capacity-bound archetypes)', len(jobs), len(jobs),
               '"can be simulated in hot and cold climates without error" with the climates as FAMILIES: legal rural rows at '
               'the edges of what the EPW data dictionary allows, laid over the simulated day of the Singapore (hot) / '
               'Toronto (cold) file - %s - and the files as shipped; archetypes drawn at random and steered to where a rated '
               'capacity binds (cold file x the smallest heating capacities of the library, i.e. archetypes sized for warm '
               'zones; hot file x the smallest cooling capacities). Every run: generate, simulate, write_epw complete with 24 '
               'finite records. Demanded of the battery (else infrastructure error): capacity-limited and unlimited heating '
               'and cooling and the idle branch of BEMCalc all taken, a completely dry (humidity exactly 0) and a saturated '
               'canyon recorded. quick: one archetype per climate + 4 capacity-bound runs; thorough: 24 per climate + 80 + '
               'hurricane-force wind at dtsim 100. Time step 300 s, the windy members at %s s: with sustained wind >= 15 m/s the '
               'model\'s own fail-stop fires at dtsim 300 for some archetypes (recorded finding, see harness/v4_util.py); a '
               'run of the family stopped by that fail-stop is repeated once at dtsim 100 and recorded'
               % ('; '.join(V4.CLIMATES), V4.CLIMATE_DTSIM), mismatches=len(fails), branches=br)


def _name(path):
    return path.replace('lib[0]', 'refBEM', 1).replace('lib[1]', 'Schedule', 1)


def object_graph_ties(chk, sb, ss):
    """"exactly what the reader produces" below the attribute values: the object graph (which archetypes hold one
    and the same mutable sub-object) of the unpickled library vs the reader's output, the file the reader itself
    writes vs the shipped file, and the observable consequence - an edit / a step made through one archetype reaches
    the same set of archetypes in both libraries, and stocks simulate identically with either binary."""
    import pickle
    import t4_util as T
    u = U.uwg_mod()
    import uwg.readDOE as R
    from uwg.utilities import REF_ZONETYPE
    rng = chk.rng
    quick = chk.tier == 'quick'
    work = chk.work()

    # --- the reader's own file vs the shipped file
    shipped_bytes = open(u.UWG.REFDOE_PATH, 'rb').read()
    fb, fs = u.UWG.load_refDOE()          # a fresh copy: the operations below change it
    rpath, (rb, rs), how = T.reader_binary(R, os.path.join(work, 'reader_binary'))
    reader_bytes = open(rpath, 'rb').read()
    if open(u.UWG.REFDOE_PATH, 'rb').read() != shipped_bytes:
        # the reader found another way to its refdata directory and wrote over the file under test: put it back
        with open(u.UWG.REFDOE_PATH, 'wb') as f:
            f.write(shipped_bytes)
        chk.notes.append('readDOE(serialize_output=True) wrote into the tree under test although DIR_CURR was '
                         'redirected; uwg/refdata/readDOE.pkl restored from the bytes read before the call')
    proto = [p for p in range(0, pickle.HIGHEST_PROTOCOL + 1)
             if pickle.dumps(rb, p) + pickle.dumps(rs, p) == reader_bytes]
    off = T.first_byte_difference(shipped_bytes, reader_bytes)
    chk.measurements['reader_binary'] = {
        'written_by': how, 'pickle_protocol(s) reproducing the file the reader writes': proto,
        'bytes': len(reader_bytes), 'shipped_bytes': len(shipped_bytes),
        'byte_identical_to_shipped': off is None, 'first_differing_offset': off,
        're-serialising the unpickled shipped library (protocol 1, two dumps) gives the shipped file':
            pickle.dumps(fb, 1) + pickle.dumps(fs, 1) == shipped_bytes}

    # --- object graph, canonical numbering by first visit
    diffs, gstats = T.graph_differences([fb, fs], [rb, rs], root='lib', limit=200)
    by_kind = {}
    for d in diffs:
        by_kind[d['kind']] = by_kind.get(d['kind'], 0) + 1
    for d in diffs[:2]:
        chk.violation('impl-violation', 'object graph: pickle vs reader output',
                      case={'position': _name(d['path']), 'difference': d['kind'],
                            'reader binary vs shipped binary': 'byte identical' if off is None else
                            'first differing byte at offset %d (sizes %d vs %d)' % (
                                off, len(reader_bytes), len(shipped_bytes))},
                      observed={'shipped library holds': _name(str(d['shipped'])),
                                'reader output holds': _name(str(d['reader']))},
                      expected='the same value, or - for a mutable object - the same first-visit name on both sides: '
                               'an object of its own in both libraries, or in both the object already met at the '
                               'same earlier position')
    if off is not None and not diffs:
        chk.notes.append('the file the reader writes differs from the shipped file at byte %d (sizes %d / %d) although '
                         'the object graphs are equal: an encoding difference only (pickle protocol %s, string '
                         'memoisation); recorded, not a verdict' % (off, len(reader_bytes), len(shipped_bytes), proto))
    chk.direct('object-graph(pickle vs reader: values + sharing)', gstats['nodes'] + gstats['shared_positions'],
               gstats['nodes'], 'side-by-side depth-first walk of [refBEM, Schedule] as unpickled from '
               'uwg/refdata/readDOE.pkl and as returned by the reader (the call that also writes its own binary, output '
               'redirected to a scratch directory; byte comparison with the shipped file recorded): every mutable '
               'object (BEMDef, Building, Element, Material, SchDef, every list) is named by the position of its first '
               'visit; at every position both sides must hold equal leaves (floats bit-exact, types equal) or objects '
               'of the same class and shape with the SAME first-visit name - so the aliasing of Elements, Materials, '
               'layer lists, schedule weeks and day rows between archetypes is compared, not only the values',
               mismatches=len(diffs), branches=dict(gstats, **{'diff:' + k: v for k, v in by_kind.items()}))

    # --- who shares what, by role
    ga, gb = T.alias_partition(fb, fs), T.alias_partition(rb, rs)
    pdiff = T.partition_difference(ga, gb)
    sa, sr = T.partition_summary(ga), T.partition_summary(gb)
    chk.measurements['aliasing_partition'] = {'shipped': sa, 'reader': sr}
    for d in pdiff[:2]:
        chk.violation('impl-violation', 'aliasing partition: who shares which sub-object',
                      case={'group': d['group'], 'slot (cell, role, ...)': d['slot']},
                      observed={'shipped library': d['shipped'], 'reader output': d['reader']},
                      expected='the same set of slots holds one object in both libraries')
    nslots = sum(v['slots'] for v in sa.values())
    chk.direct('aliasing-partition(elements, materials, layer lists, weeks, day rows)', nslots,
               sum(v['objects'] for v in sa.values()),
               'for every slot of the 768 cells (building; wall / roof / mass Element; each entry of material_lst; the '
               'five per-layer lists of each Element; the 7 weekly schedules; their 3 day rows) the set of slots that '
               'hold the very same object, shipped vs reader: the partitions must be equal (distinct objects in the '
               'shipped library: %s)' % ', '.join('%s %d' % (k, v['objects']) for k, v in sa.items()),
               mismatches=len(pdiff), branches={k: v['held_by_several_slots'] for k, v in sa.items()})

    # --- behaviour: an edit / a step through ONE archetype reaches the same archetypes in both libraries
    ops, fam = T.reach_ops(rng, fb, fs, 1 if quick else 12, 3 if quick else 16)
    res = T.reach_sets(ops, {'shipped': (fb, fs), 'reader': (rb, rs)})
    rbad = 0
    sizes = {}
    for nop, (op, row) in enumerate(res):
        key = '%s->%s' % (op[1].split(':')[0], len(row['shipped']) if isinstance(row['shipped'], list) else 'err')
        sizes[key] = sizes.get(key, 0) + 1
        if row['shipped'] != row['reader']:
            rbad += 1
            if rbad <= 2:
                def show(v):
                    return v if not isinstance(v, list) else {'cells changed': len(v), 'first': [list(c) for c in v[:5]]}
                b = fb[op[0][0]][op[0][1]][op[0][2]]
                chk.violation('impl-violation', 'reach set: an operation on one archetype changes the same archetypes',
                              case={'archetype (type, era, zone index)': list(op[0]),
                                    'labels': [b.bldtype, b.builtera, b.zonetype], 'operation': op[1],
                                    'operations applied before (same sequence in both libraries)': nop},
                              observed={'shipped library': show(row['shipped']), 'reader output': show(row['reader'])},
                              expected='the same set of cells of the 16 x 3 x 16 matrix changes in both libraries')
    chk.direct('reach-sets(edit / step one archetype, shipped vs reader)', len(res), len(res),
               'the same sequence of operations applied to a freshly unpickled library and to the reader output; after '
               'each operation the cells whose content changed (complete value digest per cell) must be the same set. '
               'Archetypes: one of every construction family of the library (%s) + random ones; operations: real '
               'Conduction step (the call urbflux makes), in-place edit and replacement of layerTemp, albedo / '
               'vegcoverage / layer thickness / material conductivity for wall, roof and mass; the overrides '
               '_compute_BEM writes into selected archetypes (glazing_ratio, shgc, floor_height, frac), cop; for each '
               'of the 7 schedules: replacing a day row, editing one hour in place, replacing the week; q_elec'
               % ', '.join('%s x%s' % kv for kv in fam.items()), mismatches=rbad, branches=sizes)

    # --- behaviour: stocks simulated with the shipped binary and with the binary the reader writes
    jobs, labels = [], []
    pristine = u.UWG.load_refDOE()[0]
    for kind, stock, k in T.twin_stocks(rng, pristine, 4 if quick else 25):
        epw, month = HOT if rng.random() < 0.5 else COLD
        labels.append({'kind': kind, 'bld': [list(s) for s in stock], 'zone': REF_ZONETYPE[k], 'epw': epw})
        for lib in (None, rpath):
            jobs.append((core.REPO, lib, stock, REF_ZONETYPE[k], epw, month, 2, []))
    from uwg.utilities import REF_BLDTYPE, REF_BUILTERA
    for n in range(3 if quick else 16):
        # customise one archetype of the freshly loaded library, then simulate ANOTHER era / zone of the same type
        i = rng.randrange(16)
        x = (i, rng.randrange(3), rng.randrange(16))
        y = (i, rng.randrange(3), rng.randrange(16))
        if x == y:
            y = (i, (x[1] + 1) % 3, x[2])
        if n % 3 == 2:
            edits = [(x, 'step:%s.Conduction' % r, r) for r in T.ROLES for _ in range(12)]
            what = 'twelve Conduction steps of wall, roof and mass'
        else:
            edits = [(x, 'replace-row:%s[%d]' % (nm, d), nm) for nm in ('elec', 'light', 'occ') for d in range(3)]
            what = 'the three day rows of elec, light and occ replaced'
        epw, month = HOT if rng.random() < 0.5 else COLD
        labels.append({'kind': 'customise %s (%s), simulate %s alone' % (list(x), what, list(y)),
                       'bld': [[REF_BLDTYPE[y[0]], REF_BUILTERA[y[1]], 1.0]], 'zone': REF_ZONETYPE[y[2]], 'epw': epw})
        for lib in (None, rpath):
            jobs.append((core.REPO, lib, [(REF_BLDTYPE[y[0]], REF_BUILTERA[y[1]], 1.0)], REF_ZONETYPE[y[2]],
                         epw, month, 2, edits))
    with multiprocessing.Pool(min(16, len(jobs))) as pool:
        out = pool.map(T.sim_with_library, jobs, chunksize=1)
    sbad = 0
    for n, lab in enumerate(labels):
        a, b = out[2 * n], out[2 * n + 1]
        if a != b:
            sbad += 1
            if sbad <= 2:
                if a[0] == 'ok' and b[0] == 'ok':
                    h = next(i for i, (p, q) in enumerate(zip(a[1], b[1])) if p != q)
                    obs = {'first differing hour': h, 'canTemp with the shipped binary': a[1][h][0],
                           'canTemp with the binary the reader writes': b[1][h][0],
                           'max |d canTemp| K': max(abs(float(p[0]) - float(q[0])) for p, q in zip(a[1], b[1]))}
                else:
                    obs = {'shipped binary': a[0] if a[0] == 'ok' else a[1], 'reader binary': b[0] if b[0] == 'ok' else b[1]}
                chk.violation('impl-violation', 'simulation with the shipped binary vs the binary the reader writes',
                              case=lab, observed=obs, expected='bit-identical hourly records (1 day, dtsim 300)')
    chk.direct('simulate(shipped binary vs binary written by the reader)', len(labels), len(labels),
               'one-day simulations (Singapore July / Toronto January) with UWG.load_refDOE reading the shipped file and '
               'reading the file the reader has just written: stocks of several archetypes that could share state '
               '(eras of one type, types of one construction family, mixed) and single archetypes simulated after '
               'another era / zone of the same type was customised in the loaded library (day rows replaced; elements '
               'stepped): hourly records bit-identical', mismatches=sbad)


# ------------------------------------------------------------------------------ circumstances (round 4)
_TRUTH = {}


def truth():
    """Once per process, through routes that do not pass through any model: the shipped binary unpickled privately
    (never handed to the package), the reader's output, the `Zone` header rows of the source tables. -> dict with
    by_label: {(type, era, zone name of the table column): (canonical tree of the shipped cell, of the reader's cell)}"""
    if _TRUTH:
        return _TRUTH
    import pickle
    u = U.uwg_mod()
    import uwg.readDOE as R
    with open(u.UWG.REFDOE_PATH, 'rb') as f:
        sb = pickle.load(f)
        pickle.load(f)
    with core.quiet():
        rb, _rs = R.readDOE(serialize_output=False)
    headers = reftables.table_zone_headers()

    def strip(tree):
        return {k: v for k, v in tree.items() if k not in ('frac', 'fl_area')}
    by = {}
    for i in range(16):
        names = headers[(i + 1, 0)]
        for j in range(3):
            for k in range(16):
                c = sb[i][j][k]
                by[(c.bldtype, c.builtera, names[k])] = (strip(reftables.canon(c)), strip(reftables.canon(rb[i][j][k])),
                                                         (i, j, k))
    _TRUTH.update(by_label=by, strip=strip)
    return _TRUTH


def u4_after_generate(m, spec, sink, ctx):
    """what generate() hands out for (type, era, zone): the shipped cell of the table column headed by that zone, equal
    in every attribute to what the reader builds from that column"""
    if ctx.get('judged'):
        return                                  # (the second call comes after simulate-relevant state may have moved)
    ctx['judged'] = True
    t = truth()
    zone = {'1B': '1A', '5C': '5B'}.get(m.zone, m.zone)
    customs = {(d['bldtype'], d['builtera']) for d in spec['model'].get('ref_bem_vector') or []}
    over = [a for a in ('glzr', 'albroof', 'vegroof', 'shgc', 'albwall', 'flr_h') if getattr(m, a) is not None]
    for b in m.BEM:
        if (b.bldtype, b.builtera) in customs or over or m.autosize:
            continue
        key = (b.bldtype, b.builtera, zone)
        got = t['strip'](reftables.canon(b))
        msg = None
        if key not in t['by_label']:
            msg = 'no cell of the shipped library lies in a table column headed %r for %s / %s' % (zone, key[0], key[1])
        else:
            ship, read, pos = t['by_label'][key]
            d = first_difference(got, ship)
            if d:
                msg = 'zone %r: the archetype generate() hands out for %s / %s differs from the shipped cell %s of the ' \
                      'table column headed %r at %s: %r vs %r' % (m.zone, key[0], key[1], list(pos), zone, d[0], d[1], d[2])
            else:
                d = first_difference(got, read)
                if d:
                    msg = 'zone %r: the archetype handed out for %s / %s (shipped cell %s) differs from what the reader ' \
                          'builds from that table column at %s: shipped %r, reader %r' % (
                              m.zone, key[0], key[1], list(pos), d[0], d[1], d[2])
        sink('handed-out:%s' % zone, msg)
        sink('wellformed', wellformed(b, m.Sch[m.BEM.index(b)]))


def u4_final(m, spec, sink, ctx):
    import math
    recs = U.records(m)
    msg = None
    if any(r is None for r in recs):
        msg = 'incomplete records'
    elif not all(math.isfinite(float(x)) for r in recs for x in r):
        msg = 'non-finite record'
    sink('simulated', msg)


U4_HOOKS = U4.Hooks(after_generate=u4_after_generate, final=u4_final)


def library_digests():
    """per-cell value digests of a fresh load_refDOE() and of a fresh readDOE() (sha256 of the pickled cell)"""
    import hashlib
    import t4_util as T
    u = U.uwg_mod()
    import uwg.readDOE as R
    fb, fs = u.UWG.load_refDOE()
    with core.quiet():
        rb, rs = R.readDOE(serialize_output=False)

    def dig(lib):
        return {str(c): hashlib.sha256(v).hexdigest()[:16] for c, v in T.cell_digests(lib).items()}
    return {'shipped BEMDef': dig(fb), 'shipped SchDef': dig(fs), 'reader BEMDef': dig(rb), 'reader SchDef': dig(rs)}, \
        (fb, fs, rb, rs)


CHILD_DIGESTS = """
import json, u4_util
from props import c19
print(json.dumps(dict(c19.library_digests()[0], optimized=not __debug__)))
"""


def circumstance_ties(chk, quick):
    import concurrent.futures
    import generic as G
    work = chk.work()
    rng = chk.rng
    par_t, epw_t = U4.toronto()
    pool = concurrent.futures.ThreadPoolExecutor(max_workers=2)
    kids = [(opt, pool.submit(G.child_json, CHILD_DIGESTS, optimize=opt)) for opt in (False, True)]
    from uwg.utilities import REF_BLDTYPE, REF_BUILTERA
    wood = [('quickservicerestaurant', 'pst80', 0.3), ('smalloffice', 'pre80', 0.2), ('warehouse', 'new', 0.2),
            ('hospital', 'pst80', 0.3)]
    rnd = [(REF_BLDTYPE[rng.randrange(16)], REF_BUILTERA[j], f) for j, f in zip(range(3), (0.5, 0.25, 0.25))]
    scen = [U4.make_spec('zone 3B (Las Vegas column), wood-frame / steel-frame / metal / mass archetypes, singapore file',
                         month=7, day=1, nday=1, dtsim=300, zone='3B', bld=wood),
            U4.make_spec('zone 3B-CA (Los Angeles column), three eras, toronto file', epw=epw_t, param=par_t, month=1,
                         day=10, nday=1, dtsim=300, zone='3B-CA', bld=rnd),
            U4.make_spec('zone 1A, quickservicerestaurant pst80 (thin wood-frame insulation) + largeoffice', month=1, day=1,
                         nday=1, dtsim=300, zone='1A', bld=[('quickservicerestaurant', 'pst80', 0.6), ('largeoffice', 'new', 0.4)])]
    zones = [z for z in ZONES18 if z not in ('3B', '3B-CA', '1A')]
    for z in (rng.sample(zones, 2) if quick else zones):
        scen.append(U4.make_spec('zone %s, three random archetypes' % z, month=rng.choice([1, 7]), day=3, nday=1, dtsim=300,
                                 zone=z, bld=[(REF_BLDTYPE[rng.randrange(16)], REF_BUILTERA[rng.randrange(3)], f)
                                              for f in (0.4, 0.35, 0.25)]))
    counts, nbad, _ = U4.live_battery(
        chk, 'C19', U4_HOOKS, scen, U4.others_default(work), 'shipped library = reader output, as handed out and simulated',
        full=1 if quick else 3, required=('handed-out', 'wellformed', 'simulated'))
    # the library itself under the circumstances: fresh loads / fresh reader runs, digests per cell
    plain, (fb, fs, rb, rs) = library_digests()
    br, bad = {}, []

    def compare(circ, got, names=None):
        for name in names or plain:
            br['%s:%s' % (circ, name)] = br.get('%s:%s' % (circ, name), 0) + 1
            if got[name] != plain[name]:
                cell = next(c for c in plain[name] if got[name].get(c) != plain[name][c])
                bad.append(({'circumstance': circ, 'library': name, 'first differing cell (type, era, zone index)': cell},
                            'the value digest of cell %s of the %s differs from the plain load / reader run' % (cell, name)))
    # 1. somebody looks at every object of both libraries
    objs = G.uwg_objects([fb, fs, rb, rs], limit=10 ** 6)
    for o in objs:
        U4.observe(o)
    import hashlib
    import t4_util as T
    after = {n: {str(c): hashlib.sha256(v).hexdigest()[:16] for c, v in T.cell_digests(lib).items()}
             for n, lib in (('shipped BEMDef', fb), ('shipped SchDef', fs), ('reader BEMDef', rb), ('reader SchDef', rs))}
    compare('rendered (%d objects: repr / str / ToString)' % len(objs), after)
    # 2. DEBUG logging while loading / reading; 5. after every model of the battery lived in this process
    with U4.debug_on():
        compare('DEBUG-logging, after the models of the battery lived in the process', library_digests()[0])
    # 6. the caller edits what it was handed: the next load / reader run is unaffected
    fb[3][1][0].building.coolcap = 12345.0
    fb[8][1][0].wall.layer_thickness_lst.append(0.5)
    fs[3][1][0].elec[0][0] = 99.0
    rb[0][0][4].zonetype = 'edited'
    rb[8][1][0].wall.material_lst[0].thermalcond = 99.0
    rs[0][0][0].cool[1][1] = 5.0
    compare("after the caller edited the objects an earlier load / reader run handed out", library_digests()[0])
    # 3. fresh interpreters, plain and -O
    for opt, fut in kids:
        rc, got, err = fut.result()
        if got is None:
            raise core.Infra('child interpreter for the library digests failed (rc %s): %s' % (rc, err[-300:]))
        if opt and not got.get('optimized'):
            raise core.Infra('python -O child did not run optimised')
        compare('fresh interpreter' + (' under python -O' if opt else ''), got)
    pool.shutdown()
    for case, msg in bad[:3]:
        chk.violation('impl-violation', 'reference library under circumstances that are no input (fresh load / reader run)',
                      case=case, observed=msg,
                      expected='load_refDOE() and readDOE() give the same 768 + 768 cells whoever looked at earlier copies, '
                               'whatever the logging level / interpreter mode is, whoever lived in the process before, '
                               'whatever the caller did with earlier copies')
    chk.direct('C19-circumstances(live runs + the library itself: observers, logging, -O, CLI, other models, caller data)',
               sum(counts.values()) + sum(br.values()), len(scen) + len(br),
               'oracle of the live runs = every archetype generate() hands out for (type, era, zone) is - attribute by '
               'attribute, floats bit-exact, frac / fl_area aside - the shipped cell lying in the table column whose '
               '`Zone` header (read from the csv tables, not from REF_ZONETYPE) names that zone, equals what the reader '
               'builds from that column (both taken once per process through routes that pass through no model), is '
               'well-formed, and simulates to complete finite records. Scenarios: zones 3B and 3B-CA (neighbouring '
               'columns whose names sort the other way round), wood-frame / steel-frame / metal-building archetypes, '
               'random zones (thorough: all 18): %s. %s. The library itself: per-cell value digests of a fresh '
               'load_refDOE() and a fresh readDOE() after every object of earlier copies was rendered, under DEBUG '
               'logging after all models of the battery lived in the process, after the caller edited earlier copies '
               '(attribute, in-place list edits), in a fresh interpreter and under python -O - always equal to the plain '
               'ones' % ('; '.join(s_['label'] for s_ in scen), U4.BATTERY_RULE),
               mismatches=nbad + len(bad), branches=dict(counts, **br))


def run(chk):
    chk.work()      # creates the scratch directory that the worker processes write into
    # translator: regenerate the Lean table from the working tree, then re-check the theorems
    info, (sb, ss, rb, rs, srows, rrows) = reftables.generate()
    chk.extra_cov['translator'] = info
    chk.proof(MODULE, THEOREMS)
    if chk.tier == 'thorough':
        chk.leanchecker([MODULE])

    # search / independent oracle in Python on the live objects (gives the concrete witness
    # when a theorem over the regenerated table no longer checks)
    ndiff = nbad = 0
    for i in range(16):
        for j in range(3):
            for k in range(16):
                d = first_difference([reftables.canon(sb[i][j][k]), reftables.canon(ss[i][j][k])],
                                     [reftables.canon(rb[i][j][k]), reftables.canon(rs[i][j][k])])
                if d:
                    ndiff += 1
                    if ndiff <= 2:
                        chk.violation('impl-violation', 'shipped_eq_regenerated: pickle vs reader output',
                                      case={'type': i, 'era': j, 'zone': k, 'attribute': d[0]},
                                      observed='pickle has %r' % (d[1],), expected='reader gives %r' % (d[2],))
                msg = wellformed(sb[i][j][k], ss[i][j][k])
                if msg:
                    nbad += 1
                    if nbad <= 2:
                        chk.violation('impl-violation', 'all_wellformed: archetype not well-formed',
                                      case={'type': i, 'era': j, 'zone': k}, observed=msg,
                                      expected='>=2 positive layers, fractions in [0,1], positive scalars, 3x24 schedules')
    chk.direct('pickle-vs-reader(all attributes)', 768, 768,
               'canonical attribute tree (floats bit-exact) of all 768 BEMDef + 768 SchDef objects: unpickled '
               'vs regenerated by readDOE(serialize_output=False) from resources/DOERefBuildings',
               mismatches=ndiff, samples=[{'type': 3, 'era': 1, 'zone': 0, 'digest': hex(srows[3 * 48 + 16]['digest'])}])
    chk.direct('wellformed-oracle(live objects)', 768, 768,
               'well-formedness predicate evaluated in Python on every unpickled archetype (independent of the '
               'Lean table)', mismatches=nbad)
    # translator cross-check: the exported rows describe the live objects
    bad_tr = 0
    for idx in chk.rng.sample(range(768), 40):
        i, j, k = idx // 48, (idx // 16) % 3, idx % 16
        b = sb[i][j][k]
        r = srows[idx]
        want = [reftables.dbl(getattr(getattr(b, o), a)) for o, a in reftables.FRACS]
        if r['fracs'] != want or (b.bldtype, b.builtera, b.zonetype) != r['key'][:3]:
            bad_tr += 1
    if bad_tr:
        chk.corr_problems.append({'tie': 'translator-selfcheck', 'case': 'row order / field export',
                                  'impl': 'live objects', 'model': 'exported rows differ'})
    chk.direct('translator-selfcheck', 40, 40, 'exported rows re-read and compared with live objects '
               '(row order type x era x zone, exact doubles)', mismatches=bad_tr)

    # which matrix position is which archetype: labels in the objects vs ordered constants vs table headers
    from uwg.utilities import REF_BLDTYPE, REF_BUILTERA, REF_ZONETYPE
    consts = (tuple(REF_BLDTYPE), tuple(REF_BUILTERA), tuple(REF_ZONETYPE))
    headers = reftables.table_zone_headers()
    lab = []
    for libname, (b_, s_) in (('shipped pickle', (sb, ss)), ('reader output', (rb, rs))):
        for cell, msg in reftables.label_problems(b_, s_, consts, headers):
            lab.append((libname, cell, msg))
    for libname, cell, msg in lab[:2]:
        chk.violation('impl-violation', 'labels: objects vs REF_* constants vs table headers',
                      case={'library': libname, 'cell(type, era, zone index)': cell}, observed=msg,
                      expected='position [i][j][k] holds the archetype labelled REF_BLDTYPE[i], REF_BUILTERA[j], '
                               'REF_ZONETYPE[k], and column k of every source table is headed REF_ZONETYPE[k]')
    chk.direct('labels(objects~constants~table headers)', 2 * 768 + len(headers), 2 * 768,
               'bldtype / builtera / zonetype text of all 768 BEMDef + 768 SchDef of the pickle and of the reader '
               'output vs the ordered constants REF_BLDTYPE / REF_BUILTERA / REF_ZONETYPE at their matrix '
               'position, and the `Zone` header row of the 16 source tables vs REF_ZONETYPE (order frozen in '
               'the pickle and in the tables vs order spelled in utilities.py)', mismatches=len(lab))

    # construction names of the tables vs the names the reader knows; Element objects held by several cells
    used, known = reftables.table_construction_names()
    unknown = {('%s %r' % k): v for k, v in used.items() if k[1] not in known[k[0]]}
    sharing = reftables.element_sharing(sb)
    chk.measurements['construction_names_in_tables_unknown_to_reader'] = unknown
    chk.measurements['elements_held_by_several_cells_of_the_pickle'] = [
        {'role': r, 'cells': n, 'first_cell': c, 'types': t} for r, n, c, t in sharing]
    if unknown or sharing:
        chk.notes.append(
            'FINDING (unchanged tree, recorded - not a verdict; pickle == reader output still holds): the tables '
            'name constructions the reader does not know (%s; reader knows %s): readDOE.py then falls through its '
            'if/elif chain and puts the wall / mass / roof OBJECT of the previous loop iteration into the archetype. '
            'Elements held by more than one cell of the shipped pickle: %s. So no stripmall or warehouse archetype '
            'carries the wall its table describes, and a stock with two eras of one of these types simulates two '
            'rows on one wall state (C07, C13 notes)' % (
                '; '.join('%s in BLD%s' % (k, v) for k, v in sorted(unknown.items())),
                {k: sorted(v) for k, v in known.items()},
                '; '.join('%s x%d from cell %s (%s)' % (r, n, c, '+'.join(t)) for r, n, c, t in sharing)))

    object_graph_ties(chk, sb, ss)

    # asking by NAME hands out the archetype of that name: every (type, era) of the pickle's own labels in one
    # stock, generate() under every one of the 18 zone names
    select_bad, nsel = selection_by_name(chk, sb)
    chk.direct('selection-by-name(48 archetypes x 18 zone names)', nsel, nsel,
               'public route: bld = all 48 (type, era) names as the pickle labels them (1/48 each), zone = each of '
               'the 18 zone names (1B, 5C -> 1A, 5B), generate(): 48 archetypes selected, each equal in every '
               'attribute (canonical tree, floats bit-exact; frac / fl_area aside) to the pristine pickle cell '
               'that carries the requested type, era and zone labels', mismatches=select_bad)

    circumstance_ties(chk, chk.tier == 'quick')

    # "can be simulated in hot and cold climates": executed, not proved
    if chk.tier == 'quick':
        picks = chk.rng.sample(range(768), 6)
        dts = 300
    else:
        picks = list(range(768))
        dts = 300
    jobs = []
    for idx in picks:
        i, j, k = idx // 48, (idx // 16) % 3, idx % 16
        for epw, month in (HOT, COLD):
            jobs.append((core.REPO, i, j, k, epw, month, dts))
    cjobs = climate_jobs(chk, sb)
    with multiprocessing.Pool(min(16, len(jobs) + len(cjobs))) as pool:
        a1 = pool.map_async(simulate_one, jobs, chunksize=4 if len(jobs) > 64 else 1)
        a2 = pool.map_async(simulate_climate, cjobs, chunksize=1)
        res, cres = a1.get(), a2.get()
        again = climate_retries(cjobs, cres)
        retried = []
        if again:
            for (n, job), new in zip(again, pool.map(simulate_climate, [j for _, j in again], chunksize=1)):
                retried.append((cres[n], new))
                cjobs[n], cres[n] = job, new
    climate_verdicts(chk, cjobs, cres, retried)
    fails = [r for r in res if r]
    for r in fails[:3]:
        chk.violation('impl-violation', 'archetype cannot be simulated',
                      case={'type': r[0], 'era': r[1], 'zone': r[2], 'epw': r[3]}, observed=r[4],
                      expected='1-day simulation completes with 24 finite records')
    chk.direct('simulate-each-archetype(hot,cold)', len(jobs), len(jobs),
               'one-day simulation of single-archetype stocks in Singapore (July) and Toronto (January); '
               'quick tier: 6 random archetypes, thorough: all 768; exploration inside a proof-level check',
               mismatches=len(fails))
    chk.extra_cov['exhaustive'] = chk.tier == 'thorough'
    chk.assumptions.append('the extractor harness/extract/reftables.py is the tie (translator route): it is trusted to '
                           'export what the live objects contain; SHA-256 digests stand for the attributes that are '
                           'not exported structurally')
    chk.assumptions.append('"can be simulated without error" quantifies over program runs: executed, not proved')
