"""C19 - shipped reference library equals its source tables and is usable."""
import multiprocessing
import os

import core
import uwgutil as U
from extract import reftables

MODULE = 'UwgVerif.Props.C19'
THEOREMS = ['Uwg.C19.shipped_eq_regenerated', 'Uwg.C19.shipped_complete', 'Uwg.C19.all_wellformed',
            'Uwg.C19.wellformed_solvable', 'Uwg.C19.shipped_solvable']
HOT = ('resources/SGP_Singapore.486980_IWEC.epw', 7)
COLD = ('tests/epw/CAN_ON_Toronto.716240_CWEC.epw', 1)


def first_difference(a, b, path=''):
    """First differing attribute path of two canonical trees."""
    if type(a) != type(b):
        return path, a, b
    if isinstance(a, dict):
        for k in sorted(set(a) | set(b)):
            if k not in a or k not in b:
                return path + '.' + k, a.get(k), b.get(k)
            d = first_difference(a[k], b[k], path + '.' + k)
            if d:
                return d
        return None
    if isinstance(a, list):
        if len(a) != len(b):
            return path + '.len', len(a), len(b)
        for i, (x, y) in enumerate(zip(a, b)):
            d = first_difference(x, y, '%s[%d]' % (path, i))
            if d:
                return d
        return None
    return None if a == b else (path, a, b)


def wellformed(b, s):
    """C19 well-formedness evaluated directly on live objects. Returns None or a message."""
    for nm in ('wall', 'roof', 'mass'):
        el = getattr(b, nm)
        if len(el.layer_thickness_lst) < 2:
            return '%s has %d layers' % (nm, len(el.layer_thickness_lst))
        if not (len(el.layer_thickness_lst) == len(el.layerThermalCond) == len(el.layerVolHeat)):
            return '%s layer lists differ in length' % nm
        if min(el.layer_thickness_lst) <= 0 or min(el.layerThermalCond) <= 0 or min(el.layerVolHeat) <= 0:
            return '%s has a non-positive thickness / conductivity / heat capacity' % nm
    for o, a in reftables.FRACS:
        v = getattr(getattr(b, o), a)
        if not (0.0 <= v <= 1.0):
            return '%s.%s = %r outside [0,1]' % (o, a, v)
    for o, a in reftables.POSITIVES:
        v = getattr(getattr(b, o), a)
        if not v > 0:
            return '%s.%s = %r not positive' % (o, a, v)
    for nm in reftables.SCHED:
        tab = getattr(s, nm)
        if len(tab) != 3 or any(len(r) != 24 for r in tab):
            return 'schedule %s is not 3 x 24' % nm
    return None


ZONES18 = ('1A', '1B', '2A', '2B', '3A', '3B-CA', '3B', '3C', '4A', '4B', '4C', '5A', '5B', '5C', '6A', '6B',
           '7', '8')


def selection_by_name(chk, sb):
    names = []
    for i in range(16):
        for j in range(3):
            names.append((sb[i][j][0].bldtype, sb[i][j][0].builtera))
    by_label = {}
    for i in range(16):
        for j in range(3):
            for k in range(16):
                c = sb[i][j][k]
                by_label[(c.bldtype, c.builtera, c.zonetype)] = c

    def strip(tree):
        return {k: v for k, v in tree.items() if k not in ('frac', 'fl_area')}
    bad = n = 0
    for z in ZONES18:
        zz = {'1B': '1A', '5C': '5B'}.get(z, z)
        case = {'zone': z, 'bld': 'all 48 (type, era) labels of the pickle, 1/48 each'}
        try:
            with core.quiet():
                m = U.new_model(nday=1, autosize=False)
                m.bld = [(t, e, 1.0 / 48) for t, e in names]
                m.zone = z
                m.generate()
        except Exception as e:  # noqa: BLE001
            bad += 1
            if bad <= 2:
                chk.violation('impl-violation', 'selection by name', case=case,
                              observed='%s: %s' % (type(e).__name__, str(e)[:300]),
                              expected='every (type, era) label of the shipped library can be requested')
            continue
        got = {(b.bldtype, b.builtera): b for b in m.BEM}
        for t, e in names:
            n += 1
            b = got.get((t, e))
            want = by_label.get((t, e, zz))
            msg = None
            if b is None:
                msg = 'no archetype simulated for %s %s' % (t, e)
            elif want is None:
                msg = 'the pickle holds no cell labelled %s %s %s' % (t, e, zz)
            elif b.zonetype != zz:
                msg = 'the archetype handed out for %s %s is labelled zone %r' % (t, e, b.zonetype)
            else:
                d = first_difference(strip(reftables.canon(b)), strip(reftables.canon(want)))
                if d:
                    msg = 'the archetype handed out for %s %s differs from the pickle cell of that label at %s: ' \
                          '%r vs %r' % (t, e, d[0], d[1], d[2])
            if msg:
                bad += 1
                if bad <= 2:
                    chk.violation('impl-violation', 'selection by name', case=dict(case, type=t, era=e),
                                  observed=msg, expected='the archetype labelled (%s, %s, %s)' % (t, e, zz))
    return bad, n


def simulate_one(args):
    repo, i, j, k, epw, month, dtsim = args
    os.environ['UWG_REPO'] = repo
    core.REPO = repo
    try:
        u = U.uwg_mod()
        from uwg.utilities import REF_BLDTYPE, REF_BUILTERA, REF_ZONETYPE
        import tempfile
        with core.quiet():
            m = U.new_model(epw=epw, outdir=tempfile.gettempdir(), outname='c19_%d.epw' % os.getpid(),
                            nday=1, dtsim=dtsim, month=month, day=1,
                            bld=[(REF_BLDTYPE[i], REF_BUILTERA[j], 1.0)], zone=REF_ZONETYPE[k])
            m.generate()
            m.simulate()
        recs = U.records(m)
        if len(recs) != 24 or any(r is None for r in recs):
            return (i, j, k, epw, 'incomplete records')
        import math
        for r in recs:
            if not all(math.isfinite(float(x)) for x in r):
                return (i, j, k, epw, 'non-finite record %s' % (r,))
        return None
    except Exception as e:  # noqa
        return (i, j, k, epw, '%s: %s' % (type(e).__name__, str(e)[:200]))


def run(chk):
    # translator: regenerate the Lean table from the working tree, then re-check the theorems
    info, (sb, ss, rb, rs, srows, rrows) = reftables.generate()
    chk.extra_cov['translator'] = info
    chk.proof(MODULE, THEOREMS)
    if chk.tier == 'thorough':
        chk.leanchecker([MODULE])

    # search / independent oracle in Python on the live objects (gives the concrete witness
    # when a theorem over the regenerated table no longer checks)
    ndiff = nbad = 0
    for i in range(16):
        for j in range(3):
            for k in range(16):
                d = first_difference([reftables.canon(sb[i][j][k]), reftables.canon(ss[i][j][k])],
                                     [reftables.canon(rb[i][j][k]), reftables.canon(rs[i][j][k])])
                if d:
                    ndiff += 1
                    if ndiff <= 2:
                        chk.violation('impl-violation', 'shipped_eq_regenerated: pickle vs reader output',
                                      case={'type': i, 'era': j, 'zone': k, 'attribute': d[0]},
                                      observed='pickle has %r' % (d[1],), expected='reader gives %r' % (d[2],))
                msg = wellformed(sb[i][j][k], ss[i][j][k])
                if msg:
                    nbad += 1
                    if nbad <= 2:
                        chk.violation('impl-violation', 'all_wellformed: archetype not well-formed',
                                      case={'type': i, 'era': j, 'zone': k}, observed=msg,
                                      expected='>=2 positive layers, fractions in [0,1], positive scalars, 3x24 schedules')
    chk.direct('pickle-vs-reader(all attributes)', 768, 768,
               'canonical attribute tree (floats bit-exact) of all 768 BEMDef + 768 SchDef objects: unpickled '
               'vs regenerated by readDOE(serialize_output=False) from resources/DOERefBuildings',
               mismatches=ndiff, samples=[{'type': 3, 'era': 1, 'zone': 0, 'digest': hex(srows[3 * 48 + 16]['digest'])}])
    chk.direct('wellformed-oracle(live objects)', 768, 768,
               'well-formedness predicate evaluated in Python on every unpickled archetype (independent of the '
               'Lean table)', mismatches=nbad)
    # translator cross-check: the exported rows describe the live objects
    bad_tr = 0
    for idx in chk.rng.sample(range(768), 40):
        i, j, k = idx // 48, (idx // 16) % 3, idx % 16
        b = sb[i][j][k]
        r = srows[idx]
        want = [reftables.dbl(getattr(getattr(b, o), a)) for o, a in reftables.FRACS]
        if r['fracs'] != want or (b.bldtype, b.builtera, b.zonetype) != r['key'][:3]:
            bad_tr += 1
    if bad_tr:
        chk.corr_problems.append({'tie': 'translator-selfcheck', 'case': 'row order / field export',
                                  'impl': 'live objects', 'model': 'exported rows differ'})
    chk.direct('translator-selfcheck', 40, 40, 'exported rows re-read and compared with live objects '
               '(row order type x era x zone, exact doubles)', mismatches=bad_tr)

    # which matrix position is which archetype: labels in the objects vs ordered constants vs table headers
    from uwg.utilities import REF_BLDTYPE, REF_BUILTERA, REF_ZONETYPE
    consts = (tuple(REF_BLDTYPE), tuple(REF_BUILTERA), tuple(REF_ZONETYPE))
    headers = reftables.table_zone_headers()
    lab = []
    for libname, (b_, s_) in (('shipped pickle', (sb, ss)), ('reader output', (rb, rs))):
        for cell, msg in reftables.label_problems(b_, s_, consts, headers):
            lab.append((libname, cell, msg))
    for libname, cell, msg in lab[:2]:
        chk.violation('impl-violation', 'labels: objects vs REF_* constants vs table headers',
                      case={'library': libname, 'cell(type, era, zone index)': cell}, observed=msg,
                      expected='position [i][j][k] holds the archetype labelled REF_BLDTYPE[i], REF_BUILTERA[j], '
                               'REF_ZONETYPE[k], and column k of every source table is headed REF_ZONETYPE[k]')
    chk.direct('labels(objects~constants~table headers)', 2 * 768 + len(headers), 2 * 768,
               'bldtype / builtera / zonetype text of all 768 BEMDef + 768 SchDef of the pickle and of the reader '
               'output vs the ordered constants REF_BLDTYPE / REF_BUILTERA / REF_ZONETYPE at their matrix '
               'position, and the `Zone` header row of the 16 source tables vs REF_ZONETYPE (order frozen in '
               'the pickle and in the tables vs order spelled in utilities.py)', mismatches=len(lab))

    # construction names of the tables vs the names the reader knows; Element objects held by several cells
    used, known = reftables.table_construction_names()
    unknown = {('%s %r' % k): v for k, v in used.items() if k[1] not in known[k[0]]}
    sharing = reftables.element_sharing(sb)
    chk.measurements['construction_names_in_tables_unknown_to_reader'] = unknown
    chk.measurements['elements_held_by_several_cells_of_the_pickle'] = [
        {'role': r, 'cells': n, 'first_cell': c, 'types': t} for r, n, c, t in sharing]
    if unknown or sharing:
        chk.notes.append(
            'FINDING (unchanged tree, recorded - not a verdict; pickle == reader output still holds): the tables '
            'name constructions the reader does not know (%s; reader knows %s): readDOE.py then falls through its '
            'if/elif chain and puts the wall / mass / roof OBJECT of the previous loop iteration into the archetype. '
            'Elements held by more than one cell of the shipped pickle: %s. So no stripmall or warehouse archetype '
            'carries the wall its table describes, and a stock with two eras of one of these types simulates two '
            'rows on one wall state (C07, C13 notes)' % (
                '; '.join('%s in BLD%s' % (k, v) for k, v in sorted(unknown.items())),
                {k: sorted(v) for k, v in known.items()},
                '; '.join('%s x%d from cell %s (%s)' % (r, n, c, '+'.join(t)) for r, n, c, t in sharing)))

    # asking by NAME hands out the archetype of that name: every (type, era) of the pickle's own labels in one
    # stock, generate() under every one of the 18 zone names
    select_bad, nsel = selection_by_name(chk, sb)
    chk.direct('selection-by-name(48 archetypes x 18 zone names)', nsel, nsel,
               'public route: bld = all 48 (type, era) names as the pickle labels them (1/48 each), zone = each of '
               'the 18 zone names (1B, 5C -> 1A, 5B), generate(): 48 archetypes selected, each equal in every '
               'attribute (canonical tree, floats bit-exact; frac / fl_area aside) to the pristine pickle cell '
               'that carries the requested type, era and zone labels', mismatches=select_bad)

    # "can be simulated in hot and cold climates": executed, not proved
    if chk.tier == 'quick':
        picks = chk.rng.sample(range(768), 6)
        dts = 300
    else:
        picks = list(range(768))
        dts = 300
    jobs = []
    for idx in picks:
        i, j, k = idx // 48, (idx // 16) % 3, idx % 16
        for epw, month in (HOT, COLD):
            jobs.append((core.REPO, i, j, k, epw, month, dts))
    with multiprocessing.Pool(min(16, len(jobs))) as pool:
        res = pool.map(simulate_one, jobs, chunksize=4)
    fails = [r for r in res if r]
    for r in fails[:3]:
        chk.violation('impl-violation', 'archetype cannot be simulated',
                      case={'type': r[0], 'era': r[1], 'zone': r[2], 'epw': r[3]}, observed=r[4],
                      expected='1-day simulation completes with 24 finite records')
    chk.direct('simulate-each-archetype(hot,cold)', len(jobs), len(jobs),
               'one-day simulation of single-archetype stocks in Singapore (July) and Toronto (January); '
               'quick tier: 6 random archetypes, thorough: all 768; exploration inside a proof-level check',
               mismatches=len(fails))
    chk.extra_cov['exhaustive'] = chk.tier == 'thorough'
    chk.assumptions.append('the extractor harness/extract/reftables.py is the tie (translator route): it is trusted to '
                           'export what the live objects contain; SHA-256 digests stand for the attributes that are '
                           'not exported structurally')
    chk.assumptions.append('"can be simulated without error" quantifies over program runs: executed, not proved')
