"""C17 - generate() forgets the object's past."""
import os

import core
import uwgutil as U

MODULE = 'UwgVerif.Props.C17'
THEOREMS = ['Uwg.C17.generate_forgets', 'Uwg.C17.generate_depends_on_params_only',
            'Uwg.C17.set_and_reset_forgotten', 'Uwg.C17.asis_history_dependent', 'Uwg.C17.run_append']

STOCK = [('largeoffice', 'pst80', 0.4), ('midriseapartment', 'pst80', 0.6)]
SEL = [(3, 1), (5, 1)]          # library (type, era) indices of STOCK, in library scan order
OVR = [0, 1000, 123, 777, 250]  # per-mille override values (0 and 1 included)


class Tracker(object):
    """Abstraction of a real UWG object to the toy machine's state."""

    def __init__(self, uwg, zi):
        self.zi = zi
        self.pristine = uwg.UWG.load_refDOE()[0]
        self.last = None

    def arch(self, m, k):
        i, j = SEL[k]
        p = self.pristine[i][j][self.zi]
        e = p if m._refBEM is None else m._refBEM[i][j][self.zi]
        glz = 1000 + k if e.building.glazing_ratio == p.building.glazing_ratio else \
            int(round(e.building.glazing_ratio * 1000))
        alb = 1500 + k if e.roof.albedo == p.roof.albedo else int(round(e.roof.albedo * 1000))
        dirty = (e.building.indoor_temp != p.building.indoor_temp or
                 e.building.indoor_hum != p.building.indoor_hum or
                 e.wall.layerTemp != p.wall.layerTemp or e.roof.layerTemp != p.roof.layerTemp or
                 e.mass.layerTemp != p.mass.layerTemp)
        return '%d,%d,%d' % (glz, alb, 1 if dirty else 0)

    def lib(self, m):
        return '(' + ' '.join(self.arch(m, k) for k in range(len(SEL))) + ')'

    def obj(self, m):
        return self.lib(m) + ('B' if hasattr(m, 'BEM') else '-') + ('L' + self.last if self.last else 'L-')


def apply_op(m, tr, op):
    kind = op[0]
    if kind == 'gen':
        with core.quiet():
            m.generate()
    elif kind == 'sim':
        if not hasattr(m, 'simTime'):
            try:
                m.simulate()
            except AttributeError:
                return
            raise AssertionError('simulate before generate did not raise')
        start = tr.lib(m)
        with core.quiet():
            m.simulate()
        tr.last = start
    elif kind == 'setg':
        m.glzr = op[1] / 1000.0
    elif kind == 'unsetg':
        m.glzr = None
    elif kind == 'seta':
        m.albroof = op[1] / 1000.0
    elif kind == 'unseta':
        m.albroof = None
    elif kind == 'setp':           # other parameters (not part of the toy abstraction)
        val = op[2]
        if op[1] == 'epw_path':
            val = EPWS[val]
        setattr(m, op[1], val)


def op_text(i, op):
    return ':'.join([str(i)] + [str(x) for x in op if op[0] != 'setp'][0:2]) if op[0] != 'setp' else None


def gen_history(rng, with_params):
    ops = []
    for _ in range(rng.randint(1, 5)):
        r = rng.random()
        if r < 0.25:
            ops.append(('gen',))
        elif r < 0.45:
            ops.append(('sim',))
        elif r < 0.6:
            ops.append(('setg', rng.choice(OVR)))
        elif r < 0.7:
            ops.append(('unsetg',))
        elif r < 0.8:
            ops.append(('seta', rng.choice(OVR)))
        elif r < 0.88:
            ops.append(('unseta',))
        elif with_params:
            ops.append(rng.choice([('setp', 'sensanth', rng.choice([5, 20, 40])),
                                   ('setp', 'month', rng.choice([1, 6, 9])),
                                   ('setp', 'day', rng.choice([1, 15])),
                                   ('setp', 'grasscover', rng.choice([0.0, 0.1, 0.2])),
                                   ('setp', 'bldheight', rng.choice([10, 25])),
                                   ('setp', 'shgc', rng.choice([None, 0.0, 0.4])),
                                   ('setp', 'flr_h', rng.choice([None, 3.5])),
                                   ('setp', 'autosize', rng.choice([True, False])),
                                   ('setp', 'vegroof', rng.choice([None, 0.0, 1.0])),
                                   ('setp', 'albwall', rng.choice([None, 0.0, 0.6])),
                                   ('setp', 'droad', rng.choice([0.5, 0.25])),
                                   ('setp', 'epw_path', rng.choice(['A', 'B']))]))
    return ops + [('gen',), ('sim',)]


def base_model(outdir):
    return U.new_model(outdir=outdir, outname='c17.epw', nday=1, dtsim=300, bld=STOCK, zone='1A')


PARAMS = ['glzr', 'albroof', 'sensanth', 'month', 'day', 'grasscover', 'bldheight', 'shgc', 'flr_h',
          'autosize', 'vegroof', 'albwall', 'droad', 'epw_path']
EPWS = {}


def make_epws(work):
    """Rural file A = the shipped Singapore EPW; B = a copy that is 3 K warmer and drier."""
    import csv
    a = U.rp(U.EPW_SGP)
    b = os.path.join(work, 'rural_B.epw')
    rows = list(csv.reader(open(a, newline='', errors='ignore')))
    for r in rows[8:]:
        r[6] = '%.1f' % (float(r[6]) + 3.0)
        r[8] = '%d' % max(10, int(float(r[8])) - 15)
    with open(b, 'w', newline='') as f:
        csv.writer(f, lineterminator='\n').writerows(rows)
    EPWS['A'], EPWS['B'] = a, b


def run(chk):
    chk.proof(MODULE, THEOREMS)
    if chk.tier == 'thorough':
        chk.leanchecker([MODULE])
    uwg = U.uwg_mod()
    work = chk.work()
    rng = chk.rng
    nh = 6 if chk.tier == 'quick' else 60
    make_epws(work)
    corpus = [[('gen',), ('sim',), ('gen',), ('sim',)],
              [('setg', 0), ('gen',), ('unsetg',), ('gen',), ('sim',)],
              [('sim',), ('seta', 1000), ('gen',), ('sim',), ('unseta',), ('gen',), ('sim',)],
              [('setp', 'autosize', True), ('gen',), ('setp', 'autosize', False), ('gen',), ('sim',)],
              [('gen',), ('setp', 'epw_path', 'B'), ('gen',), ('sim',)],
              [('setp', 'month', 7), ('gen',), ('sim',), ('setp', 'month', 1), ('setp', 'droad', 0.25), ('gen',), ('sim',)]]
    hist = corpus + [gen_history(rng, with_params=(k % 2 == 1)) for k in range(nh)]
    cases, bad, nsim = [], 0, 0
    for h in hist:
        m = base_model(work)
        tr = Tracker(uwg, 0)
        trace, texts = [], []
        for op in h:
            apply_op(m, tr, op)
            nsim += op[0] == 'sim'
            if op[0] != 'setp':
                trace.append(tr.obj(m))
                texts.append(':'.join(['0'] + [str(x) for x in op]))
        line = 'world n=1 asis=0 ref=[1000;1001] ops=[%s]' % ';'.join(texts)
        cases.append((line, 'ok ' + '|'.join(trace)))
        # differential oracle: same final parameters on a fresh object
        f = base_model(work)
        for p in PARAMS:
            setattr(f, p, getattr(m, p))
        with core.quiet():
            f.generate()
        # state after the last generate is not observable any more on m (it has simulated);
        # compare the simulation results bit for bit
        with core.quiet():
            f.simulate()
        if U.records(f) != U.records(m):
            bad += 1
            diff = next((n for n, (a, b) in enumerate(zip(U.records(f), U.records(m))) if a != b), None)
            chk.violation('impl-violation', 'generate_forgets: history vs fresh object',
                          case={'history': [list(o) for o in h]},
                          observed='hourly records differ from a fresh object with the same parameters '
                                   '(first differing hour %s: %s vs %s)' % (
                                       diff, U.records(m)[diff][:2], U.records(f)[diff][:2]),
                          expected='bit-identical hourly records')
    chk.correspond('UWG-object-history~toy-machine', 'C17', cases,
                   rule='operation histories (set/unset glzr & albroof incl. 0 and 1, generate, simulate; some '
                        'also change other parameters) on a real UWG object; after every operation the '
                        'abstraction (override visible in the selected library archetypes, dirtiness, what the '
                        'last simulation started from) must equal the Lean toy machine; corpus = the two '
                        'repaired histories first',
                   classify=lambda l, a: 'len%d' % l.count(':sim'))
    chk.direct('history-vs-fresh(records)', len(hist), len(hist),
               'final generate;simulate of every history vs a fresh object with the same current parameters: '
               'hourly records bit-identical (%d real 1-day simulations)' % (nsim + len(hist)),
               mismatches=bad)
    # state digest right after generate (separate, cheap): history then generate vs fresh generate
    bad2 = 0
    for h in hist:
        m = base_model(work)
        tr = Tracker(uwg, 0)
        for op in h[:-1]:
            apply_op(m, tr, op)
        f = base_model(work)
        for p in PARAMS:
            setattr(f, p, getattr(m, p))
        with core.quiet():
            f.generate()
        if U.model_state(m) != U.model_state(f):
            bad2 += 1
            chk.violation('impl-violation', 'generate_depends_on_params_only: state digest after generate',
                          case={'history': [list(o) for o in h[:-1]]},
                          observed='state after history+generate differs from fresh generate',
                          expected='identical digests of BEM, Sch, road, rural, UCM, UBL, RSM, forcing, clock')
    chk.direct('state-after-generate(digest)', len(hist), len(hist),
               'deep bit-exact digest of every object a simulation starts from, after history+generate vs fresh',
               mismatches=bad2)
    chk.assumptions.append('the physics is uninterpreted in the theorem (any machine); the tie checks that the '
                           'real generate() has the modelled shape (reload pristine library, apply current '
                           'parameters) on generated histories')
    chk.notes.append('caller-supplied custom BEMDef objects are deep-copied into the library by generate(), so a '
                     'simulation no longer alters them')
