"""C17 - generate() forgets the object's past.

Fifth round (`interrupted_calls`; family in harness/v2_util.py): a BaseException (KeyboardInterrupt, SystemExit,
GeneratorExit) raised at a drawn point inside generate(), simulate() or write_epw() and caught by the caller is part of the
past that the next generate() must forget.

Fourth round (`circumstances`; interpreter in harness/u2_util.py): histories run in FRESH interpreters (python and
python -O) and judged against a new object in a fresh plain interpreter - a past kept at class level pollutes a new object
of the same process as well -, with other models alive, with observers, through the command line; the digest of all
module- and class-level data is taken after every operation."""
import os

import copy

import core
import s3_util as S3
import t2_util as T
import uwgutil as U

MODULE = 'UwgVerif.Props.C17'
THEOREMS = ['Uwg.C17.generate_forgets', 'Uwg.C17.generate_depends_on_params_only',
            'Uwg.C17.set_and_reset_forgotten', 'Uwg.C17.asis_history_dependent', 'Uwg.C17.run_append']

STOCK = [('largeoffice', 'pst80', 0.4), ('midriseapartment', 'pst80', 0.6)]
SEL = [(3, 1), (5, 1)]          # library (type, era) indices of STOCK, in library scan order
OVR = [0, 1000, 123, 777, 250]  # per-mille override values (0 and 1 included)


class Tracker(object):
    """Abstraction of a real UWG object to the toy machine's state."""

    def __init__(self, uwg, zi):
        self.zi = zi
        self.pristine = uwg.UWG.load_refDOE()[0]
        self.last = None

    def arch(self, m, k):
        i, j = SEL[k]
        p = self.pristine[i][j][self.zi]
        e = p if m._refBEM is None else m._refBEM[i][j][self.zi]
        glz = 1000 + k if e.building.glazing_ratio == p.building.glazing_ratio else \
            int(round(e.building.glazing_ratio * 1000))
        alb = 1500 + k if e.roof.albedo == p.roof.albedo else int(round(e.roof.albedo * 1000))
        dirty = (e.building.indoor_temp != p.building.indoor_temp or
                 e.building.indoor_hum != p.building.indoor_hum or
                 e.wall.layerTemp != p.wall.layerTemp or e.roof.layerTemp != p.roof.layerTemp or
                 e.mass.layerTemp != p.mass.layerTemp)
        return '%d,%d,%d' % (glz, alb, 1 if dirty else 0)

    def lib(self, m):
        return '(' + ' '.join(self.arch(m, k) for k in range(len(SEL))) + ')'

    def obj(self, m):
        return self.lib(m) + ('B' if hasattr(m, 'BEM') else '-') + ('L' + self.last if self.last else 'L-')


def apply_op(m, tr, op):
    kind = op[0]
    if kind == 'gen':
        with core.quiet():
            m.generate()
    elif kind == 'sim':
        if not hasattr(m, 'simTime'):
            try:
                m.simulate()
            except AttributeError:
                return
            raise AssertionError('simulate before generate did not raise')
        start = tr.lib(m)
        with core.quiet():
            m.simulate()
        tr.last = start
    elif kind == 'setg':
        m.glzr = op[1] / 1000.0
    elif kind == 'unsetg':
        m.glzr = None
    elif kind == 'seta':
        m.albroof = op[1] / 1000.0
    elif kind == 'unseta':
        m.albroof = None
    elif kind == 'setp':           # other parameters (not part of the toy abstraction)
        val = op[2]
        if op[1] == 'epw_path':
            val = EPWS[val]
        setattr(m, op[1], val)


def op_text(i, op):
    return ':'.join([str(i)] + [str(x) for x in op if op[0] != 'setp'][0:2]) if op[0] != 'setp' else None


def gen_history(rng, with_params):
    ops = []
    for _ in range(rng.randint(1, 5)):
        r = rng.random()
        if r < 0.25:
            ops.append(('gen',))
        elif r < 0.45:
            ops.append(('sim',))
        elif r < 0.6:
            ops.append(('setg', rng.choice(OVR)))
        elif r < 0.7:
            ops.append(('unsetg',))
        elif r < 0.8:
            ops.append(('seta', rng.choice(OVR)))
        elif r < 0.88:
            ops.append(('unseta',))
        elif with_params:
            ops.append(rng.choice([('setp', 'sensanth', rng.choice([5, 20, 40])),
                                   ('setp', 'month', rng.choice([1, 6, 9])),
                                   ('setp', 'day', rng.choice([1, 15])),
                                   ('setp', 'grasscover', rng.choice([0.0, 0.1, 0.2])),
                                   ('setp', 'bldheight', rng.choice([10, 25])),
                                   ('setp', 'shgc', rng.choice([None, 0.0, 0.4])),
                                   ('setp', 'flr_h', rng.choice([None, 3.5])),
                                   ('setp', 'autosize', rng.choice([True, False])),
                                   ('setp', 'vegroof', rng.choice([None, 0.0, 1.0])),
                                   ('setp', 'albwall', rng.choice([None, 0.0, 0.6])),
                                   ('setp', 'droad', rng.choice([0.5, 0.25])),
                                   ('setp', 'epw_path', rng.choice(['A', 'B']))]))
    return ops + [('gen',), ('sim',)]


def base_model(outdir):
    # (a copy: the `bld` setter keeps the caller's list object, and the extended histories edit it in place)
    return U.new_model(outdir=outdir, outname='c17.epw', nday=1, dtsim=300, bld=list(STOCK), zone='1A')


PARAMS = ['glzr', 'albroof', 'sensanth', 'month', 'day', 'grasscover', 'bldheight', 'shgc', 'flr_h',
          'autosize', 'vegroof', 'albwall', 'droad', 'epw_path']
EPWS = {}


def make_epws(work):
    """Rural file A = the shipped Singapore EPW; B = a copy that is 3 K warmer and drier."""
    import csv
    a = U.rp(U.EPW_SGP)
    b = os.path.join(work, 'rural_B.epw')
    rows = list(csv.reader(open(a, newline='', errors='ignore')))
    for r in rows[8:]:
        r[6] = '%.1f' % (float(r[6]) + 3.0)
        r[8] = '%d' % max(10, int(float(r[8])) - 15)
    with open(b, 'w', newline='') as f:
        csv.writer(f, lineterminator='\n').writerows(rows)
    EPWS['A'], EPWS['B'] = a, b


# ----------------------------------------------------------------------------------------------------------
# Extended operation alphabet: what a call sequence leaves behind.
#   in-place edits of list-valued parameters (bld item / slice / append / pop, edits through the caller's own
#   reference to the list he assigned, schtraffic entries), refused assignments of every validated parameter
#   family (caught by the caller), parameters set after generate() and before simulate(), attributes assigned
#   on custom reference objects after they were handed in. Not part of the toy abstraction: judged by the
#   differential oracle only (state digest after generate, then hourly records, vs a fresh object carrying
#   deep copies of the CURRENT parameter values).
TYPES = ['hospital', 'largehotel', 'medoffice', 'smalloffice', 'warehouse', 'primaryschool', 'supermarket']
ERAS = ['pre80', 'pst80', 'new', 'Pst80', 'NEW']
# refused schtraffic assignment with a NaN entry: the setter of the unchanged tree zeroes the stored matrix
# before it validates the entries (reported as a finding of the unchanged code; recorded, not judged)
KNOWN_TRACE = {'schtraffic-nan'}


def apply_ext(m, op, ctx):
    """One operation of the extended alphabet on the real object. Returns a message when a refused
    assignment left a visible trace in the parameters, else None."""
    k = op[0]
    if k == 'gen':
        with core.quiet():
            m.generate()
    elif k == 'sim':
        with core.quiet():
            m.simulate()
    elif k == 'set':
        setattr(m, op[1], EPWS[op[2]] if op[1] == 'epw_path' else copy.deepcopy(op[2]))
    elif k == 'bld_item':                       # m.bld[i] = (other type, other era, same share)
        i = op[1] % len(m.bld)
        m.bld[i] = (op[2][0], op[2][1], m.bld[i][2])
    elif k == 'bld_move':                       # shift a share from row i to row j (two item assignments)
        i, j = op[1] % len(m.bld), op[2] % len(m.bld)
        if i != j:
            d = min(op[3], m.bld[i][2] / 2)
            m.bld[i] = (m.bld[i][0], m.bld[i][1], m.bld[i][2] - d)
            m.bld[j] = (m.bld[j][0], m.bld[j][1], m.bld[j][2] + d)
    elif k == 'bld_split':                      # take a share off row i and append a new row with it
        i = op[1] % len(m.bld)
        t, e, f = m.bld[i]
        d = min(op[3], f / 2)
        m.bld[i] = (t, e, f - d)
        m.bld.append((op[2][0], op[2][1], d))
    elif k == 'bld_pop':                        # undo of a split: remove the last row, give its share to row 0
        if len(m.bld) > 1:
            t, e, f = m.bld.pop()
            t0, e0, f0 = m.bld[0]
            m.bld[0] = (t0, e0, f0 + f)
    elif k == 'bld_slice':                      # m.bld[:] = rows
        m.bld[:] = [tuple(r) for r in op[1]]
    elif k == 'bld_caller':                     # whole assignment of a list the caller keeps a reference to
        ctx['lst'] = [tuple(r) for r in op[1]]
        m.bld = ctx['lst']
    elif k == 'caller_edit':                    # the caller edits his own list afterwards
        if ctx.get('lst'):
            i = op[1] % len(ctx['lst'])
            ctx['lst'][i] = (op[2][0], op[2][1], ctx['lst'][i][2])
    elif k == 'traffic_item':
        m.schtraffic[op[1]][op[2]] = op[3]
    elif k == 'refuse':
        before = S3.param_view(m)
        res = S3.try_assign(m, op[1], op[2])
        ctx['refusals'][res.split(' ')[0]] = ctx['refusals'].get(res.split(' ')[0], 0) + 1
        if res == 'accepted':                   # not a refusal after all: a set-and-change-back history
            setattr(m, op[1], before[op[1]])
        d = S3.view_diff(before, S3.param_view(m))
        if d:
            return '%s = %r %s, but %s reads %r afterwards (before: %r)' % (
                op[1], op[2], res, d[0][0], d[0][2], d[0][1])
    elif k == 'gen_fail':                       # a generate() that raises (refused timestep / missing type), caught
        old = copy.deepcopy(getattr(m, op[1]))
        setattr(m, op[1], copy.deepcopy(op[2]))
        try:
            with core.quiet():
                m.generate()
            ctx['refusals']['generate-returned'] = ctx['refusals'].get('generate-returned', 0) + 1
        except Exception:  # noqa: BLE001
            ctx['refusals']['generate-raised'] = ctx['refusals'].get('generate-raised', 0) + 1
        setattr(m, op[1], old)
    elif k == 'sim_fail':                       # a simulate() that raises part-way (toy physics), caught
        import simtoy
        if hasattr(m, 'simTime'):
            err = simtoy.toy_morph_simulate(m, op[1], op[2])
            ctx['refusals']['simulate-' + (err or 'returned')] = ctx['refusals'].get('simulate-' + (err or 'returned'), 0) + 1
            if op[3]:
                try:
                    with core.quiet():
                        m.write_epw()
                except Exception:  # noqa: BLE001
                    pass
    elif k == 'custom_attr':                    # attribute assignment on a custom object handed in earlier
        obj = m.ref_bem_vector[op[1]]
        for part in op[2].split('.')[:-1]:
            obj = getattr(obj, part)
        setattr(obj, op[2].split('.')[-1], op[3])
    else:
        raise core.Infra('unknown operation %r' % (op,))
    return None


def rand_row(rng, frac=None):
    return (rng.choice(TYPES), rng.choice(ERAS))


def rand_stock(rng):
    f = rng.choice([0.25, 0.3, 0.5, 0.7])
    a, b = rng.sample(TYPES + ['largeoffice', 'midriseapartment'], 2)
    return [(a, rng.choice(ERAS), f), (b, rng.choice(ERAS), 1.0 - f)]


def rand_refusal(rng, table):
    fam, p, v = rng.choice(table)
    return ('refuse', p, v)


def ext_corpus(rng, table):
    """Histories that contain each class of the extended alphabet at least once (several members each),
    with the operation both before the first generate and between two generate calls."""
    fam = {}
    for f, p, v in table:
        fam.setdefault(f, []).append(('refuse', p, v))
    neg_cover = [('refuse', p, v) for p in ('grasscover', 'treecover', 'blddensity') for v in (-0.05, -0.2)]
    hs = [
        [('bld_item', 1, rand_row(rng)), ('gen',), ('sim',)],
        [('gen',), ('sim',), ('bld_item', 0, rand_row(rng)), ('bld_move', 0, 1, 0.125), ('gen',), ('sim',)],
        [('gen',), ('bld_split', 1, rand_row(rng), 0.25), ('gen',), ('sim',)],
        [('bld_split', 0, rand_row(rng), 0.1), ('gen',), ('bld_pop',), ('gen',), ('sim',)],
        [('gen',), ('bld_slice', rand_stock(rng)), ('gen',), ('sim',)],
        [('bld_caller', rand_stock(rng)), ('gen',), ('caller_edit', 1, rand_row(rng)), ('gen',), ('sim',)],
        [('traffic_item', 0, 12, 0.0), ('traffic_item', 2, 12, 1.0), ('gen',), ('traffic_item', 1, 3, 0.9),
         ('gen',), ('sim',)],
        [rng.choice(neg_cover), ('gen',), ('sim',)],
        [('gen',), ('sim',), rng.choice(neg_cover), rng.choice(fam['ratio']), ('gen',), ('sim',)],
        [('set', 'grasscover', 0.2), rng.choice(fam['override']), rng.choice(fam['override']), ('gen',), ('sim',)],
        [('set', 'albwall', 0.3), ('refuse', 'albwall', 1.5), ('set', 'glzr', 0.4), ('refuse', 'glzr', 1.4),
         ('refuse', 'albroof', 7.0), ('gen',), ('sim',)],
        [rng.choice(fam['int']), rng.choice(fam['positive']), rng.choice(fam['bld']), rng.choice(fam['zone']),
         ('gen',), rng.choice(fam['schtraffic']), rng.choice(fam['path']), rng.choice(fam['int']), ('gen',), ('sim',)],
        [('gen',), ('set', 'nday', 2), ('sim',), ('set', 'nday', 1), ('gen',), ('sim',)],
        [('gen_fail', 'dtsim', 7), ('gen',), ('sim_fail', rng.randint(0, 999), 53, True), ('gen',), ('sim',)],
        [('gen',), ('sim',), ('gen_fail', 'bld', [('LargeOffice', 'pst80', 1.0)]), ('sim_fail', 5, 1, False),
         ('gen_fail', 'dtsim', 1000), ('gen',), ('sim',)],
        [('gen',), ('set', 'month', 7), ('set', 'dtsim', 150), ('sim',), ('set', 'dtsim', 300), ('gen',), ('sim',)],
    ]
    return hs


def ext_random(rng, table):
    ops = []
    for _ in range(rng.randint(2, 6)):
        r = rng.random()
        if r < 0.2:
            ops.append(('gen',))
        elif r < 0.28:
            ops.append(('sim',) if ('gen',) in ops else ('gen',))
        elif r < 0.5:
            ops.append(rng.choice([('bld_item', rng.randint(0, 3), rand_row(rng)),
                                   ('bld_move', rng.randint(0, 3), rng.randint(0, 3), rng.choice([0.1, 0.125])),
                                   ('bld_split', rng.randint(0, 3), rand_row(rng), rng.choice([0.1, 0.25])),
                                   ('bld_pop',), ('bld_slice', rand_stock(rng)), ('bld_caller', rand_stock(rng)),
                                   ('caller_edit', rng.randint(0, 1), rand_row(rng)),
                                   ('traffic_item', rng.randint(0, 2), rng.randint(0, 23), rng.choice([0.0, 0.5, 1.0]))]))
        elif r < 0.85:
            ops.append(rand_refusal(rng, table))
        else:
            ops.append(rng.choice([('set', 'grasscover', rng.choice([0.0, 0.1, 0.2])),
                                   ('set', 'treecover', rng.choice([0.0, 0.1])),
                                   ('set', 'glzr', rng.choice([None, 0.0, 1.0, 0.35])),
                                   ('set', 'albwall', rng.choice([None, 0.0, 0.6])),
                                   ('set', 'vegroof', rng.choice([None, 0.5])),
                                   ('set', 'nday', rng.choice([1, 2])),
                                   ('set', 'epw_path', rng.choice(['A', 'B']))]))
    if any(o[0] == 'set' and o[1] == 'nday' for o in ops):
        ops.append(('set', 'nday', 1))
    return ops + [('gen',), ('sim',)]


def custom_histories(rng):
    """Histories on an object constructed with a custom reference building (the shipped largeoffice/pst80
    handed back): attributes assigned on the custom after it was handed in / after a generate."""
    attr = [('building.cop', 2.6), ('building.coolcap', 50.0), ('building.glazing_ratio', 0.9),
            ('roof.albedo', 0.7), ('wall.albedo', 0.05), ('building.condtype', 'water'),
            ('roof.vegcoverage', 0.6), ('building.heateff', 0.6), ('building.infil', 1.0)]
    hs = [[('custom_attr', 0) + attr[0], ('gen',), ('sim',)],
          [('gen',), ('sim',), ('custom_attr', 0) + rng.choice(attr[1:]), ('gen',), ('sim',)]]
    a, b = rng.sample(attr, 2)
    hs.append([('custom_attr', 0) + a, ('gen',), ('custom_attr', 0) + b, ('refuse', 'glzr', -0.2), ('gen',), ('sim',)])
    return hs


def extended_histories(chk, work, uwg):
    rng = chk.rng
    table = S3.refusal_table()
    nrand = 6 if chk.tier == 'quick' else 80
    plain = ext_corpus(rng, table) + [ext_random(rng, table) for _ in range(nrand)]
    cust = custom_histories(rng)
    if chk.tier == 'thorough':
        for _ in range(3):
            cust += custom_histories(rng)
    bad_state = bad_rec = bad_trace = 0
    classes, refusals, nsim, known = {}, {}, 0, 0
    for h, with_custom in [(h, False) for h in plain] + [(h, True) for h in cust]:
        m = base_model(work)
        if with_custom:
            bem, sch = S3.custom_from_library(uwg)
            m.ref_bem_vector, m.ref_sch_vector = m._check_reference_data([bem], [sch])
        ctx = {'refusals': refusals}
        case = {'history': [list(o) for o in h], 'custom_reference_building': with_custom}
        for o in h:
            classes[o[0]] = classes.get(o[0], 0) + 1
        for op in h[:-1]:
            msg = apply_ext(m, op, ctx)
            nsim += op[0] == 'sim'
            if msg:
                bad_trace += 1
                if bad_trace <= 2:
                    chk.violation('impl-violation', 'refused assignment leaves a trace in the parameters',
                                  case=case, observed=msg,
                                  expected='a refused assignment changes nothing a caller can read back '
                                           '(to_dict, vegcover, epw_path)')
        f = S3.fresh_like(m, work, 'c17f.epw')
        with core.quiet():
            f.generate()
        if U.model_state(m) != U.model_state(f):
            bad_state += 1
            if bad_state <= 2:
                which = [n for n in ('BEM', 'Sch', 'road', 'rural', 'UCM', 'UBL', 'RSM', 'forc', 'simTime', 'geoParam')
                         if U.fingerprint(getattr(m, n, None)) != U.fingerprint(getattr(f, n, None))]
                chk.violation('impl-violation', 'generate_depends_on_params_only: extended history, state digest',
                              case=case,
                              observed='state after history+generate differs from a fresh object with the same '
                                       'current parameters in %s (e.g. stock simulated: %s vs %s; road vegetated '
                                       'fraction %r vs %r)' % (
                                           which, [(b.bldtype, b.builtera, b.frac) for b in m.BEM],
                                           [(b.bldtype, b.builtera, b.frac) for b in f.BEM],
                                           m.road.vegcoverage, f.road.vegcoverage),
                              expected='identical digests: current bld = %r' % (m.bld,))
        with core.quiet():
            m.simulate()
            f.simulate()
        nsim += 2
        if U.records(m) != U.records(f):
            bad_rec += 1
            if bad_rec <= 2:
                rm, rf = U.records(m), U.records(f)
                d = next((n for n, (a, b) in enumerate(zip(rm, rf)) if a != b), None)
                chk.violation('impl-violation', 'generate_forgets: extended history vs fresh object', case=case,
                              observed='hourly records differ (first differing hour %s: %s vs %s)' % (
                                  d, rm[d][:2] if d is not None and rm[d] else None,
                                  rf[d][:2] if d is not None and rf[d] else None),
                              expected='bit-identical hourly records')
    n = len(plain) + len(cust)
    chk.direct('extended-history-vs-fresh(state digest + records)', n, n,
               'histories over the extended alphabet ending in generate; simulate: in-place edits of list-valued '
               'parameters (bld[i] = row, shares moved between rows, append / pop, slice assignment, edits through the caller\'s own list, '
               'schtraffic entries), refused assignments (caught) of every validated family - ratios incl. negative '
               'cover fractions, cover sums, overrides, positive numbers, integers / calendar, zone, bld, schtraffic '
               'shape, rural path - , parameters set between generate() and simulate() (nday, month, dtsim), calls made '
               'after a failed call (generate() refused for a non-divisor timestep / unknown building type, simulate() '
               'raising part-way under toy physics, then write_epw()), '
               'attributes assigned on a custom reference building after it was handed in; deep digest after the '
               'final generate and hourly records vs a fresh object carrying deep copies of the CURRENT parameter '
               'values (%d real 1-day simulations)' % nsim,
               mismatches=bad_state + bad_rec, branches=classes)
    # every entry of the refusal table on one long-lived object: nothing a caller can read back changes
    m = base_model(work)
    nref = 0
    for famname, p, v in table + S3.cover_sum_refusals(m):
        before = S3.param_view(m)
        res = S3.try_assign(m, p, v)
        nref += 1
        d = S3.view_diff(before, S3.param_view(m))
        if res == 'accepted':
            setattr(m, p, before[p])
            continue
        if d:
            bad_trace += 1
            if bad_trace <= 3:
                chk.violation('impl-violation', 'refused assignment leaves a trace in the parameters',
                              case={'parameter': p, 'value': repr(v), 'family': famname},
                              observed='%s; afterwards %s reads %r (before: %r)' % (res, d[0][0], d[0][2], d[0][1]),
                              expected='nothing changes')
    # the one refusal of the unchanged tree that does leave a trace (recorded, see KNOWN_TRACE)
    sch = copy.deepcopy(m.schtraffic)
    sch[1][3] = float('nan')
    before = S3.param_view(m)
    res = S3.try_assign(m, 'schtraffic', sch)
    if res.startswith('refused') and S3.view_diff(before, S3.param_view(m)):
        known = 1
        chk.notes.append('unchanged-tree finding (recorded, not judged): a refused `schtraffic` assignment with a '
                         'NaN entry leaves the stored schedule zeroed from that entry on (the setter resets '
                         '_schtraffic before validating the entries)')
    chk.direct('refused-assignment-leaves-no-trace', nref, nref,
               'every (parameter, out-of-range value) pair of the refusal table assigned on one long-lived object '
               'under try/except: to_dict(), vegcover and epw_path read the same before and after; '
               'known exception recorded: schtraffic with a NaN entry (%d)' % known,
               mismatches=bad_trace, branches=refusals)


# ----------------------------------------------------------------------------------------------------------
# Third round: histories in which (1) a call FAILS because of a parameter set after a successful run, (2) the
# rural file changes - by path or in place - to a file that differs in one interpreted header part, (3) the
# stock names a custom reference building with the era written in another letter case. All judged the same
# way: the final generate(); simulate() on the object with the past against the same two calls on a fresh
# object with the same current parameter values - both fail at the same call with the same exception class,
# or both return with the same state digest after generate() and the same hourly records.
FAILING = [   # (parameter, value that makes generate() or simulate() fail, what happens on a fresh object)
    ('droad', 4.5, 'generate refuses: pavement deeper than the deepest ground-temperature depth'),
    ('droad', 10.0, 'generate refuses'),
    ('dtsim', 7, 'generate refuses: not a divisor of 3600'),
    ('dtsim', 1800, 'simulate: the model\'s own FATAL ERROR after some records'),
    ('h_ref', 5.0, 'simulate: IndexError at the first step'),
    ('h_wind', 0.0, 'simulate: ValueError at the first step'),
    ('h_obs', 0.0, 'simulate: ZeroDivisionError at the first step'),
    ('windmin', 0.0, 'simulate: ZeroDivisionError at the first calm hour'),
    ('bldheight', 1000.0, 'simulate: canyon temperature check at the first step'),
    ('sensanth', 1e5, 'simulate: canyon temperature check at the first step'),
    ('blddensity', 0.0, 'generate: ZeroDivisionError'),
    ('charlength', 0.0, 'generate: ZeroDivisionError'),
    ('kroad', 0.0, 'generate: Material refuses'),
    ('nday', 0, 'generate: IndexError'),
    ('dtweather', 7200, 'simulate: IndexError after some records'),
    ('bld', [('LargeOffice', 'pst80', 1.0)], 'generate refuses: no such building type'),
]


def failing_histories(rng, quick):
    hs = [('fixed: run, then a pavement deeper than the ground-temperature depths',
           [('gen',), ('sim',), ('set', 'droad', 4.5)]),
          ('fixed: run, deep pavement, failed generate, pavement set back',
           [('gen',), ('sim',), ('set', 'droad', 4.5), ('gen',), ('set', 'droad', 0.5)]),
          ('fixed: run, deep pavement, failed generate AND simulate, shallower pavement',
           [('gen',), ('sim',), ('set', 'droad', 10.0), ('gen',), ('sim',), ('set', 'droad', 0.25)])]
    shapes = ['run-then-bad', 'run-bad-calls-good', 'bad-first-then-good', 'run-bad-gen-good-otherbad']
    todo = FAILING if not quick else FAILING[2:]
    for k, (p, bad, what) in enumerate(todo * (1 if quick else 4)):
        shape = shapes[k % len(shapes)] if quick else shapes[(k // len(FAILING)) % len(shapes)]
        good = '<initial>'
        if shape == 'run-then-bad':
            ops = [('gen',), ('sim',), ('set', p, bad)]
        elif shape == 'run-bad-calls-good':
            ops = [('gen',), ('sim',), ('set', p, bad), ('gen',), ('sim',), ('set', p, good)]
        elif shape == 'bad-first-then-good':
            ops = [('set', p, bad), ('gen',), ('sim',), ('write',), ('set', p, good)]
        else:
            p2, bad2, _ = rng.choice([f for f in FAILING if f[0] != p])
            ops = [('gen',), ('sim',), ('set', p, bad), ('gen',), ('set', p, good), ('set', p2, bad2)]
        hs.append(('%s: %s = %r (%s)' % (shape, p, bad, what), ops))
    return hs


def rural_histories(rng, quick, fam):
    names = [n for n in fam if n != 'base']
    shapes = ['path: base -> X', 'path: X -> base', 'in place: base -> X', 'in place: X -> base']
    hs = []
    for k, x in enumerate(names * (1 if quick else 4)):
        shape = shapes[(k + k // len(names)) % len(shapes)]
        mid = [('sim',)] if k % 3 == 0 else []
        if shape == 'path: base -> X':
            ops = [('gen',)] + mid + [('epw', x)]
        elif shape == 'path: X -> base':
            ops = [('epw', x), ('gen',)] + mid + [('epw', 'base')]
        elif shape == 'in place: base -> X':
            ops = [('private', 'base'), ('gen',)] + mid + [('rewrite', x)]
        else:
            ops = [('private', x), ('gen',)] + mid + [('rewrite', 'base')]
        hs.append(('%s, X = %s (%s)' % (shape, x, fam[x][1]), ops))
    # two changes in a row, and a change made between generate() and simulate()
    hs.append(('path: base -> loc-toronto -> toronto file', [('gen',), ('epw', 'loc-toronto'), ('gen',), ('sim',), ('epw', 'toronto')]))
    return hs


CUSTOM_KINDS = {
    # kind: (customs [(type, era, library source cell)], stock rows with the era text AS WRITTEN)
    'DOE archetype replaced': ([('largeoffice', 'pst80', (3, 1, 0))],
                               [('largeoffice', '{0}', 0.4), ('midriseapartment', 'pst80', 0.6)]),
    'new type': ([('labtower', 'new', (3, 2, 0))], [('labtower', '{0}', 0.5), ('midriseapartment', 'pst80', 0.5)]),
    'two customs, one not in the stock': ([('largeoffice', 'pst80', (3, 1, 0)), ('annex', 'pre80', (11, 0, 0))],
                                          [('largeoffice', '{0}', 0.25), ('hospital', 'new', 0.75)]),
    'custom in two eras': ([('labtower', 'new', (3, 2, 0)), ('labtower', 'pst80', (3, 1, 0))],
                           [('labtower', '{0}', 0.5), ('labtower', '{1}', 0.5)]),
}
ERA_TEXTS = {'pst80': ['pst80', 'Pst80', 'PST80', 'pSt80'], 'new': ['new', 'New', 'NEW', 'nEw'],
             'pre80': ['pre80', 'Pre80', 'PRE80']}


def custom_vectors(uwg, kind):
    """fresh, equal custom objects on every call (a caller who builds his customs from his own description)"""
    ref, sch = uwg.UWG.load_refDOE()
    bv, sv = [], []
    for n, (t, e, (i, j, k)) in enumerate(CUSTOM_KINDS[kind][0]):
        b, s_ = copy.deepcopy(ref[i][j][k]), copy.deepcopy(sch[i][j][k])
        b.bldtype = s_.bldtype = t
        b.builtera = s_.builtera = e
        b.building.cop = 2.5 + 0.25 * n
        b.wall.albedo = 0.35
        bv.append(b)
        sv.append(s_)
    return bv, sv


def custom_stock(kind, variant):
    customs, rows = CUSTOM_KINDS[kind]
    texts = [ERA_TEXTS[e][variant % len(ERA_TEXTS[e])] for _, e, _ in customs]
    return [(t, e.format(*texts), f) for t, e, f in rows]


def fresh_for(m, outdir, outname, customs=None):
    """a new object with the CURRENT parameter values of m and its current rural file (S3.fresh_like); with
    `customs`, the custom reference vectors are those given (equal objects built anew) instead of copies of m's"""
    if customs is None:
        return S3.fresh_like(m, outdir, outname)
    u = U.uwg_mod()
    f = u.UWG.from_param_file(U.rp(U.PARAM_SGP), epw_path=m.epw_path, new_epw_dir=outdir, new_epw_name=outname)
    f.ref_bem_vector, f.ref_sch_vector = f._check_reference_data(*customs)
    f.grasscover = 0
    f.treecover = 0
    for a in u.UWG.PARAMETER_LIST:
        setattr(f, a, copy.deepcopy(getattr(m, a)))
    f.epw_precision = m.epw_precision
    return f


def history_job(args):
    """Worker (one history per call, object with the past and its fresh twin in ONE process): returns
    dict(group, branch, msg, case). Runs in a pool only to keep the wall time of the quick tier down."""
    import s2_util as S2
    repo, work, group, idx, label, ops, fam, extra = args
    os.environ['UWG_REPO'] = repo
    core.REPO = repo
    uwg = U.uwg_mod()
    jobdir = os.path.join(work, 'h%d' % idx)
    os.makedirs(jobdir, exist_ok=True)
    ctx = {'family': fam, 'private': os.path.join(jobdir, 'rural_private.epw')}
    m = base_model(jobdir)
    customs, after = None, None
    case = {'history': label}
    if group == 'failing':
        initial = {p: copy.deepcopy(getattr(m, p)) for p, _, _ in FAILING}
        ops = [(o[0], o[1], initial[o[1]]) if o[0] == 'set' and o[2] == '<initial>' else o for o in ops]
    elif group == 'custom':
        kind, variant = extra
        bv, sv = custom_vectors(uwg, kind)
        before = U.fingerprint([bv, sv])
        m.bld = list(custom_stock(kind, variant))
        m.ref_bem_vector, m.ref_sch_vector = m._check_reference_data(bv, sv)
        ops = [('set', 'bld', custom_stock(kind, variant + 1)) if o == ('restock',) else o for o in ops]
        customs = custom_vectors(uwg, kind)
        case.update({'custom_reference_buildings': [(t, e) for t, e, _ in CUSTOM_KINDS[kind][0]], 'kind': kind})

        def after():
            if hasattr(m, 'BEM'):
                cross = S2.identity_structure(m.BEM, others=bv)
                if cross:
                    return 'the simulated BEM holds the caller\'s own custom objects: %s' % '; '.join(cross[:3])
            if U.fingerprint([bv, sv]) != before:
                b = bv[0]
                return ('the caller\'s custom objects were altered by generate() / simulate() (e.g. %s/%s: indoor '
                        'temperature %r K, outer wall layer %r K, frac %r)' % (
                            b.bldtype, b.builtera, b.building.indoor_temp, b.wall.layerTemp[0], getattr(b, 'frac', None)))
    log = T.apply_history(m, ops, ctx)
    f = fresh_for(m, jobdir, 'c17f.epw', customs)
    case.update({'operations': [[repr(x) for x in o] for o in ops] + [['gen'], ['sim']],
                 'outcome_of_the_calls_in_the_history': log, 'bld_as_written': repr(m.bld),
                 'rural_file_now': os.path.basename(m.epw_path)})
    oh, of = T.outcome(m), T.outcome(f)
    msg = T.compare_outcomes(oh, of)
    if msg is None and group == 'rural':
        a = [getattr(x, n, None) for x in (m, f) for n in ('lat', 'lon', 'gmt')]
        if a[:3] != a[3:]:
            msg = 'site after generate(): (lat, lon, gmt) = %r on the object with the past, %r on the fresh object' % (
                tuple(a[:3]), tuple(a[3:]))
    if msg is None and after:
        msg = after()
    case['fresh_object'] = T.outcome_text(of)
    case['object_with_the_past'] = T.outcome_text(oh)
    return {'group': group, 'branch': 'final: ' + (oh['stage'] + ' raised' if oh['error'] else 'returned'),
            'msg': msg, 'case': case}


def third_round_histories(chk, work, uwg):
    import multiprocessing
    rng = chk.rng
    quick = chk.tier == 'quick'
    fam = T.rural_family(work)
    jobs = []

    def add(group, label, ops, extra=None):
        jobs.append((core.REPO, work, group, len(jobs), label, ops, fam, extra))
    for label, ops in failing_histories(rng, quick):
        add('failing', label, ops)
    for label, ops in rural_histories(rng, quick, fam):
        add('rural', label, ops)
    shapes = [('run twice', [('gen',), ('sim',)]),
              ('override set, run, unset', [('set', 'glzr', 0.9), ('gen',), ('sim',), ('set', 'glzr', None)]),
              ('autosize on, run, off', [('set', 'autosize', True), ('gen',), ('sim',), ('set', 'autosize', False)]),
              ('run, era text of the stock rewritten', [('gen',), ('sim',), ('restock',)])]
    k = 0
    for kind in CUSTOM_KINDS:
        for variant in (range(4) if not quick else [1, 2] if kind in ('DOE archetype replaced', 'new type') else [3]):
            sname, ops = shapes[k % len(shapes)]
            k += 1
            add('custom', '%s; %s; era spelling %d' % (kind, sname, variant), ops, (kind, variant))
    with multiprocessing.Pool(min(6, len(jobs))) as pool:
        outs = pool.map(history_job, jobs, chunksize=1)
    ties = {'failing': 'generate_forgets: history with a failing call vs fresh object',
            'rural': 'generate_depends_on_params_only: rural file changed vs fresh object',
            'custom': 'generate_forgets: custom reference buildings, era text in any case, vs fresh object'}
    cnt = {g: {'n': 0, 'bad': 0, 'br': {}} for g in ties}
    for o in outs:
        c = cnt[o['group']]
        c['n'] += 1
        c['br'][o['branch']] = c['br'].get(o['branch'], 0) + 1
        if o['msg']:
            c['bad'] += 1
            if c['bad'] <= 2:
                chk.violation('impl-violation', ties[o['group']], case=o['case'], observed=o['msg'],
                              expected='the same as a fresh object with the same current parameter values and rural '
                                       'file: the same call fails with the same exception class, or the same state '
                                       'digest after generate() and bit-identical hourly records')
    c1, c2, c3 = cnt['failing'], cnt['rural'], cnt['custom']
    chk.direct('failing-call-histories-vs-fresh(stage, exception, digest, records)', c1['n'], c1['n'],
               'a parameter that makes generate() or simulate() fail, set AFTER a successful generate; simulate - '
               'droad deeper than the ground-temperature depths (4.5, 10 m), dtsim 7 / 1800, h_ref 5, h_wind 0, h_obs 0, '
               'windmin 0, bldheight 1000, sensanth 1e5, blddensity 0, charlength 0, kroad 0, nday 0, dtweather 7200, an '
               'unknown building type - in four shapes: run, then the value; run, the value, the failing calls, the '
               'value set back; the value first, failing calls (and write_epw), set back; run, the value, failed '
               'generate, set back and ANOTHER failing value. The final generate(); simulate() must do exactly what it '
               'does on a fresh object with the same parameters: fail at the same call with the same exception class '
               '(same number of records stored), or return with the same digest and records', mismatches=c1['bad'],
               branches=c1['br'])
    chk.direct('rural-file-histories-vs-fresh(header parts, data rows, other climates; by path and in place)', c2['n'],
               c2['n'],
               'the rural file changes between two generate() calls - epw_path assigned to another file, or the CONTENT '
               'of the named file replaced - from the shipped Singapore file to X and from X back, for X = copies that '
               'differ in ONE interpreted header part (LOCATION latitude / longitude / time zone / elevation / all four / '
               'city text only; ground temperatures 6 K lower / depths 1-3-6 m / a single depth), in the data rows, '
               'and the shipped Toronto and Boston files; some with a simulate() in between, two changes in a row: '
               'state digest after generate() (incl. lat, lon, gmt, RSM, ground-temperature tables), the site read '
               'back and the hourly records vs a fresh object constructed on the current file', mismatches=c2['bad'],
               branches=c2['br'])
    chk.direct('custom-era-case-histories-vs-fresh(digest, records, caller\'s objects)', c3['n'], c3['n'],
               'objects with custom reference buildings - a DOE archetype replaced, a new type, two customs of which one '
               'is not in the stock, one new type in two eras - whose stock rows write the era as pst80 / Pst80 / PST80 / '
               'pSt80 (new / New / NEW / nEw), through: run twice; override set, run, unset; autosize on, run, off; run, '
               'then the stock re-assigned with another spelling of the era: final generate(); simulate() vs a fresh '
               'object carrying EQUAL customs built anew from the same description (not copies of the possibly used '
               'objects); BEM shares no object with the caller\'s customs; the caller\'s BEMDef / SchDef objects have the '
               'same deep digest after the whole history as before', mismatches=c3['bad'], branches=c3['br'])


# ----------------------------------------------------------------------------------------------------------
# Fourth round: circumstances. "A fresh object in the same process" is no reference when the past lives at class
# level (it pollutes the fresh object as well), and nothing of the above runs under `python -O` or through the
# command line. Every history below is therefore run by harness/u2_util.run_scenario in a FRESH interpreter, plain
# and optimised, and judged against a fresh object in a fresh plain interpreter that has done nothing else.
def circumstance_members(work, quick):
    import simdriver
    base = [['nday', 1], ['dtsim', 300], ['bld', [list(r) for r in STOCK]], ['zone', '1A']]
    toronto = simdriver.epw_path(simdriver.EPWS[2])
    # a custom that REPLACES a DOE archetype of the stock and brings its own schedule set and plant
    a_doe = [{'type': 'largeoffice', 'era': 'pst80', 'src': [3, 1, 0], 'bem': {'building.heateff': 0.7, 'wall.albedo': 0.35},
              'sch': {'q_elec': 43.04, 'cool': {'const': 18.0}, 'occ': {'const': 1.0}}}]
    a_mid = [{'type': 'midriseapartment', 'era': 'pst80', 'src': [5, 1, 0], 'bem': {'roof.albedo': 0.6},
              'sch': {'q_light': 30.0, 'heat': {'const': 23.0}}}]
    a_new = [{'type': 'labtower', 'era': 'new', 'src': [3, 2, 0], 'bem': {'building.infil': 0.5},
              'sch': {'q_elec': 60.0}}]
    lab_stock = [['bld', [['labtower', 'new', 0.5], ['midriseapartment', 'pst80', 0.5]]]]

    def model(tag, attrs=(), customs=None, epw=None):
        return {'out': [os.path.join(work, 'cc_' + tag), 'out.epw'], 'attrs': base + list(attrs), 'customs': customs,
                'epw': epw}
    tail = [['gen', 'B'], ['obs', 'B', 'final'], ['sim', 'B'], ['write', 'B'], ['rec', 'B', 'finalrec']]
    refs = {'B': {}, 'A': {'customs': a_doe}, 'T': {'epw': toronto}, 'L': {'customs': a_new, 'attrs': lab_stock}}
    # (label, reference, operations before the final generate; simulate; write_epw of model B)
    mem = [
        ('run twice', 'B', [['new', 'B', 'B'], ['gen', 'B'], ['sim', 'B']]),
        ('overrides set, run, unset', 'B',
         [['new', 'B', 'B'], ['set', 'B', 'glzr', 0.9], ['set', 'B', 'albroof', 0.7], ['set', 'B', 'shgc', 0.2],
          ['gen', 'B'], ['sim', 'B'], ['set', 'B', 'glzr', None], ['set', 'B', 'albroof', None], ['set', 'B', 'shgc', None]]),
        ('autosize on, run, off', 'B',
         [['new', 'B', 'B'], ['set', 'B', 'autosize', True], ['gen', 'B'], ['sim', 'B'], ['set', 'B', 'autosize', False]]),
        ('ANOTHER model, whose custom replaces a DOE archetype of this stock with its own schedules, generated first', 'B',
         [['new', 'X', 'A'], ['gen', 'X'], ['new', 'B', 'B']]),
        ('run; ANOTHER model with custom large-office AND mid-rise schedules generated and simulated; run again', 'B',
         [['new', 'B', 'B'], ['gen', 'B'], ['sim', 'B'], ['new', 'X', 'A2'], ['gen', 'X'], ['sim', 'X']]),
        ('ANOTHER model with overrides and autosize generated and simulated while this one waits', 'B',
         [['new', 'B', 'B'], ['new', 'X', 'D'], ['gen', 'X'], ['sim', 'X'], ['del', 'X']]),
        ('custom reference building (DOE archetype replaced, own schedules): run twice', 'A',
         [['new', 'B', 'A'], ['gen', 'B'], ['sim', 'B']]),
        ('custom reference building of a new type: override set, run, unset', 'L',
         [['new', 'B', 'L'], ['set', 'B', 'vegroof', 0.5], ['gen', 'B'], ['sim', 'B'], ['set', 'B', 'vegroof', None]]),
        ('rural file changed by path after a run', 'T',
         [['new', 'B', 'B'], ['gen', 'B'], ['sim', 'B'], ['set', 'B', 'epw_path', toronto]]),
        ('two models built from ONE dictionary object (to_dict of the model): the first gets overrides and autosize, is '
         'generated and simulated; then the second is built', 'B',
         [['newd', 'X', 'B'], ['set', 'X', 'glzr', 0.9], ['set', 'X', 'flr_h', 4.0], ['set', 'X', 'autosize', True], ['gen', 'X'],
          ['sim', 'X'], ['newd', 'B', 'B']]),
        ('run twice while somebody looks (repr / str / ToString of every reachable object after each call and every '
         '41st step, DEBUG logging)', 'B',
         [['new', 'B', 'B'], ['poke', 'B'], ['gen', 'B'], ['poke', 'B'], ['simp', 'B'], ['poke', 'B'], ['gen', 'B'],
          ['poke', 'B']]),
    ]
    specs = {'B': {}, 'A': {'customs': a_doe}, 'A2': {'customs': a_doe + a_mid},
             'D': {'attrs': [['glzr', 0.9], ['albwall', 0.6], ['autosize', True]]},
             'T': {'epw': toronto}, 'L': {'customs': a_new, 'attrs': lab_stock}}
    if quick:
        mem = [m_ for k, m_ in enumerate(mem) if k != 5]
    return mem, refs, specs, model, tail


def circumstances(chk, work, uwg):
    import generic as G
    import u2_util as W
    quick = chk.tier == 'quick'
    mem, refs, specs, model, tail = circumstance_members(work, quick)
    jobs, meta = [], {}

    jsons = {}

    def expand(ops, tag):
        out = []
        for op in ops:
            if op[0] == 'newd':
                if op[2] not in jsons:
                    import json
                    sp = specs[op[2]]
                    jsons[op[2]] = os.path.join(work, 'cc_%s.json' % op[2])
                    with open(jsons[op[2]], 'w') as f:
                        json.dump(W.new_from_spec(uwg, model('json', sp.get('attrs', ()), sp.get('customs'), sp.get('epw'))
                                                  ).to_dict(include_refDOE=True), f)
                out.append(['newd', op[1], {'json': jsons[op[2]], 'out': [os.path.join(work, 'cc_%s_%s' % (tag, op[1])), 'out.epw']}])
            elif op[0] == 'new':
                sp = specs[op[2]]
                out.append(['new', op[1], model('%s_%s' % (tag, op[1]), sp.get('attrs', ()), sp.get('customs'), sp.get('epw'))])
            else:
                out.append(op)
        return out
    for r in refs:                                      # fresh object, fresh process (plain; and optimised)
        for opt in (False, True):
            tag = 'ref%s%s' % (r, '-O' if opt else '')
            jobs.append((tag, {'ops': expand([['new', 'B', r]], tag) + tail}, opt))
    for k, (label, r, ops) in enumerate(mem):
        for opt in (False, True):
            tag = 'h%d%s' % (k, '-O' if opt else '')
            looked = 'looks' in label
            fin = tail if not looked else [['gen', 'B'], ['poke', 'B'], ['obs', 'B', 'final'], ['simp', 'B'], ['poke', 'B'],
                                           ['write', 'B'], ['rec', 'B', 'finalrec']]
            jobs.append((tag, {'ops': expand(ops, tag) + fin, 'debug': looked}, opt))
            meta[tag] = (label, r, ops, opt)
    # the command line is a route to a fresh object as well
    import s3_util
    pfile = s3_util.write_param_file(U.rp(U.PARAM_SGP), os.path.join(work, 'cc_cli.uwg'), {'nDay': '1'})
    outs = W.children(jobs, work, workers=10)
    bad, br, shown = 0, {}, {}

    def report(tie, case, observed, expected, kind='differs'):
        nonlocal bad
        bad += 1
        shown[kind] = shown.get(kind, 0) + 1
        if shown[kind] <= (3 if kind == 'differs' else 1):
            chk.violation('impl-violation', tie, case=case, observed=observed, expected=expected)
    ref = {}
    for r in refs:
        rc, doc, err = outs['ref' + r]
        if doc is None or any(x != 'ok' for x in doc['log']):
            raise core.Infra('reference scenario %s failed in a fresh process: rc=%s %s %s' % (r, rc, doc and doc['log'], err))
        ref[r] = doc
    n = 0
    for tag, (rc, doc, err) in sorted(outs.items()):
        n += 1
        if tag.startswith('ref'):
            label, r, ops, opt = 'a new object in a fresh process, nothing else done', tag[3:].replace('-O', ''), [], tag.endswith('-O')
        else:
            label, r, ops, opt = meta[tag]
        mode = 'python -O' if opt else 'python'
        br[mode] = br.get(mode, 0) + 1
        case = {'history_before_the_final_generate_simulate_write': label, 'operations': [o[:4] if o[0] not in ('new', 'newd') else
                [o[0], o[1], 'model ' + str(o[2])] for o in ops], 'interpreter': mode + ' (fresh process)',
                'models': {o[2]: specs[o[2]] or 'shipped Singapore parameters, 1 day, dtsim 300' for o in ops if o[0] in ('new', 'newd')}}
        if doc is None:
            report('generate_forgets: history in a fresh interpreter', case,
                   'the scenario did not finish: exit status %s, %s' % (rc, err[-300:]), 'the history runs')
            continue
        if doc['optimized'] != opt:
            raise core.Infra('child interpreter mode is not the requested one')
        failed = [(i, x) for i, x in enumerate(doc['log']) if x != 'ok']
        if failed:
            report('generate_forgets: history in a fresh interpreter', case,
                   'operation %d of the history %s under %s' % (failed[0][0], failed[0][1], mode),
                   'every call of this history returns (it does in a plain interpreter on a fresh object)')
            continue
        d = W.diff_docs(ref[r], doc, ['final', 'finalrec'])
        if d:
            fo, ho = ref[r]['obs']['final'], doc['obs'].get('final') or {}
            extra = ''
            if fo.get('sch') != ho.get('sch'):
                extra = '; schedule sets paired with the archetypes (type, era, digest): %s vs %s on the fresh object' % (
                    ho.get('sch'), fo.get('sch'))
            elif fo.get('bem') != ho.get('bem'):
                extra = '; archetypes: %s vs %s on the fresh object' % (ho.get('bem'), fo.get('bem'))
            report('generate_forgets / generate_depends_on_params_only: %s, %s' % (
                'history in a fresh interpreter' if ops else 'new object', mode), case,
                'state after the last generate() / hourly records / written file differ from a new object with the same '
                'parameter values in a fresh plain interpreter: %s%s' % (d, extra),
                'identical state digest after generate(), bit-identical hourly records, identical file')
        if doc['class_level_changes']:
            report('module- and class-level data of the package unchanged by operations on models (%s)' % mode, case,
                   'the digest of the package-level data changed at operation(s) %s' % doc['class_level_changes'][:4],
                   'no operation on a model changes module-level or class-level data (another model would read it)',
                   kind='class-level')
    # route: `uwg simulate param` (plain and -O) writes the file of the reference
    for opt in (False, True):
        n += 1
        od = os.path.join(work, 'cc_cli%d' % opt)
        os.makedirs(od, exist_ok=True)
        rc, so, se = G.cli(['simulate', 'param', pfile, U.rp(U.EPW_SGP), '--new-epw-dir', od, '--new-epw-name', 'o.epw'],
                           optimize=opt)
        op_ = os.path.join(od, 'o.epw')
        got = G.file_hash(op_) if os.path.exists(op_) else None
        br['command line'] = br.get('command line', 0) + 1
        if rc != 0 or got != ref['B']['obs']['finalrec']['file']:
            report('generate_depends_on_params_only: the command line route', {
                'command': 'python %s-m uwg simulate param <shipped Singapore parameters, nDay 1> <Singapore epw>' % ('-O ' if opt else '')},
                'exit status %s; written file %s' % (rc, 'differs from' if got else 'missing;'),
                'the file a new object with these parameters writes')
    chk.direct('circumstances(fresh processes: python / python -O / CLI; other models; observers; class-level data)', n, n,
               'each history is run in a FRESH interpreter, once plain and once with -O, and its final generate(); '
               'simulate(); write_epw() is compared (state digest after generate incl. BEM and Sch, hourly records, '
               'file hash) with a NEW object in a fresh plain interpreter that did nothing else - not with a new object '
               'of the same process, which a class-level memory would pollute as well. Histories (%d): run twice; '
               'overrides set / run / unset; autosize on / run / off; ANOTHER model alive in the process - one whose '
               'custom replaces a DOE archetype of this stock with its own schedule set, generated before, or generated '
               'and simulated between two runs, one with overrides and autosize; an object with a custom reference '
               'building (DOE archetype replaced / new type) run twice; two models built from ONE dictionary object of which '
               'the first gets overrides and runs; rural file changed by path; the whole history '
               'while repr / str / ToString of every reachable object is taken after each call and every 41st step '
               'under DEBUG logging. New objects in fresh -O processes and `python [-O] -m uwg simulate param` give the '
               'reference too. In every process the digest of all module- and class-level data of the package is taken '
               'after every operation and must never change' % len(mem), mismatches=bad, branches=br)


# ----------------------------------------------------------------------------------------------------------
# Fifth round: calls that are INTERRUPTED. The failing calls of the third round all end in an Exception; a user who
# presses Ctrl-C, an observer calling sys.exit(), a generator being closed leave a call through a BaseException - code
# written as `except Exception:` (instead of `finally:`) does not see them. Family in harness/v2_util.py.
def interrupted_calls(chk, uwg):
    import v2_util as V
    n, bad, br, points = V.interrupt_ties(chk, uwg)
    chk.direct('interrupted-call-histories-vs-fresh(KeyboardInterrupt / SystemExit / GeneratorExit inside generate, simulate, write_epw)',
               n, n, V.INTERRUPT_RULE + ' (interruption points of a 1-day run: %s)' % ', '.join(
                   '%s() %d' % kv for kv in sorted(points.items())), mismatches=bad, branches=br)


def run(chk):
    from props import generate
    chk.proof(MODULE, THEOREMS + generate.THEOREMS, extra_modules=[generate.MODULE])
    if chk.tier == 'thorough':
        chk.leanchecker([MODULE, generate.MODULE])
    uwg = U.uwg_mod()
    work = chk.work()
    rng = chk.rng
    nh = 6 if chk.tier == 'quick' else 60
    make_epws(work)
    corpus = [[('gen',), ('sim',), ('gen',), ('sim',)],
              [('setg', 0), ('gen',), ('unsetg',), ('gen',), ('sim',)],
              [('sim',), ('seta', 1000), ('gen',), ('sim',), ('unseta',), ('gen',), ('sim',)],
              [('setp', 'autosize', True), ('gen',), ('setp', 'autosize', False), ('gen',), ('sim',)],
              [('gen',), ('setp', 'epw_path', 'B'), ('gen',), ('sim',)],
              [('setp', 'month', 7), ('gen',), ('sim',), ('setp', 'month', 1), ('setp', 'droad', 0.25), ('gen',), ('sim',)]]
    hist = corpus + [gen_history(rng, with_params=(k % 2 == 1)) for k in range(nh)]
    cases, bad, bad2, nsim = [], 0, 0, 0
    for h in hist:
        m = base_model(work)
        tr = Tracker(uwg, 0)
        trace, texts = [], []
        state_m = None
        for k, op in enumerate(h):
            if k == len(h) - 1:
                # (every history ends in generate; simulate: this is the state right after the last generate - taken
                #  here instead of re-running every history a second time for it, which cost 7 s of the quick tier)
                state_m = U.model_state(m)
            apply_op(m, tr, op)
            nsim += op[0] == 'sim'
            if op[0] != 'setp':
                trace.append(tr.obj(m))
                texts.append(':'.join(['0'] + [str(x) for x in op]))
        line = 'world n=1 asis=0 ref=[1000;1001] ops=[%s]' % ';'.join(texts)
        cases.append((line, 'ok ' + '|'.join(trace)))
        # differential oracle: same final parameters on a fresh object
        f = base_model(work)
        for p in PARAMS:
            setattr(f, p, getattr(m, p))
        with core.quiet():
            f.generate()
        # state digest right after generate: history then generate vs fresh generate
        if state_m != U.model_state(f):
            bad2 += 1
            chk.violation('impl-violation', 'generate_depends_on_params_only: state digest after generate',
                          case={'history': [list(o) for o in h[:-1]]},
                          observed='state after history+generate differs from fresh generate',
                          expected='identical digests of BEM, Sch, road, rural, UCM, UBL, RSM, forcing, clock')
        # the simulation results bit for bit
        with core.quiet():
            f.simulate()
        if U.records(f) != U.records(m):
            bad += 1
            diff = next((n for n, (a, b) in enumerate(zip(U.records(f), U.records(m))) if a != b), None)
            chk.violation('impl-violation', 'generate_forgets: history vs fresh object',
                          case={'history': [list(o) for o in h]},
                          observed='hourly records differ from a fresh object with the same parameters '
                                   '(first differing hour %s: %s vs %s)' % (
                                       diff, U.records(m)[diff][:2], U.records(f)[diff][:2]),
                          expected='bit-identical hourly records')
    chk.correspond('UWG-object-history~toy-machine', 'C17', cases,
                   rule='operation histories (set/unset glzr & albroof incl. 0 and 1, generate, simulate; some '
                        'also change other parameters) on a real UWG object; after every operation the '
                        'abstraction (override visible in the selected library archetypes, dirtiness, what the '
                        'last simulation started from) must equal the Lean toy machine; corpus = the two '
                        'repaired histories first',
                   classify=lambda l, a: 'len%d' % l.count(':sim'))
    chk.direct('history-vs-fresh(records)', len(hist), len(hist),
               'final generate;simulate of every history vs a fresh object with the same current parameters: '
               'hourly records bit-identical (%d real 1-day simulations)' % (nsim + len(hist)),
               mismatches=bad)
    chk.direct('state-after-generate(digest)', len(hist), len(hist),
               'deep bit-exact digest of every object a simulation starts from, after history+generate vs fresh '
               '(taken on the same objects, right before the final simulate)',
               mismatches=bad2)
    extended_histories(chk, work, uwg)
    third_round_histories(chk, work, uwg)
    circumstances(chk, work, uwg)
    interrupted_calls(chk, uwg)
    chk.assumptions.append('the physics is uninterpreted in the theorem (any machine); the tie checks that the '
                           'real generate() has the modelled shape (reload pristine library, apply current '
                           'parameters) on generated histories')
    chk.notes.append('caller-supplied custom BEMDef objects are deep-copied into the library by generate(), so a '
                     'simulation no longer alters them')
    # composition E: generate() as one Lean function, tied exactly to the real generate()
    generate.run_generate(chk)
