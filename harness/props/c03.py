"""C03 - urban weather at hour h depends only on rural data up to hour h.

Round 5 (helpers in harness/v1_util.py): hand-over twins - what generate() hands to simulate() and what the loop hands to
the physics at every step, compared between twin rural files / window lengths for off-grid pavement thicknesses and
ground records with 0..6 depths (handover_twins); a difference is confirmed by a pair of un-stubbed runs."""
import csv
import os

import core
import uwgutil as U

MODULE = 'UwgVerif.Props.C03'
THEOREMS = ['Uwg.C03.causal', 'Uwg.C03.extend_days', 'Uwg.C03.outside_window_irrelevant',
            'Uwg.C03.unmodelled_columns_irrelevant', 'Uwg.C03.nsoil_lt3_only_via_mean',
            'Uwg.C03.rowIdx_le_of_before_record']

MODELLED = [6, 8, 9, 12, 14, 15, 20, 21]     # columns that reach the physics
READ_UNUSED = [7, 13]                        # read by Weather, never used by the model


def load_epw(path):
    with open(path, newline='', errors='ignore') as f:
        return [r for r in csv.reader(f)]


def save_epw(rows, path):
    with open(path, 'w', newline='') as f:
        csv.writer(f, lineterminator='\n').writerows(rows)


def perturb_value(rng, col, old):
    try:
        v = float(old)
    except ValueError:
        return old
    if col == 6:
        return '%.1f' % (v + rng.choice([-7.3, 4.1, 9.9]))
    if col == 8:
        return '%d' % min(100, max(5, int(v) + rng.choice([-30, 25, 11])))
    if col == 9:
        return '%d' % (int(v) + rng.choice([-900, 700]))
    if col in (12, 14, 15):
        return '%d' % max(0, int(v) + rng.choice([90, 250, -40]))
    if col == 20:
        return '%d' % ((int(v) + 90) % 360)
    if col == 21:
        return '%.1f' % (v + rng.choice([2.5, 5.0, 0.7]))
    return '%s9' % old if old.replace('.', '').isdigit() else old + 'x'


def run_model(epw, outdir, name, **attrs):
    m = U.new_model(epw=epw, outdir=outdir, outname=name, **attrs)
    with core.quiet():
        m.generate()
        m.simulate()
        m.write_epw()
    recs = U.records(m)
    written = load_epw(m.new_epw_path)
    return m, recs, written


def first_diff(a, b, upto):
    for n in range(upto):
        if a[n] != b[n]:
            return n
    return None


def footprint_scan(repo):
    """Syntactic half of the assumption "a step reads only the current forcing row": inside
    UWG.simulate every subscript of self.forcIP.<field> is [self.ceil_time_step] (the whole-window
    mean of forcIP.temp in the nSoil<3 branch is the documented exception), and no other module of
    the package mentions the rural containers at all."""
    import ast
    import re
    bad, nsub = [], 0
    src = open(os.path.join(repo, 'uwg', 'uwg.py'), 'rb').read().decode('utf-8', 'ignore')
    tree = ast.parse(src)
    sim = [n for n in ast.walk(tree) if isinstance(n, ast.FunctionDef) and n.name == 'simulate']
    if len(sim) != 1:
        return ['UWG.simulate not found'], 0
    for n in ast.walk(sim[0]):
        if isinstance(n, ast.Subscript) and isinstance(n.value, ast.Attribute) and \
                isinstance(n.value.value, ast.Attribute) and n.value.value.attr == 'forcIP':
            nsub += 1
            idx = ast.unparse(n.slice)
            if idx != 'self.ceil_time_step':
                bad.append('simulate: self.forcIP.%s[%s]' % (n.value.attr, idx))
        if isinstance(n, ast.Attribute) and n.attr in ('weather', 'epwinput', '_header', 'climate_data'):
            bad.append('simulate reads self.%s (line %d)' % (n.attr, n.lineno))
    whole = [ast.unparse(n) for n in ast.walk(sim[0]) if isinstance(n, ast.Call) and
             'forcIP' in ast.unparse(n) and isinstance(n.func, ast.Name) and n.func.id in ('sum', 'len')]
    for w in whole:
        if not re.fullmatch(r'(sum|len)\(self\.forcIP\.temp\)', w):
            bad.append('simulate: whole-window read %s' % w)
    for fn in sorted(os.listdir(os.path.join(repo, 'uwg'))):
        if fn.endswith('.py') and fn not in ('uwg.py', 'weather.py', 'forcing.py', '__init__.py'):
            t = open(os.path.join(repo, 'uwg', fn), 'rb').read().decode('utf-8', 'ignore')
            for name in ('forcIP', 'epwinput', '_climate_data', 'staTemp', 'staRhum'):
                if re.search(r'\b%s\b' % name, t):
                    bad.append('%s mentions %s' % (fn, name))
    return bad, nsub


class LogList(list):
    """A rural data list that records how the running simulation reads it."""

    def bind(self, name, log, model):
        self._n, self._log, self._m = name, log, model
        return self

    def _note(self, how, idx):
        self._log.append((self._n, how, idx, getattr(self._m, 'ceil_time_step', None)))

    def __getitem__(self, i):
        self._note('item', i)
        return list.__getitem__(self, i)

    def __iter__(self):
        self._note('iter', None)
        return list.__iter__(self)

    def __len__(self):
        return list.__len__(self)


def dynamic_footprint(chk):
    """Dynamic half of the assumption "a step reads only the current forcing row": real, un-stubbed
    simulations in which every rural list of forcIP (and the containers of the rural file) is
    replaced by a logging list; every read must be at index ceil_time_step of that step, whole-list
    reads are allowed only for forcIP.temp (the window mean when there are < 3 ground depths)."""
    import uwgutil as U2
    bad, nreads, runs = [], 0, 0
    fields = ('infra', 'wind', 'uDir', 'hum', 'pres', 'temp', 'rHum', 'prec', 'dif', 'dir')
    for (mo, dy, dt, nsoil3, extra) in [(1, 1, 300, True, {}), (6, 30, 150, True, {}), (3, 1, 300, False, {}),
                                        # pavement below the deepest ground depth (refused on the pinned tree)
                                        (2, 2, 300, True, {'droad': 4.5})]:
        m = U2.new_model(outdir=chk.work(), outname='fp.epw', month=mo, day=dy, nday=1, dtsim=dt, **extra)
        try:
            with core.quiet():
                m.generate()
        except Exception as e:  # noqa  (a refused parameter set: no run, nothing to observe)
            chk.notes.append('dynamic footprint run %s refused by generate(): %s' % ((mo, dy, dt), str(e)[:60]))
            continue
        if not nsoil3:
            m.nSoil = 2
        log = []
        for f in fields:
            setattr(m.forcIP, f, LogList(getattr(m.forcIP, f)).bind('forcIP.' + f, log, m))
        m.epwinput = LogList(m.epwinput).bind('epwinput', log, m)
        m.weather.staTemp = LogList(m.weather.staTemp).bind('weather.staTemp', log, m)
        try:
            with core.quiet():
                m.simulate()
        except Exception as e:  # noqa
            chk.notes.append('dynamic footprint run %s skipped: %s' % ((mo, dy, dt), str(e)[:60]))
            continue
        runs += 1
        nreads += len(log)
        for (name, how, idx, row) in log:
            ok = (how == 'item' and name.startswith('forcIP.') and idx == row) or \
                 (how == 'iter' and name == 'forcIP.temp' and not nsoil3)
            if not ok and len(bad) < 3:
                bad.append('%s read by %s at index %r while the step\'s row is %r (start %d/%d dt=%d)' % (
                    name, how, idx, row, mo, dy, dt))
    if bad:
        chk.corr_problems.append({'tie': 'dynamic-footprint', 'case': '; '.join(bad),
                                  'impl': 'rural data read outside the current forcing row',
                                  'model': 'physics step reads (state, current row, clock, deep temperature)'})
    chk.direct('dynamic-footprint(real simulate, logging lists)', nreads, runs,
               'un-stubbed 1-day simulations with every rural list replaced by a logging list: every one of the '
               '%d reads is forcIP.<field>[ceil_time_step] of its own step (whole-list reads only of forcIP.temp '
               'when the file has < 3 ground depths); epwinput / weather lists are not read at all' % nreads,
               mismatches=len(bad), samples=bad or ['%d reads in %d runs, all at the current row' % (nreads, runs)])


def toy_cases(chk, n, bad_dt=False):
    """Real simulate loop with toy physics vs Lean Sim.simulate with the same toy physics."""
    import simdriver
    import simtoy
    rng = chk.rng
    divs = [d for d in range(1, 3601) if 3600 % d == 0 and d >= 20]
    cases = []
    for k in range(n):
        dt = rng.choice(divs) if not (bad_dt and k % 3 == 0) else rng.choice([7, 480, 96, 540, 1000, 2700, 3601, 7200])
        month, day = rng.choice([(1, 1), (2, 28), (4, 30), (7, 4), (12, 30), (12, 31), (10, 31)])
        days = rng.choice([1, 1, 2]) if (month, day) != (12, 31) else 1
        if (month, day) == (12, 30):
            days = min(days, 2)
        if bad_dt and k % 5 == 1:       # windows that run past 31 December (C10: must end in an exception)
            month, day, days = rng.choice([(12, 31, 2), (12, 30, 3), (12, 31, 3)])
        nsoil3 = rng.random() < 0.6
        raise_mod = rng.choice([0, 0, 97, 211, 53])
        s0 = rng.randint(0, 999)
        codes = [rng.randint(0, 999) for _ in range(24 * days)]
        if not nsoil3:      # make the window mean an integer so that int() is exact
            codes[-1] += (-sum(codes)) % len(codes)
        try:
            with core.quiet():
                m = simdriver.build_model(month, day, days, dt)
        except ZeroDivisionError:
            cases.append((None, 'err zerodiv []'))
            continue
        except Exception as e:  # SimParam refuses the timestep in generate()
            line = 'sim dt=%d M=%d D=%d days=%d nsoil3=%d mean=0 raise=%d s0=%d rows=[%s]' % (
                dt, month, day, days, 1 if nsoil3 else 0, raise_mod, s0, ';'.join(map(str, codes)))
            cases.append((line, 'err timestep []' if 'TIMESTEP' in str(e) else 'err ' + type(e).__name__))
            continue
        codes = codes[:len(m.forcIP.temp)]     # the window Weather really cut out of the file
        if not nsoil3 and codes:
            codes[-1] += (-sum(codes)) % len(codes)
        recs, err, mean = simtoy.toy_run(m, codes, s0, raise_mod, nsoil3)
        line = 'sim dt=%d M=%d D=%d days=%d nsoil3=%d mean=%d raise=%d s0=%d rows=[%s]' % (
            dt, month, day, days, 1 if nsoil3 else 0, mean or 0, raise_mod, s0, ';'.join(map(str, codes)))
        ans = ('ok ' if err is None else 'err %s ' % err) + '[' + ';'.join(map(str, recs)) + ']'
        cases.append((line, ans))
    return [c for c in cases if c[0]]


def cmp_runs(chk, kind, case, a, b, first, upto, bad_box):
    """Records (8 fields) and written cells 6,7,8,21 of two finished runs must be bit-identical for hours < upto."""
    (m1, r1, w1), (m2, r2, w2) = a, b
    d = first_diff(r1, r2, upto)
    dw = None
    for n in range(upto):
        x, y = w1[first + n], w2[first + n]
        if [x[c] for c in (6, 7, 8, 21)] != [y[c] for c in (6, 7, 8, 21)]:
            dw = n
            break
    if d is None and dw is None:
        return True
    n = d if d is not None else dw
    bad_box[0] += 1
    if bad_box[0] <= 3:
        chk.violation('impl-violation', 'causality: paired runs differ at hour %d (%s)' % (n, kind), case=case,
                      observed='hour %d: records %s vs %s; written %s vs %s' % (
                          n, r1[n][:3], r2[n][:3], [w1[first + n][c] for c in (6, 7, 8, 21)],
                          [w2[first + n][c] for c in (6, 7, 8, 21)]),
                      expected='records and written rows for hours <= %d bit-identical' % (upto - 1))
    return False


def try_run(epw, work, name, **attrs):
    """run_model, or the exception the model raised (its own fail-stop / a refused configuration)."""
    try:
        return run_model(epw, work, name, **attrs), None
    except Exception as e:  # noqa: BLE001
        return None, '%s: %s' % (type(e).__name__, str(e)[:100])


def variant_pairs(chk, work, base):
    """Paired real runs on legal but never-varied rural files (s1_util). What is demanded follows the property:
    header cells the model does not document as inputs are 'unmodelled columns'; an isolated outlier or an EPW
    missing marker at or before the cut hour is ordinary rural data up to h; a configuration that is refused
    (pavement below the deepest ground-temperature depth) produces no urban value, but if it is accepted its values
    must obey the same causality; an 8784-row file is read by row offset like any other."""
    import s1_util as S
    rng = chk.rng
    thorough = chk.tier == 'thorough'
    bad = [0]
    total, branches = 0, {}

    def count(kind):
        branches[kind] = branches.get(kind, 0) + 1

    def window(month, day, nday):
        return 8 + 24 * S.doy0(month, day), 24 * nday

    # ---- (1) same data, other header cells: every hour of the window bit-identical -----------------
    for rep in range(1 if not thorough else 4):
        month, day = rng.choice([(3, 1), (6, 29), (9, 14), (11, 2), (3, 30), (7, 15)])
        attrs = dict(month=month, day=day, nday=1, dtsim=300)
        first, nh = window(month, day, 1)
        ref, err = try_run(S.save_epw(base, os.path.join(work, 'hv_ref.epw')), work, 'hva.epw', **attrs)
        if ref is None:
            chk.notes.append('header-variant reference run %s skipped: %s' % (attrs, err))
            continue
        combos = ['actual-year-header',
                  '+'.join([rng.choice(S.GROUPS['weekday']), rng.choice(S.GROUPS['dst']), 'holidays-listed',
                            'ground-props-filled', 'comments']),
                  '+'.join(['leapflag-Yes', 'no-design-conditions', 'location-text', 'ground-props-partly'])]
        if thorough:
            combos += list(S.HEADER_VARIANTS)
        for name in combos:
            rows = S.apply_variant(base, name)
            if 'location-text' in name:
                rows[0][9] = base[0][9]          # (elevation is not varied here: keep to cells no routine reads)
            got, err = try_run(S.save_epw(rows, os.path.join(work, 'hv_var.epw')), work, 'hvb.epw', **attrs)
            case = {'kind': 'header-variant', 'epw_variant': name, 'params': attrs,
                    'header cells changed (line, cell, old, new)': S.header_cells_changed(base, rows)[:12]}
            total += 1
            count('header-variant')
            if got is None:
                bad[0] += 1
                chk.violation('impl-violation', 'a legal rural file (other header cells, same data) is not simulated',
                              case=case, observed=err, expected='the same urban hours as with the shipped header')
                continue
            cmp_runs(chk, 'header-variant: same rural data, other header cells', case, ref, got, first, nh, bad)

    # ---- (2) isolated outliers / missing markers at and before the cut hour, in BOTH files -------------
    for rep in range(1 if not thorough else 5):
        month, day = rng.choice([(1, 1), (4, 11), (8, 20), (10, 3)])
        first, nh = window(month, day, 1)
        h = rng.randint(8, 17)
        rows = S.copy_rows(base)
        marks = {}
        marks['dry bulb at h'] = S.put_outlier(rows, first + h, 6, rng.choice([1, -1]))
        marks['dry bulb at the last hour of day 1'] = S.put_outlier(rows, first + 23, 6, rng.choice([1, -1]))
        marks['humidity at h-3'] = S.put_outlier(rows, first + h - 3, 8)
        marks['wind at h-1'] = S.put_outlier(rows, first + h - 1, 21)
        marks['direct normal at h-2'] = S.put_outlier(rows, first + h - 2, 14)
        marks['pressure at h-5'] = S.put_outlier(rows, first + h - 5, 9)
        for c in (7, 13, 16, 22):                       # missing markers in unmodelled cells of the cut row
            rows[first + h][c] = S.MISSING[c]
        src = S.save_epw(rows, os.path.join(work, 'out_src.epw'))
        pert = S.copy_rows(rows)
        for i in range(first + h + 1, first + nh + 24):
            for c in MODELLED:
                pert[i][c] = perturb_value(rng, c, pert[i][c])
        attrs = dict(month=month, day=day, nday=1, dtsim=300)
        a, e1 = try_run(src, work, 'oa.epw', **attrs)
        b, e2 = try_run(S.save_epw(pert, os.path.join(work, 'out_pert.epw')), work, 'ob.epw', **attrs)
        c2, e3 = try_run(src, work, 'oc.epw', **dict(attrs, nday=2))
        case = {'kind': 'after-cut-with-isolated-outliers', 'params': attrs, 'cut_hour': h, 'first_row': first,
                'outliers (both files)': marks}
        if a is None:
            chk.notes.append('outlier pair %s skipped: %s' % (attrs, e1))
            count('skipped(model raised)')
            continue
        if b is not None:
            total += 1
            count('after-cut-with-isolated-outliers')
            cmp_runs(chk, 'after-cut, isolated outliers at and before the cut hour in both files', case, a, b,
                     first, h + 1, bad)
        if c2 is not None:
            total += 1
            count('longer-window-with-outlier-in-last-hour')
            cmp_runs(chk, 'longer window from the same start, isolated dry-bulb outlier in the last hour of the '
                     'shorter window', dict(case, kind='longer-window-with-outlier-in-last-hour',
                                            other_params=dict(attrs, nday=2)), a, c2, first, 24, bad)

    # ---- (3) pavement below the deepest ground-temperature depth (>= 3 depths in the file) ----------
    deep = [('droad=4.5 on the shipped depths 0.5/2/4 m', None, 4.5),
            ('three depths 0.1/0.2/0.3 m, default droad', ['0.1', '0.2', '0.3'], None)]
    if thorough:
        deep += [('droad=12 on four depths', ['0.5', '1', '2', '8'], 12.0), ('droad=4.01', None, 4.01)]
    for (label, depths, droad) in deep:
        month, day = rng.choice([(1, 1), (5, 5), (9, 30)])
        first, nh = window(month, day, 1)
        rows = S.copy_rows(base)
        if depths:
            rows[3] = S.ground_line(depths, temps=lambda i, m: '%.2f' % (25.5 + i + 0.2 * m))
        src = S.save_epw(rows, os.path.join(work, 'deep_src.epw'))
        h = rng.randint(0, 12)
        pert = S.copy_rows(rows)
        for i in range(first + h + 1, first + nh):
            pert[i][6] = perturb_value(rng, 6, pert[i][6])
        attrs = dict(month=month, day=day, nday=1, dtsim=300)
        if droad:
            attrs['droad'] = droad
        a, e1 = try_run(src, work, 'da.epw', **attrs)
        b, e2 = try_run(S.save_epw(pert, os.path.join(work, 'deep_pert.epw')), work, 'db.epw', **attrs)
        c2, e3 = try_run(src, work, 'dc.epw', **dict(attrs, nday=2))
        total += 1
        case = {'kind': 'pavement-below-deepest-ground-depth', 'what': label, 'params': attrs, 'cut_hour': h,
                'GROUND TEMPERATURES': rows[3][:20]}
        if a is None and b is None and c2 is None:
            count('deep-pavement: refused (no urban value exists)')
            continue
        count('deep-pavement: accepted')
        if a is not None and b is not None:
            cmp_runs(chk, 'pavement below the deepest of >= 3 ground depths, later dry-bulb rows changed', case,
                     a, b, first, h + 1, bad)
        if a is not None and c2 is not None:
            cmp_runs(chk, 'pavement below the deepest of >= 3 ground depths, one more day simulated',
                     dict(case, other_params=dict(attrs, nday=2)), a, c2, first, 24, bad)
        if (a is None) != (b is None):
            chk.notes.append('deep pavement %s: one run refused, the other not: %s / %s' % (label, e1, e2))

    # ---- (4) 8784-row leap file: rows after the cut AND every row outside the window changed ---------
    for rep in range(1 if not thorough else 3):
        month, day = rng.choice([(3, 1), (2, 28), (7, 7)])
        leap = S.leap_rows(base)
        first, nh = window(month, day, 1)                 # the model reads by row offset
        h = rng.randint(0, nh - 2)
        pert = S.copy_rows(leap)
        for i in list(range(8, first)) + list(range(first + h + 1, len(pert))):
            if i > first or i % 5 == 0 or first - i < 30:
                for c in MODELLED:
                    pert[i][c] = perturb_value(rng, c, pert[i][c])
        attrs = dict(month=month, day=day, nday=1, dtsim=300)
        a, e1 = try_run(S.save_epw(leap, os.path.join(work, 'leap_src.epw')), work, 'la.epw', **attrs)
        b, e2 = try_run(S.save_epw(pert, os.path.join(work, 'leap_pert.epw')), work, 'lb.epw', **attrs)
        if a is None or b is None:
            chk.notes.append('leap-file pair %s skipped: %s %s' % (attrs, e1, e2))
            count('skipped(model raised)')
            continue
        total += 1
        count('leap-file: after-cut + outside-window')
        cmp_runs(chk, '8784-row file: rows after the cut and all rows outside the window (by offset) changed',
                 {'kind': 'leap-file', 'params': attrs, 'cut_hour': h, 'first_row': first}, a, b, first, h + 1, bad)

    chk.direct('paired-runs(legal rural-file variants)', total, total,
               'pairs of real generate;simulate;write_epw runs (1 day, dt 300): (1) the same rural data under other '
               'header cells - an actual-year header; a combination of start week-day, DST period, holidays, filled '
               'soil-property cells, comments; a combination of leap flag Yes, design conditions dropped, location text, '
               'partly filled soil cells - start dates from March on included: all 24 hours bit-identical; (2) isolated '
               'outliers (dry bulb +-13.7 K against both neighbours at the cut hour h and in the last hour of the day, '
               'humidity, wind, direct normal, pressure before h) and missing markers in unmodelled cells of row h, in '
               'BOTH files, rows after h changed: hours <= h bit-identical; and the same file simulated one more day: all '
               '24 hours bit-identical; (3) pavement below the deepest of three ground depths (droad 4.5; depths '
               '0.1/0.2/0.3): refused by both runs, or - if accepted - hours <= h / the first day bit-identical; (4) an '
               '8784-row file with rows after the cut and outside the window changed',
               mismatches=bad[0], branches=branches)


def window_statistic_pairs(chk, work, base):
    """Paired real runs for decisions taken on a whole-window STATISTIC of a rural column (max / min / mean /
    'all readings <= 1, so it must be a fraction' / 'all equal, so the sensor is dead'): the hours up to the cut hold
    a degenerate but legal series in one or several modelled columns (t1_util.DEGENERATE), in BOTH files; in one file
    the series simply continues to the end of the window, in the other the later rows are ordinary. A point-wise
    reading cannot tell the two apart before the cut; anything decided on the window can."""
    import s1_util as S
    import t1_util as T1
    rng = chk.rng
    thorough = chk.tier == 'thorough'
    bad, total, branches, skipped = [0], 0, {}, 0
    members = [('combined: ' + ' + '.join(T1.COMBINED_LOW), T1.COMBINED_LOW), (None, ['rh<=1 (looks like a fraction)'])]
    if thorough:
        members += [('combined: ' + ' + '.join(T1.COMBINED_HIGH), T1.COMBINED_HIGH)] + [(None, [k]) for k in T1.DEGENERATE]
    else:
        members.append((None, [rng.choice([k for k in T1.DEGENERATE if k != 'rh<=1 (looks like a fraction)'])]))
    for mi, (label, names) in enumerate(members):
        label = label or names[0]
        month, day = rng.choice([(1, 1), (3, 30), (6, 29), (9, 14), (11, 2)])
        first = 8 + 24 * S.doy0(month, day)
        h = rng.randint(2, 21)
        attrs = dict(month=month, day=day, nday=1, dtsim=300)
        src = S.copy_rows(base)
        T1.degenerate_prefix(src, first, h + 1, names)              # ordinary rows after the cut
        alt = S.copy_rows(base)
        T1.degenerate_prefix(alt, first, 48, names)                 # the series continues (also into the next day)
        a, e1 = try_run(S.save_epw(src, os.path.join(work, 'ws_src.epw')), work, 'wsa.epw', **attrs)
        b, e2 = try_run(S.save_epw(alt, os.path.join(work, 'ws_alt.epw')), work, 'wsb.epw', **attrs)
        case = {'kind': 'degenerate-series-up-to-the-cut', 'series': label, 'params': attrs, 'cut_hour': h,
                'first_row': first, 'cells of the first window rows (cols 6,8,9,12,14,15,20,21)':
                    [[src[first + n][c] for c in MODELLED] for n in range(3)],
                'how': 't1_util.degenerate_prefix(rows, first_row, cut_hour + 1, names) vs (rows, first_row, 48, names)'}
        if a is None or b is None:
            skipped += 1
            chk.notes.append('window-statistic pair %s %s skipped: %s %s' % (label[:40], attrs, e1, e2))
        else:
            total += 1
            branches['after-cut'] = branches.get('after-cut', 0) + 1
            cmp_runs(chk, 'degenerate series (%s) up to the cut in both files; later rows ordinary in one file, the '
                     'series continued in the other' % label, case, a, b, first, h + 1, bad)
        if mi == 0 or thorough:
            # one more day from the same start: day 1 entirely degenerate, day 2 ordinary
            day1 = S.copy_rows(base)
            T1.degenerate_prefix(day1, first, 24, names)
            pth = S.save_epw(day1, os.path.join(work, 'ws_day1.epw'))
            c1, e3 = try_run(pth, work, 'wsc.epw', **attrs)
            c2, e4 = try_run(pth, work, 'wsd.epw', **dict(attrs, nday=2))
            if c1 is None or c2 is None:
                skipped += 1
                chk.notes.append('window-statistic longer-window pair %s skipped: %s %s' % (label[:40], e3, e4))
            else:
                total += 1
                branches['longer-window'] = branches.get('longer-window', 0) + 1
                cmp_runs(chk, 'degenerate series (%s) during the whole first day, ordinary second day: nday = 1 vs 2'
                         % label, dict(case, kind='degenerate-first-day-longer-window', cut_hour=23,
                                       other_params=dict(attrs, nday=2)), c1, c2, first, 24, bad)
    chk.direct('paired-runs(degenerate series up to the cut: whole-window statistics)', total, total,
               'pairs of real generate;simulate;write_epw runs (1 day, dt 300) on copies of the Singapore file in which '
               'the hours up to a random cut hold a degenerate but legal series in modelled columns, identical in both '
               'files: relative humidity all <= 1 % (0.4 .. 1.0, what a fraction would look like), all zero, all 100, '
               '100..110; wind all calm / all equal; wind direction all 0; direct and diffuse radiation all 0; infrared '
               'all equal; dry bulb all equal / all <= 1; pressure all equal (also at the lower EPW limit) - quick tier: '
               'all of the mild ones combined in one prefix, RH <= 1 alone, one random member alone; thorough: every '
               'member alone. In one file the series continues to the end of the window, in the other the later rows '
               'are the shipped ones: hours <= cut bit-identical (records and written cells). And the same start '
               'simulated one more day when the whole first day is degenerate: all 24 hours bit-identical',
               mismatches=bad[0], branches=dict(branches, skipped=skipped))


def circumstance_pairs(chk, work, base):
    """Causality under the circumstances of harness/generic.py (through u1_util). One pair of rural files - identical up
    to a cut hour, EPW missing markers at and just before the cut hour and in the first hour IN BOTH, every modelled
    column changed after the cut in one of them - is run plainly, while every reachable object is rendered at every
    stage, with DEBUG logging, in a fresh `python -O` interpreter, through both command-line routes (also `python -O
    -m uwg`); the unperturbed file also next to another model and from the caller's own dictionary. On EVERY route the
    two runs must agree bit for bit up to the cut hour, and every run on the unperturbed file must equal the plain one."""
    import s1_util as S
    import u1_util as U1
    rng = chk.rng
    thorough = chk.tier == 'thorough'
    bad, total, branches = [0], 0, {}
    for rep in range(1 if not thorough else 3):
        import t1_util as T1
        src = None
        for attempt in range(4):
            month, day = rng.choice([(1, 1), (4, 11), (8, 20), (10, 3), (3, 30), (6, 29)])
            first = 8 + 24 * S.doy0(month, day)
            h = rng.randint(4, 18)
            # the gap at the cut: horizontal infrared (effective at every hour) in the even members, direct normal /
            # diffuse in the odd ones; a single marker of the other kind three hours earlier and one in the first hour
            c2 = rng.choice([14, 15])
            col, single = (12, c2) if rep % 2 == 0 else (c2, 12)
            cand = S.copy_rows(base)
            # values a well-meaning "repair" step could be tempted to touch, in both files: RH 100..110 and fractional,
            # calm and 10 / 20 m/s winds, pressure with a thousands separator or an exponent, other spellings
            T1.boundary_window(cand, first, 24, shift=rng.randint(0, 23), table=T1.MILD, every=3)
            marks = {'column %d at the cut hour and the hour before' % col: [first + h - 1, first + h],
                     'column %d three hours before the cut' % single: [first + h - 3],
                     'column %d in the first hour' % (15 if col != 15 else 12): [first]}
            cand[first + h][col] = cand[first + h - 1][col] = S.MISSING[col]
            cand[first + h - 3][single] = S.MISSING[single]
            cand[first][15 if col != 15 else 12] = '9999'
            probe = U1.execute(U1.spec(S.save_epw(cand, os.path.join(work, 'circ_probe.epw')),
                                       attrs=[('month', month), ('day', day), ('nday', 1), ('dtsim', 300)],
                                       outdir=os.path.join(work, 'probe'), outname='p.epw'), keep_model=False)
            if not probe.error:
                src = cand
                break
            chk.notes.append('circumstance pair: a day with these markers trips the model\'s own fail-stop (%s), another '
                             'day is drawn' % probe.error.split('\n')[0][:60])
        if src is None:
            continue
        pert = S.copy_rows(src)
        for i in range(first + h + 1, first + 48):
            for c in MODELLED:
                pert[i][c] = perturb_value(rng, c, pert[i][c])
        if pert[first + h + 1][col] == src[first + h + 1][col]:     # the hour after the gap must differ in the gap's column
            pert[first + h + 1][col] = '%d' % (int(float(src[first + h + 1][col])) + 90)
        d = os.path.join(work, 'circ%d' % rep)
        os.makedirs(d)
        pa = S.save_epw(src, os.path.join(d, 'rural_a.epw'))
        pb = S.save_epw(pert, os.path.join(d, 'rural_b.epw'))
        attrs = [('month', month), ('day', day), ('nday', 1), ('dtsim', 300)]
        spa = U1.spec(pa, attrs=attrs, outdir=os.path.join(d, 'a'), outname='m.epw')
        spb = U1.spec(pb, attrs=attrs, outdir=os.path.join(d, 'b'), outname='m.epw')
        other = U1.spec(U.rp(U.EPW_SGP), attrs=[('month', (month % 12) + 1), ('day', 5), ('nday', 1), ('dtsim', 300),
                                                ('bldheight', 30)], outname='other.epw',
                        label='another model, shipped file, other window')
        # (one after the other: the in-process members change process-wide state - logging level, sys.stdout)
        ra = U1.run_circumstances(d, spa, other, tag='a%d' % rep)
        rb = U1.run_circumstances(d, spb, None, members=[m_ for m_ in U1.ALL if m_ not in ('neighbours', 'caller data')],
                                  tag='b%d' % rep)
        plain = ra[0][1]
        if plain.error:
            chk.notes.append('circumstance pair %s h=%d skipped: the plain run raised %s' % (attrs, h, plain.error[:80]))
            continue
        byname = {nm: r for nm, r, _ in rb}
        if byname['plain'].error:
            # the changed later rows trip the model's own fail-stop: this file has no urban hours to compare with
            chk.notes.append('circumstance pair %s h=%d: the run on the perturbed file raised %s; only the comparisons with '
                             'the plain run remain' % (attrs, h, byname['plain'].error.split('\n')[0][:60]))
            byname = {}
        case0 = {'kind': 'after-cut-with-missing-markers under a circumstance', 'params': dict(attrs), 'cut_hour': h,
                 'first_row': first, 'missing markers in both files (file rows)': marks,
                 'how': 'harness/props/c03.py circumstance_pairs; harness/u1_util.py run_circumstances'}
        # the same file simulated one more day while somebody looks: day 1 must not change
        longer = U1.execute(U1.variant(spa, attrs=[list(a) for a in attrs[:2]] + [['nday', 2], ['dtsim', 300]],
                                       outname='longer_m.epw', observe=U1.STAGES), keep_model=False)
        byname['observed, one more day'] = longer
        for nm, r, msgs in ra + [('observed, one more day', None, [])]:
            total += 1
            branches[nm] = branches.get(nm, 0) + 1
            case = dict(case0, circumstance=nm)
            if nm == 'observed, one more day':
                r, twin, upto, what = [x for x in ra if x[0] == 'observed'][0][1], longer, 24, \
                    'one more day simulated from the same start'
            else:
                twin, upto, what = byname.get(nm), h + 1, 'rural rows after the cut hour changed'
            case['route'] = r.route
            msg = None
            if msgs:
                msg = (msgs[0], None, 'no trace')
            elif r.error or (twin is not None and twin.error):
                msg = ('the run did not complete', r.error or twin.error, 'the plain run completes')
            elif twin is not None:
                dr = U1.diff_records(r.records, twin.records, upto=upto) if r.records is not None and \
                    twin.records is not None else None
                dfl = U1.diff_files(r.file, twin.file, first=first, upto=upto, cols=(6, 7, 8, 21))
                if dr:
                    msg = ('%s: hourly records differ at %s' % (what, dr[0]), [dr[1], dr[2]],
                           'records for hours <= %d bit-identical' % (upto - 1))
                elif dfl:
                    msg = ('%s: written cells 6,7,8,21 differ at %s' % (what, dfl[0]), [dfl[1], dfl[2]],
                           'written rows for hours <= %d identical' % (upto - 1))
            if not msg and nm not in ('plain', 'observed, one more day'):
                ap = U1.against_plain(U1.reference_for(ra, nm), r)
                msg = ap and ('differs from the plain run on the same file: ' + ap[0], ap[1], ap[2])
            if msg:
                bad[0] += 1
                if bad[0] <= 3:
                    chk.violation('impl-violation', 'causality under a circumstance that is not an input (%s): %s' % (nm, msg[0]),
                                  case=case, observed=msg[1], expected=msg[2])
    chk.direct('paired-runs under circumstances (observers, DEBUG, python -O, command line, neighbours, caller data)',
               total, total,
               'a pair of copies of the Singapore file, identical up to a random cut hour h, with the EPW missing marker in one '
               'radiation column at hours h-1 and h (horizontal infrared; thorough: also direct normal / diffuse), in another one at '
               'h-3 and in the first hour of the window, and with every third '
               'modelled cell of the day at / beyond the EPW limits or in another spelling (t1_util.MILD) - in BOTH files -, every '
               'modelled column changed after h in one of them; 1 day, dt 300. The pair is run (1) plainly, (2) while repr / '
               'str / ToString of the model and of every reachable uwg object is taken after construction, after generate(), '
               'every 41st step of simulate(), after simulate() and after write_epw(), (3) with DEBUG logging, (4) in a fresh '
               '`python -O` interpreter, (5) through `python -m uwg simulate model`, `simulate param`, `python -O -m uwg '
               'simulate model` and a JSON with whole numbers typed as ints; the unperturbed file also (6) interleaved with another model and (7) from the caller\'s own '
               'dictionary edited after generate(); and (8) simulated one more day while being looked at. On every route: '
               'hourly records (where the route shows them) and written cells 6,7,8,21 of hours <= h (8: of the whole first '
               'day) bit-identical between the two runs, and records / bytes of the unperturbed file equal to the plain run',
               mismatches=bad[0], branches=branches)


def handover_twins(chk, work, base):
    """Round 5. Causality split at the two hand-overs, for geometries and ground records the paired runs never varied.
    (i) what generate() hands to simulate() - every object and table it builds except the containers of the window
    itself - and (ii) what the loop hands to the physics at every step (forcing row incl. deep-ground and water
    temperature, clock, day type, traffic heat, canyon humidity, schedule values and set points of every building; real
    loop, physics stubbed) are compared between a reference run and its twins: rural rows after a cut hour changed /
    EVERY rural row outside the window changed / one or two more days from the same start / unmodelled columns changed.
    Members: pavement thicknesses that end above or below a ground depth and are off the 5 cm grid (0.3, 0.1, 0.3048,
    0.25, 0.62, 1.25 m), ground records with depths to the millimetre, with 4 and 6 depths, a first depth of 2 m, and
    records with 0, 1 and 2 depths (whole-window mean: only the twins that leave the window unchanged are demanded, the
    after-cut twin keeps the mean by swapping two later rows). A difference at a hand-over is confirmed by the pair of
    un-stubbed runs and reported with the first hour whose records differ."""
    import s1_util as S
    import v1_util as V
    rng = chk.rng
    thorough = chk.tier == 'thorough'
    if thorough:
        members = list(V.GEOMETRY_POOL) + list(V.FEWDEPTH_POOL)
    else:
        members = [rng.choice(V.GEOMETRY_POOL[:4]), rng.choice(V.FEWDEPTH_POOL[:3]), rng.choice(V.GEOMETRY_POOL[4:]),
                   rng.choice(V.FEWDEPTH_POOL[1:])]
    bad, total, branches, refused = 0, 0, {}, 0

    def gen(path, name, attrs):
        m = U.new_model(epw=path, outdir=work, outname=name, **attrs)
        with core.quiet():
            m.generate()
        return m

    for mi, (label, depths, extra) in enumerate(members):
        few = depths is not None and len(depths) < 3
        month, day = rng.choice([(1, 1), (3, 30), (6, 29), (9, 14), (11, 2), (5, 31)])
        dt = rng.choice([300, 300, 150, 600, 100, 225])
        first = 8 + 24 * S.doy0(month, day)
        h = rng.randint(9, 20)
        attrs = dict(month=month, day=day, nday=1, dtsim=dt, **extra)
        rows = V.ground_rows(base, depths)
        src = S.save_epw(rows, os.path.join(work, 'ho%d_src.epw' % mi))
        twins = []
        # after the cut: every modelled column of every later row of the window (and of the following day)
        pert = S.copy_rows(rows)
        if few:
            i1, i2 = first + h + 1, first + 23
            pert[i1][6], pert[i2][6] = pert[i2][6], pert[i1][6]          # the window mean stays
            for i in range(first + h + 1, first + 24):
                for c in (8, 9, 12, 14, 15, 20, 21):
                    pert[i][c] = perturb_value(rng, c, pert[i][c])
        else:
            for i in range(first + h + 1, min(first + 48, len(pert))):
                for c in MODELLED:
                    pert[i][c] = perturb_value(rng, c, pert[i][c])
        twins.append(('rural rows after hour %d changed' % h, S.save_epw(pert, os.path.join(work, 'ho%d_cut.epw' % mi)),
                      attrs, h + 1, 1e-12 if few else None))
        # outside the window: EVERY row, every modelled column (the dry bulb of the whole rest of the year moves)
        outs = S.copy_rows(rows)
        for i in list(range(8, first)) + list(range(first + 24, len(outs))):
            for c in MODELLED:
                outs[i][c] = perturb_value(rng, c, outs[i][c])
        twins.append(('every rural row outside the window changed', S.save_epw(outs, os.path.join(work, 'ho%d_out.epw' % mi)),
                      attrs, 24, None))
        if not few:
            more = rng.choice([1, 2]) if S.doy0(month, day) + 3 <= 365 else 1
            twins.append(('%d more day(s) simulated from the same start' % more, src, dict(attrs, nday=1 + more), 24, None))
        if thorough:
            unm = S.copy_rows(rows)
            for i in range(first, first + 24):
                for c in range(6, len(unm[i])):
                    if c not in MODELLED:
                        unm[i][c] = perturb_value(rng, c, unm[i][c])
            unm[0][1], unm[5][1] = 'Elsewhere', 'changed, comment'
            twins.append(('unmodelled columns and header text changed', S.save_epw(unm, os.path.join(work, 'ho%d_unm.epw' % mi)),
                          attrs, 24, None))
        try:
            ref = gen(src, 'ho_ref.epw', attrs)
        except Exception as e:  # noqa: BLE001 - a refused configuration has no urban value
            refused += 1
            chk.notes.append('hand-over twins: %s refused by generate(): %s' % (label, str(e)[:80]))
            continue
        ref_init = V.initial_digests(ref)
        ref_trace = V.handover_trace(ref)
        spd = 86400 // dt
        for (what, path, tattrs, upto, tol) in twins:
            total += 1
            branches[what.split(' changed')[0].split(' simulated')[0][-40:]] = branches.get(
                what.split(' changed')[0].split(' simulated')[0][-40:], 0) + 1
            case = {'kind': 'hand-over twins', 'member': label, 'GROUND TEMPERATURES': rows[3][:2] + (['depths as shipped: 0.5 / 2 / 4 m'] if depths is None else list(depths)),
                    'params': attrs, 'twin': what, 'twin_params': tattrs, 'first_row': first, 'cut_hour': upto - 1,
                    'how': 'harness/props/c03.py handover_twins; v1_util.initial_difference / handover_trace'}
            try:
                tw = gen(path, 'ho_twin.epw', tattrs)
            except Exception as e:  # noqa: BLE001
                bad += 1
                chk.violation('impl-violation', 'causality: the twin of an accepted configuration is refused (%s)' % what,
                              case=case, observed='%s: %s' % (type(e).__name__, str(e)[:160]),
                              expected='the same urban hours up to the cut')
                continue
            diff = V.initial_difference(ref_init, tw, lambda: gen(src, 'ho_ref2.epw', attrs))
            where = 'what generate() hands to simulate()'
            if diff is None:
                hd = V.handover_difference(ref_trace, V.handover_trace(tw, max_steps=upto * spd // 24), upto * spd // 24, tol)
                if hd is not None:
                    diff = ('step %d' % hd[0], '%s = %r vs %r' % (hd[1], hd[2], hd[3]))
                    where = 'what the loop hands to the physics'
            if diff is None:
                continue
            # confirm in the property's own terms: the pair of un-stubbed runs
            confirmed = None
            try:
                a = run_model(src, work, 'ho_a.epw', **attrs)
                b = run_model(path, work, 'ho_b.epw', **tattrs)
                d = first_diff(a[1], b[1], upto)
                if d is None:
                    for n in range(upto):
                        if [a[2][first + n][c] for c in (6, 7, 8, 21)] != [b[2][first + n][c] for c in (6, 7, 8, 21)]:
                            d = n
                            break
                if d is not None:
                    confirmed = 'un-stubbed pair: hour %d differs: records %s vs %s' % (d, a[1][d][:3], b[1][d][:3])
            except Exception as e:  # noqa: BLE001
                confirmed = None
                chk.notes.append('hand-over twins: confirmation pair of %s raised %s' % (label, str(e)[:80]))
            bad += 1
            if confirmed:
                if bad <= 3:
                    chk.violation('impl-violation', 'causality: paired runs differ (%s; %s)' % (label, what), case=case,
                                  observed={'hand-over': where, 'first difference': list(diff), 'paired runs': confirmed},
                                  expected='records and written rows for hours <= %d bit-identical' % (upto - 1))
            else:
                chk.corr_problems.append({'tie': 'hand-over twins', 'case': '%s / %s / %s' % (label, what, attrs),
                                          'impl': '%s differs: %s' % (where, list(diff)),
                                          'model': 'Sim.simulate: initial state and forcing of hours <= h are functions of the '
                                                   'rows up to h (the un-stubbed pair showed no difference in the records)'})
    chk.direct('hand-over twins(off-grid pavement / ground records with 0..6 depths)', total, total,
               'real generate() and the real simulate loop (physics stubbed) on copies of the Singapore file whose GROUND '
               'TEMPERATURES record and pavement are varied: pavement 0.3 / 0.1 / 0.3048 / 0.25 m over the shipped depths (soil '
               'slices padded below it), 0.62 / 1.25 m (below the first depth), depths written to the millimetre, a 0.52 m '
               'pavement over a 0.51 m depth, 4 and 6 depths, first depth 2 m, other building / sensor heights; records with '
               '2, 1 and 0 depths (quick: one thin pavement, one deeper / off-grid member, two few-depth members; thorough: '
               'all 16). For each: reference vs twins - rows after a cut hour h in 9..20 changed in every modelled column (few '
               'depths: window mean kept by swapping) / EVERY row outside the window changed / 1-2 more days (>= 3 depths) / '
               'thorough: unmodelled columns. Compared: (i) every object and table generate() builds except forcIP / weather / '
               'simTime / forc, bit-exact; (ii) per step up to the cut: the twelve forcing values incl. deep-ground and water '
               'temperature, clock, day type, traffic heat, canyon humidity, six schedule values and six building settings per '
               'building. A difference is confirmed by the pair of un-stubbed runs (first differing hour) before it is reported',
               mismatches=bad, branches=dict(branches, refused=refused))


def extreme_and_stamp_twins(chk, work, base):
    """Round 6 (families in harness/w1_util.py), judged at the two hand-overs like handover_twins and confirmed by the
    pair of un-stubbed runs. (E) Windows of extreme air temperature: every hour colder than -10 C (Toronto 3 February as
    shipped; a synthetic deep freeze) or hotter than 50 C (a synthetic heat wave) - the fixed start of the ground (293 K)
    lies more than 30 K outside the range of the window. Twins: rural rows after a cut hour changed / one more day from
    the same start. (T) The same rural data under other conventions of the date / time stamp cells of the data rows (hour
    0..23, single stamps edited, minute 0 / 30, an actual year, 01..24): all 24 hours identical."""
    import s1_util as S
    import v1_util as V
    import w1_util as W1
    rng = chk.rng
    thorough = chk.tier == 'thorough'
    bad, total, branches, refused = 0, 0, {}, 0

    def gen(path, name, param, attrs):
        m = U.new_model(param=param, epw=path, outdir=work, outname=name, **attrs)
        with core.quiet():
            m.generate()
        return m

    def run(path, name, param, attrs):
        m = gen(path, name, param, attrs)
        with core.quiet():
            m.simulate()
            m.write_epw()
        return m, U.records(m), load_epw(m.new_epw_path)

    jobs = []       # (family, label, param, src path, attrs, first, [(what, twin path, twin attrs, upto)], case extras)
    tor = load_epw(W1.data_file(W1.TORONTO_EPW))
    for mi, (label, rows, param, month, day) in enumerate(W1.extreme_members(rng, base, tor, not thorough)):
        first = 8 + 24 * S.doy0(month, day)
        h = rng.randint(3, 20)
        attrs = dict(month=month, day=day, nday=1, dtsim=300)
        src = S.save_epw(rows, os.path.join(work, 'xt%d_src.epw' % mi))
        pert = S.copy_rows(rows)
        for i in range(first + h + 1, first + 48):
            for c in MODELLED:
                if c == 6:      # later hours a little colder / warmer (the window keeps its character)
                    pert[i][c] = '%.1f' % (float(pert[i][c]) + rng.choice([-1.3, 0.9, -2.1]))
                else:
                    pert[i][c] = perturb_value(rng, c, pert[i][c])
        twins = [('rural rows after hour %d changed' % h, S.save_epw(pert, os.path.join(work, 'xt%d_cut.epw' % mi)), attrs, h + 1),
                 ('1 more day simulated from the same start', src, dict(attrs, nday=2), 24)]
        temps = [float(rows[first + n][6]) for n in range(24)]
        jobs.append(('extreme window', label, param, src, attrs, first, twins,
                     {'dry bulb of the window [C] (min, max)': [min(temps), max(temps)]}))
    names = list(W1.STAMP_VARIANTS) if thorough else list(W1.STAMP_VARIANTS[:2]) + [rng.choice(W1.STAMP_VARIANTS[2:])]
    month, day = rng.choice([(1, 1), (3, 30), (6, 29), (9, 14), (11, 2), (5, 31)])
    first = 8 + 24 * S.doy0(month, day)
    attrs = dict(month=month, day=day, nday=1, dtsim=rng.choice([300, 150, 600]))
    src = S.save_epw(base, os.path.join(work, 'st_src.epw'))
    twins = [(nm, S.save_epw(W1.stamp_variant(base, nm, first), os.path.join(work, 'st_%d.epw' % i)), attrs, 24)
             for i, nm in enumerate(names)]
    jobs.append(('time-stamp convention', 'Singapore file as shipped (hours stamped 1..24, minute 60, years of the IWEC months)',
                 U.PARAM_SGP, src, attrs, first, twins, {}))

    for (family, label, param, src, attrs, first, twins, extra) in jobs:
        try:
            ref = gen(src, 'xt_ref.epw', param, attrs)
        except Exception as e:  # noqa: BLE001
            refused += 1
            chk.notes.append('%s twins: %s refused by generate(): %s' % (family, label, str(e)[:80]))
            continue
        ref_init = V.initial_digests(ref)
        ref_trace = V.handover_trace(ref)
        spd = 86400 // attrs['dtsim']
        for (what, path, tattrs, upto) in twins:
            total += 1
            key = family + ': ' + ('more days' if 'more day' in what else 'after-cut' if 'after hour' in what else 'same data')
            branches[key] = branches.get(key, 0) + 1
            case = dict({'kind': family + ' twins', 'member': label, 'param': os.path.basename(param), 'params': attrs,
                         'twin': what, 'twin_params': tattrs, 'first_row': first, 'cut_hour': upto - 1,
                         'how': 'harness/props/c03.py extreme_and_stamp_twins; harness/w1_util.py extreme_members / stamp_variant'},
                        **extra)
            try:
                tw = gen(path, 'xt_twin.epw', param, tattrs)
            except Exception as e:  # noqa: BLE001
                bad += 1
                chk.violation('impl-violation', 'causality: the twin of an accepted configuration is refused (%s)' % what,
                              case=case, observed='%s: %s' % (type(e).__name__, str(e)[:160]),
                              expected='the same urban hours up to the cut')
                continue
            diff = V.initial_difference(ref_init, tw, lambda: gen(src, 'xt_ref2.epw', param, attrs))
            where = 'what generate() hands to simulate()'
            if diff is None:
                hd = V.handover_difference(ref_trace, V.handover_trace(tw, max_steps=upto * spd // 24), upto * spd // 24, None)
                if hd is not None:
                    diff = ('step %d' % hd[0], '%s = %r vs %r' % (hd[1], hd[2], hd[3]))
                    where = 'what the loop hands to the physics'
            if diff is None:
                continue
            confirmed = None
            try:
                a = run(src, 'xt_a.epw', param, attrs)
                b = run(path, 'xt_b.epw', param, tattrs)
                d = first_diff(a[1], b[1], upto)
                if d is None:
                    for n in range(upto):
                        if [a[2][first + n][c] for c in (6, 7, 8, 21)] != [b[2][first + n][c] for c in (6, 7, 8, 21)]:
                            d = n
                            break
                if d is not None:
                    confirmed = 'un-stubbed pair: hour %d differs: records %s vs %s' % (d, a[1][d][:3], b[1][d][:3])
            except Exception as e:  # noqa: BLE001
                chk.notes.append('%s twins: confirmation pair of %s raised %s' % (family, label, str(e)[:80]))
            bad += 1
            if confirmed:
                if bad <= 4:
                    chk.violation('impl-violation', 'causality: paired runs differ (%s; %s)' % (label, what), case=case,
                                  observed={'hand-over': where, 'first difference': list(diff), 'paired runs': confirmed},
                                  expected='records and written rows for hours <= %d bit-identical' % (upto - 1))
            else:
                chk.corr_problems.append({'tie': 'extreme-window / time-stamp twins', 'case': '%s / %s / %s' % (label, what, attrs),
                                          'impl': '%s differs: %s' % (where, list(diff)),
                                          'model': 'Sim.simulate: initial state and forcing of hours <= h are functions of the '
                                                   'rows up to h and of the modelled columns only (the un-stubbed pair showed no '
                                                   'difference in the records or raised)'})
    chk.direct('twins(extreme-temperature windows / time-stamp conventions of the data rows)', total, total,
               'real generate() and the real simulate loop (physics stubbed), differences confirmed by the pair of un-stubbed '
               'runs. (E) windows whose EVERY hour is colder than -10 C or hotter than 50 C, i.e. more than 30 K away from the '
               'fixed 293 K start of road and soil: Toronto 3 February as shipped (Toronto parameters), a three-day deep freeze '
               '(-31 .. -10 C) written into a random Toronto winter day, a three-day heat wave (+26.5 / +29 K, RH 12 %) written '
               'into a Singapore day (thorough: also Toronto 27 January, 22 February, a cold first day before an ordinary one); '
               'twins: every modelled column of the rows after a cut hour h in 3..20 changed (dry bulb by -2.1 .. +0.9 K) / one '
               'more day from the same start. (T) the shipped Singapore file against the same data with the hours stamped '
               '0..23, with two hour stamps edited (first record of the window 24, second 1) and one of: minute 0 / 30, one '
               'actual year in every row, first day stamped 24,1..23, 01..24, hour 1 in every row of the window (thorough: all): '
               'all 24 hours. Compared: (i) every object and table generate() builds except forcIP / weather / simTime / forc, '
               'bit-exact; (ii) per step up to the cut everything the loop hands to the physics (twelve forcing values, clock, '
               'day type, traffic heat, canyon humidity, schedules and set points)',
               mismatches=bad, branches=dict(branches, refused=refused))


def empty_record_pairs(chk, work, base):
    """Rural files in which a record OUTSIDE the window has been emptied (the line is there, its content is gone):
    an empty line, a line of commas, a record whose cells are all blank - before the window (far, and the row just
    before it), after it, and empty lines at the end of the file. Rows are addressed by position, so the emptied
    line keeps its place and the window is the same rows: the forcing lists cut by generate(), the hourly records and
    the written rows of the window must be bit-identical to those of the untouched file. (An emptied record INSIDE
    the window is not rural data any more: the run must be refused, not slid - if it is accepted its hours before the
    emptied one must still equal the reference.)"""
    import x1_util as X1
    rng = chk.rng
    thorough = chk.tier == 'thorough'
    total, bad, br = 0, [0], {}
    FL = ('infra', 'wind', 'uDir', 'pres', 'temp', 'rHum', 'dif', 'dir')
    for rep in range(1 if not thorough else 3):
        month, day = rng.choice([(1, 10), (3, 30), (6, 29), (9, 14), (12, 27), (2, 1)])
        attrs = dict(month=month, day=day, nday=1, dtsim=300)
        julian0 = [0, 31, 59, 90, 120, 151, 181, 212, 243, 273, 304, 334][month - 1] + day - 1
        first, nh = 8 + 24 * julian0, 24
        ref_path = os.path.join(work, 'er_ref.epw')
        X1.empty_record_file(base, ref_path, [], 'empty line')
        ref, err = try_run(ref_path, work, 'era.epw', **attrs)
        if ref is None:
            chk.notes.append('emptied-record reference run %s skipped: %s' % (attrs, err))
            continue
        fref = {f: list(getattr(ref[0].forcIP, f)) for f in FL}
        kinds = [k for k, _ in X1.EMPTY_KINDS]
        # (where, positions, trailing)
        members = [('before the window', [rng.randrange(8, first - 1)], 0),
                   ('the row just before the window', [first - 1], 0),
                   ('two records before the window', sorted(rng.sample(range(8, first), 2)), 0),
                   ('the row just after the window', [first + nh], 0),
                   ('after the window', [rng.randrange(first + nh, len(base))], 0),
                   ('empty lines at the end of the file', [], rng.choice([1, 2]))]
        full = rng.randrange(0, 3)               # this member gets the full generate;simulate;write_epw pair
        for i, (where, pos, trailing) in enumerate(members):
            kind = 'empty line' if (i == full or trailing) else rng.choice(kinds)
            if i != full and rng.random() < 0.5:
                kind = 'empty line'
            path = os.path.join(work, 'er_%d.epw' % i)
            X1.empty_record_file(base, path, pos, kind, trailing)
            case = {'kind': 'emptied-record', 'where': where, 'emptied_rows(file line index, 0-based)': pos,
                    'emptied_as': kind, 'trailing_empty_lines': trailing, 'params': attrs, 'first_row': first,
                    'how': 'x1_util.empty_record_file(load_epw(Singapore), path, rows, kind, trailing)'}
            total += 1
            br['%s / %s' % (where.split(' (')[0], kind)] = br.get('%s / %s' % (where, kind), 0) + 1
            if i == full:
                got, err = try_run(path, work, 'erb.epw', **attrs)
                if got is None:
                    bad[0] += 1
                    chk.violation('impl-violation', 'a rural file with an emptied record outside the window is not simulated',
                                  case=case, observed=err, expected='the same urban hours as with the untouched file')
                    continue
                cmp_runs(chk, 'emptied record %s (%s): same rows in the window' % (where, kind), case, ref, got,
                         first, nh, bad)
                continue
            try:
                m = U.new_model(epw=path, outdir=work, outname='erg.epw', **attrs)
                with core.quiet():
                    m.generate()
            except Exception as e:  # noqa: BLE001
                bad[0] += 1
                if bad[0] <= 3:
                    chk.violation('impl-violation', 'generate() fails on a rural file with an emptied record outside the window',
                                  case=case, observed='%s: %s' % (type(e).__name__, str(e)[:120]),
                                  expected='the window of the untouched file')
                continue
            got = {f: list(getattr(m.forcIP, f)) for f in FL}
            st, rt = m.simTime, ref[0].simTime
            d = next(((f, n) for f in FL for n in range(max(len(fref[f]), len(got[f])))
                      if n >= len(got[f]) or n >= len(fref[f]) or got[f][n] != fref[f][n]), None)
            if d is not None or (st.timeInitial, st.timeFinal) != (rt.timeInitial, rt.timeFinal):
                bad[0] += 1
                if bad[0] <= 3:
                    f, n = d if d else ('temp', 0)
                    chk.violation('impl-violation', 'causality: the forcing of window hour %d depends on an emptied record %s'
                                  % (n, where), case=case,
                                  observed='forcIP.%s[%d] = %r with the emptied record, %r without; window rows %s vs %s' % (
                                      f, n, got[f][n] if n < len(got[f]) else None, fref[f][n] if n < len(fref[f]) else None,
                                      [st.timeInitial, st.timeFinal], [rt.timeInitial, rt.timeFinal]),
                                  expected='forcing lists of the window bit-identical (the emptied record lies outside it)')
        if thorough or rep == 0:
            # an emptied record INSIDE the window: refused, or causal up to it
            h = rng.randrange(2, nh - 1)
            path = os.path.join(work, 'er_in.epw')
            X1.empty_record_file(base, path, [first + h], 'empty line')
            total += 1
            br['inside the window'] = br.get('inside the window', 0) + 1
            try:
                m = U.new_model(epw=path, outdir=work, outname='eri.epw', **attrs)
                with core.quiet():
                    m.generate()
                got = {f: list(getattr(m.forcIP, f)) for f in FL}
                if any(got[f][:h] != fref[f][:h] for f in FL):
                    bad[0] += 1
                    chk.violation('impl-violation', 'causality: an emptied record at window hour %d changes the forcing of earlier hours' % h,
                                  case={'kind': 'emptied-record', 'where': 'inside the window', 'hour': h, 'params': attrs},
                                  observed='forcIP.temp[:%d] = %r' % (h, got['temp'][:h]),
                                  expected='%r (or a refused run)' % (fref['temp'][:h],))
                else:
                    br['inside the window: accepted, earlier hours unchanged'] = 1
            except Exception:  # noqa: BLE001 - refused: no urban value, nothing to judge
                br['inside the window: refused'] = br.get('inside the window: refused', 0) + 1
    chk.direct('paired-runs(rural files with an emptied record outside the window)', total, total,
               'copies of the Singapore file in which a record outside the window is emptied - an empty line, a line of '
               'commas, all cells blank, a single blank - far before the window, the row just before it, two records before '
               'it, the row just after it, far after it, and empty lines at the end of the file; start dates from 10 January '
               'to 27 December, 1 day, dt 300: the forcing lists and window bounds after generate() must equal those of the '
               'untouched file (rows are addressed by position: the emptied line keeps its place), one member per round as '
               'a full generate;simulate;write_epw pair (hourly records and written columns 6,7,8,21 bit-identical); an '
               'emptied record INSIDE the window must be refused or leave the earlier hours unchanged',
               mismatches=bad[0], branches=br)


def ground_cell_pairs(chk, work, base):
    """Round 8: rural files (>= 3 ground-temperature depths) whose GROUND TEMPERATURES line is damaged or unusual in
    a MONTHLY cell of a record the model uses or does not use: blank, blanks only, 'None', '-', a missing marker
    spelling. The unchanged tree refuses such a file when it reads the cell (a refusal produces no urban value: fine);
    whatever it ACCEPTS must obey the same causality as any other file: rows after the cut hour, and a longer window
    from the same start, leave the hours up to the cut bit-identical - a tree that falls back on a whole-window
    statistic for such a file does not."""
    import s1_util as S
    rng = chk.rng
    thorough = chk.tier == 'thorough'
    total, bad, br = 0, [0], {}
    spell = ['', ' ', '  ', 'None', '-', 'nan', '99', '+21.5 ', '2.15e1']
    members = []
    for rep in range(2 if not thorough else 8):
        month, day = rng.choice([(1, 1), (2, 27), (6, 29), (9, 14), (12, 27), (4, 30)])
        rec = [0, 1, 2, 0][rep % 4]                       # record 0 = 0.5 m (the road's), 2 = the third (water)
        mon = [month - 1, month - 1, (month) % 12, month - 1][rep % 4] if rep % 4 != 3 else (month + 5) % 12
        members.append((month, day, rec, mon, spell[rep % len(spell)] if rep < 2 or not thorough else rng.choice(spell)))
    members.append((1, 1, 0, 0, ''))                      # the used record, the simulated month, blank
    members.append((6, 29, 2, 5, ''))                     # the third record, the simulated month, blank
    for (month, day, rec, mon, text) in members:
        first, nh = 8 + 24 * S.doy0(month, day), 24
        rows = S.copy_rows(base)
        rows[3] = list(rows[3])
        old = rows[3][6 + 16 * rec + mon]
        rows[3][6 + 16 * rec + mon] = text
        src = S.save_epw(rows, os.path.join(work, 'gc_src.epw'))
        h = rng.randint(0, 12)
        pert = S.copy_rows(rows)
        for i in range(first + h + 1, first + nh + 24):
            for c in MODELLED:
                pert[i][c] = perturb_value(rng, c, pert[i][c])
        attrs = dict(month=month, day=day, nday=1, dtsim=rng.choice([300, 600, 900]))
        a, e1 = try_run(src, work, 'gca.epw', **attrs)
        case = {'kind': 'ground-cell', 'params': attrs, 'cut_hour': h, 'first_row': first,
                'ground record (0-based)': rec, 'month cell (0-based)': mon, 'old text': old, 'new text': text,
                'epw': 'shipped Singapore file with that one cell of header line 4 replaced'}
        total += 1
        if a is None:
            br['refused: ' + e1.split(':')[0]] = br.get('refused: ' + e1.split(':')[0], 0) + 1
            continue
        br['accepted'] = br.get('accepted', 0) + 1
        b, e2 = try_run(S.save_epw(pert, os.path.join(work, 'gc_pert.epw')), work, 'gcb.epw', **attrs)
        c2, e3 = try_run(src, work, 'gcc.epw', **dict(attrs, nday=2))
        if b is not None:
            cmp_runs(chk, 'after-cut, unusual monthly cell in the ground-temperature header (both files)', case, a, b,
                     first, h + 1, bad)
        if c2 is not None:
            cmp_runs(chk, 'longer window from the same start, unusual monthly cell in the ground-temperature header',
                     dict(case, other_params=dict(attrs, nday=2)), a, c2, first, 24, bad)
    chk.direct('paired-runs(unusual monthly cells of the ground-temperature header)', total, total,
               'the shipped Singapore file (3 ground depths) with ONE monthly cell of header line 4 replaced - in the '
               'record the road uses, the third record, an unused record; the simulated month, the next, one half a year '
               'away - by: blank, blanks, None, -, nan, 99, "+21.5 ", 2.15e1. A refused file produces no urban value '
               '(counted); an accepted one is run three times (as is, rows after a random cut hour perturbed in all '
               'modelled columns, two days instead of one): records and written cells for hours up to the cut bit-identical',
               mismatches=bad[0], branches=br)


def run(chk):
    from props import step
    chk.proof(MODULE, THEOREMS + step.THEOREMS, extra_modules=[step.MODULE])
    if chk.tier == 'thorough':
        chk.leanchecker([MODULE, step.MODULE])
    rng = chk.rng
    fbad, nsub = footprint_scan(core.REPO)
    if fbad:
        chk.corr_problems.append({'tie': 'footprint-scan', 'case': '; '.join(fbad[:4]),
                                  'impl': 'reads rural data other than the current forcing row',
                                  'model': 'physics step reads (state, current row, clock, deep temperature)'})
    chk.direct('footprint-scan(AST of UWG.simulate)', nsub + 1, nsub + 1,
               'every subscript of self.forcIP.<field> inside simulate is [self.ceil_time_step]; whole-window '
               'reads only sum/len(self.forcIP.temp); no other module mentions the rural containers',
               mismatches=len(fbad), samples=fbad[:3] or ['%d forcIP subscripts, all at ceil_time_step' % nsub])
    dynamic_footprint(chk)
    cases = toy_cases(chk, 24 if chk.tier == 'quick' else 200)
    chk.correspond('simulate(toy physics)~Sim.simulate', 'C03', cases,
                   rule='the REAL UWG.simulate loop with the physics replaced from outside by a toy step that '
                        'folds everything a step may read (forcing row, clock view, deep temperature) into an '
                        'integer code, vs Lean Sim.simulate with the same toy physics: hourly records (and the '
                        'records stored before an exception) must be identical; random divisors of 3600, start '
                        'dates incl. month and year end, 1-2 days, both ground-temperature modes, raising toys',
                   nontrivial=lambda l, a: '[' in a and a.split('[')[1] != ']',
                   classify=lambda l, a: a.split(' ')[0] + ('-' + a.split(' ')[1] if a.startswith('err') else '') +
                   ('/nsoil3' if 'nsoil3=1' in l else '/mean'))
    work = chk.work()
    base_path = U.rp(U.EPW_SGP)
    base = load_epw(base_path)
    npairs = 2 if chk.tier == 'quick' else 10
    kinds = ['after-cut', 'outside-window', 'unmodelled-columns', 'longer-window', 'nsoil<3-after-cut',
             'after-cut-with-missing-markers']
    bad, total, branches = 0, 0, {}
    dts = [300, 600, 48, 100, 450, 225, 150, 360]
    # corpus first: the repaired look-ahead (dt = 48 s, cut at hour 6: the step ending at
    # it*dt = 25200 s used the row of hour 7)
    plan = [(-1, 'after-cut', (1, 1), 1, 48, 6), (-1, 'after-cut', (1, 1), 1, 24, 6)]
    for k in range(npairs):
        for kind in kinds:
            plan.append((k, kind, rng.choice([(1, 1), (3, 30), (6, 29), (12, 27), (9, 14)]), rng.choice([2, 3]),
                         dts[(k * len(kinds) + kinds.index(kind)) % len(dts)], None))
    for (k, kind, (month, day), nday, dt, fixed_h) in plan:
        if chk.tier == 'quick' and dt <= 100 and k >= 0:
            nday = 1          # (quick tier: the members with >= 864 steps a day run one day; the thorough tier keeps 2-3 days)
        if True:
            attrs = dict(month=month, day=day, nday=nday, dtsim=dt)
            julian0 = [0, 31, 59, 90, 120, 151, 181, 212, 243, 273, 304, 334][month - 1] + day - 1
            first = 8 + 24 * julian0
            nh = 24 * nday
            rows = [list(r) for r in base]
            expect_upto = nh
            tol = None
            other_attrs = dict(attrs)
            if kind == 'after-cut-with-missing-markers':
                # EPW "missing" markers (9999 / 999999) in the first row of the window and elsewhere, in
                # BOTH files; only rows after the cut differ. Any gap-filling must not look ahead.
                h = rng.randint(0, nh - 2)
                for (i, c, v) in [(first, 12, '9999'), (first, 14, '9999'), (first, 15, '9999'),
                                  (first + min(3, h), 12, '9999'), (first + nh - 1, 14, '9999')]:
                    rows[i][c] = v
                src = os.path.join(work, 'srcm_%d.epw' % k)
                save_epw(rows, src)
                ref_path = src
                rows = [list(r) for r in rows]
                for i in range(first + h + 1, first + nh):
                    for c in MODELLED:
                        if rows[i][c] != '9999':
                            rows[i][c] = perturb_value(rng, c, rows[i][c])
                expect_upto = h + 1
            elif kind == 'after-cut' or kind == 'nsoil<3-after-cut':
                h = fixed_h if fixed_h is not None else rng.randint(0, nh - 2)
                if kind == 'nsoil<3-after-cut':
                    # two ground-temperature depths only: deep temperature = whole-window mean.
                    g = rows[3]
                    rows[3] = [g[0], '2'] + g[2:2 + 32]
                    src = os.path.join(work, 'src_%d.epw' % k)
                    save_epw(rows, src)
                    ref_path = src
                    # keep the window mean of the dry-bulb column: swap the values of two later hours
                    i1, i2 = first + h + 1, first + nh - 1
                    if i1 != i2:
                        rows[i1][6], rows[i2][6] = rows[i2][6], rows[i1][6]
                        for c in (8, 9, 12, 14, 15, 20, 21):
                            rows[i1][c] = perturb_value(rng, c, rows[i1][c])
                    tol = 1e-9
                else:
                    ref_path = base_path
                    for i in range(first + h + 1, first + nh):
                        for c in MODELLED:
                            rows[i][c] = perturb_value(rng, c, rows[i][c])
                expect_upto = h + 1
            elif kind == 'outside-window':
                ref_path = base_path
                for i in list(range(8, first)) + list(range(first + nh, len(rows))):
                    if i % 7 == 0 or abs(i - first) < 30 or abs(i - first - nh) < 30:
                        for c in MODELLED + READ_UNUSED:
                            rows[i][c] = perturb_value(rng, c, rows[i][c])
            elif kind == 'unmodelled-columns':
                ref_path = base_path
                for i in range(first, first + nh):
                    for c in range(len(rows[i])):
                        if c not in MODELLED and c > 5:
                            rows[i][c] = perturb_value(rng, c, rows[i][c])
                rows[0][1] = 'Elsewhere'
                rows[5][1] = 'changed, comment'
            elif kind == 'longer-window':
                ref_path = base_path
                other_attrs['nday'] = nday + (rng.choice([1, 2]) if not (chk.tier == 'quick' and dt <= 100) else 1)
            pert = os.path.join(work, 'pert_%d_%s.epw' % (k, kind[:5]))
            save_epw(rows, pert)
            try:
                m1, r1, w1 = run_model(os.path.relpath(ref_path, core.REPO) if ref_path.startswith(core.REPO)
                                       else ref_path, work, 'a.epw', **attrs)
                m2, r2, w2 = run_model(pert, work, 'b.epw', **other_attrs)
            except Exception as e:  # the model's own fail-stop (FATAL ERROR / canyon check): not a verdict here
                branches['skipped(model raised)'] = branches.get('skipped(model raised)', 0) + 1
                chk.notes.append('pair %s %s skipped: %s' % (kind, attrs, str(e)[:80]))
                continue
            total += 1
            branches[kind] = branches.get(kind, 0) + 1
            if tol is None:
                d = first_diff(r1, r2, expect_upto)
                dw = None
                for n in range(expect_upto):
                    a, b = w1[first + n], w2[first + n]
                    if [a[c] for c in (6, 7, 8, 21)] != [b[c] for c in (6, 7, 8, 21)]:
                        dw = n
                        break
            else:
                d = None
                for n in range(expect_upto):
                    if any(abs(float(x) - float(y)) > tol * max(1.0, abs(float(x))) for x, y in zip(r1[n], r2[n])):
                        d = n
                        break
                dw = None
            if d is not None or dw is not None:
                bad += 1
                n = d if d is not None else dw
                chk.violation('impl-violation', 'causality: paired runs differ at hour %d (%s)' % (n, kind),
                              case={'kind': kind, 'params': attrs, 'other_params': other_attrs,
                                    'cut_hour': expect_upto - 1, 'first_row': first},
                              observed='hour %d: %s vs %s' % (n, r1[n][:3], r2[n][:3]),
                              expected='records and written rows for hours <= %d bit-identical' % (expect_upto - 1))
    chk.direct('paired-runs(perturbed rural files)', total, total,
               'pairs of real generate;simulate;write_epw runs on the Singapore EPW and a perturbed copy: rows '
               'after a random cut hour / outside the window / unmodelled columns and header cells changed, or '
               'a longer window from the same start; hourly records (8 fields) and written columns 6,7,8,21 for '
               'hours up to the cut must be bit-identical (nSoil<3: equal to 1e-9, window mean preserved by '
               'swapping); timesteps cycle through 300, 600, 48, 100, 450, 225, 150, 360',
               mismatches=bad, branches=branches)
    variant_pairs(chk, work, base)
    window_statistic_pairs(chk, work, base)
    circumstance_pairs(chk, work, base)
    handover_twins(chk, work, base)
    extreme_and_stamp_twins(chk, work, base)
    empty_record_pairs(chk, work, base)
    ground_cell_pairs(chk, work, base)
    # composition C: the physics of one step as one Lean function, tied exactly to the real loop body
    step.run_step(chk)
    chk.assumptions.append('the theorems hold for ANY physics that is a function of (state, current forcing row, '
                           'clock, deep temperature), and are instantiated at the concrete composed step '
                           '(Props/Step.lean); that the real loop body IS that function is the exact tie of '
                           'props/step.py (small configurations, one or two passes) together with the footprint '
                           'scan and the paired full runs')
