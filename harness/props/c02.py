"""C02 - each simulated hour is driven by and written to its own rural row.

Round 5 (harness/v1_util.py FloatLoop): window-length oracle - the real SimParam for all 45 divisors x every length
1..365 days and end probes on the real float loop (the last hour of the window is stepped, forced by the last row and
recorded) - window_length_family."""
import contextlib
import csv
import datetime
import io
import os

import core
import simdriver
from simdriver import FORC_FIELDS

MODULE = 'UwgVerif.Props.C02'
THEOREMS = ['Uwg.C02.driver_trace', 'Uwg.C02.window_rows_file', 'Uwg.C02.clockAt_eq', 'Uwg.C02.lookups_true_calendar',
            'Uwg.C02.rowIdx_spec', 'Uwg.C02.records_eq', 'Uwg.C02.record_row',
            'Uwg.C02.records_complete', 'Uwg.C02.window_rows', 'Uwg.C02.written_row_stamp',
            'Uwg.C02.wind_recorded', 'Uwg.C02.asis_float_rowidx_wrong']

MDAYS = [31, 28, 31, 30, 31, 30, 31, 31, 30, 31, 30, 31]
DIVISORS = [d for d in range(1, 3601) if 3600 % d == 0]
P = 2147483647
BASE = datetime.datetime(2023, 1, 1)


def dates():
    return [(m + 1, d + 1) for m in range(12) for d in range(MDAYS[m])]


def doy0(M, D):
    return sum(MDAYS[:M - 1]) + D - 1


def classify_exc(name, msg):
    if name == 'ZeroDivisionError':
        return 'err zerodiv'
    if 'TIMESTEP ERROR' in (msg or ''):
        return 'err timestep'
    if name == 'IndexError':
        return 'err index'
    if name == 'AssertionError':
        return 'err assert'
    return 'err fatal'


def digests(res):
    """Trace digest / record digest of a driver-only run, same folding as Drv/C02.lean."""
    recset = dict((it, n) for (n, it) in res.records)
    h = 0
    rowat = {}
    for s in res.steps:
        (it, row, sec, hour, mon, day, jul, dtyp, n, tsm) = s[:10]
        rec = 1 if it in recset else 0
        for x in (it, row, sec, hour, mon, day, jul, dtyp, n, rec, tsm):
            h = (h * 1000003 + x) % P
        if rec:
            rowat[it] = row
    rh = 0
    for (n, it) in res.records:
        for x in (n, it, rowat.get(it, -1)):
            rh = (rh * 1000003 + x) % P
    return h, rh


def full_text(res):
    recset = set(it for (_, it) in res.records)
    rowat = dict((s[0], s[1]) for s in res.steps)
    steps = ';'.join(','.join(str(x) for x in (s[:9] + (1 if s[0] in recset else 0, s[9])))
                     for s in res.steps)
    recs = ';'.join('%d,%d,%d' % (n, it, rowat.get(it, -1)) for (n, it) in res.records)
    return 'ok %s rec=%s' % (steps, recs)


def oracle_driver(cfg, res):
    """The property evaluated directly on a driver-only run of the real simulate.
    Returns None or (message, observed, expected)."""
    M, D, days, dt = cfg
    N = 24 * days
    if res.error:
        return ('simulate raised %s' % res.error, res.error_msg, 'no exception inside the window')
    if not res.forc_ok:
        it, row, got, exp = res.forc_bad
        return ('forcing in force at step it=%d is not rural row ceil_time_step=%d' % (it, row),
                list(got), list(exp) if exp else None)
    for s in res.steps:
        it, row = s[0], s[1]
        hour = (it * dt - 1) // 3600          # index of the window hour containing ((it-1)dt, it*dt]
        if row != hour:
            return ('step it=%d (seconds %d..%d of the window) is forced by row %d, not by the row of '
                    'its own hour' % (it, (it - 1) * dt, it * dt, row), row, hour)
        if (s[10], s[11]) != (s[7] - 1, s[3]) or (s[12], s[13]) not in ((s[7] - 1, s[3]), (-1, -1)):
            return ('schedule look-up indices differ from (dayType-1, hourDay) at it=%d' % it,
                    list(s[10:14]), [s[7] - 1, s[3]])
    if len(res.stored) != N:
        return ('WeatherData has %d slots' % len(res.stored), len(res.stored), N)
    for n in range(N):
        if res.stored[n] is None:
            return ('record %d was never taken' % n, None, 'forcing of rural row %d' % n)
        if res.stored[n] != res.expect[n]:
            return ('record %d does not hold the forcing of rural row %d' % (n, n),
                    dict(zip(FORC_FIELDS, res.stored[n])), dict(zip(FORC_FIELDS, res.expect[n])))
    want = [(n, 3600 * (n + 1) // dt) for n in range(N)]
    if res.records != want:
        bad = next((a, b) for a, b in zip(res.records + [None], want + [None]) if a != b)
        return ('record events differ from one per hour at it*dt = 3600(n+1)', bad[0], bad[1])
    return None


def gen_configs(rng, thorough):
    cfgs = []
    for dt in DIVISORS:
        reps = (1 if dt < 60 else 2) if not thorough else (1 if dt < 20 else 3)
        for r in range(reps):
            M, D = rng.choice(dates())
            room = 365 - doy0(M, D)
            if dt < 20:
                days = 1 if not thorough else min(room, rng.randint(1, 3))
            else:
                days = min(room, rng.randint(1, 5) if not thorough else rng.randint(1, 12))
            cfgs.append((M, D, days, dt))
    # windows touching the end of the year, month ends, first day
    cfgs += [(12, 31, 1, 1800), (12, 28, 4, 400), (12, 31, 1, 16), (1, 1, 2, 48), (2, 28, 2, 24),
             (1, 1, 1, 3600), (6, 30, 2, 12), (4, 30, 2, 6), (1, 1, 1, 3)]
    if thorough:
        for dt in [d for d in DIVISORS if d >= 60]:
            cfgs.append((1, 1, 365, dt))
        for dt in [d for d in DIVISORS if 10 <= d < 60]:
            M, D = rng.choice(dates())
            cfgs.append((M, D, min(365 - doy0(M, D), 10), dt))
    return cfgs


MALFORMED = [(12, 31, 2, 300), (12, 30, 5, 900), (1, 1, 1, 7), (3, 5, 2, 480), (1, 1, 1, 0),
             (5, 5, 1, 7200), (2, 30, 2, 600), (7, 1, 1, 96)]


def window_oracle(model, cfg, rows, leap):
    """What `generate()` cut out of the rural file, before any step: hour n of the window must be the rural row
    whose OWN stamp is start + n hours (located through the stamps, never by index arithmetic), and the
    forcing lists must hold that row's values. For an 8784-row file (the model is a 365-day clock driven by row
    offsets) only the internal consistency is demanded: the lists hold the contiguous rows from
    simTime.timeInitial on. Returns None or (message, observed, expected)."""
    import s1_util as S
    M, D, days, dt = cfg
    N = 24 * days
    st = model.simTime
    f = model.forcIP
    if leap:
        first = st.timeInitial
    else:
        idx = S.stamp_index(rows)
        first = idx.get((M, D, 1))
        if first is None:
            return ('rural file has no row stamped %d/%d hour 1' % (M, D), None, 'a row')
        if st.timeInitial != first or st.timeFinal != first + N - 1:
            return ('window bounds (timeInitial, timeFinal) are not the rows stamped start .. start + %d hours'
                    % (N - 1), [st.timeInitial, st.timeFinal], [first, first + N - 1])
    if len(f.temp) != N:
        return ('rural rows read for the window', len(f.temp), N)
    for n in range(N):
        r = rows[first + n]
        if not leap and (int(r[1]), int(r[2]), int(r[3])) != stamp_dt(24 * doy0(M, D) + n):
            return ('stamp of rural row %d of the window' % n, r[1:4], list(stamp_dt(24 * doy0(M, D) + n)))
        exp = (float(r[12]), float(r[21]), float(r[20]), float(r[9]), float(r[6]) + 273.15, float(r[8]),
               float(r[15]), float(r[14]))
        got = (f.infra[n], f.wind[n], f.uDir[n], f.pres[n], f.temp[n], f.rHum[n], f.dif[n], f.dir[n])
        if got != exp:
            return ('forcing lists of window hour %d (stamp %s/%s h%s) do not hold the values of that rural row '
                    '(infra, wind, uDir, pres, temp, rHum, dif, dir)' % (n, r[1], r[2], r[3]), list(got), list(exp))
    return None


def drive(cfg, epw=None, rows=None, leap=False):
    """Build the real model and run the real simulate driver-only. Returns (rows, res or None, err).
    With `rows` (the parsed rural file) the window oracle is evaluated on the generated model first."""
    M, D, days, dt = cfg
    try:
        with contextlib.redirect_stdout(io.StringIO()):
            model = simdriver.build_model(M, D, days, dt, epw=epw)
    except Exception as e:  # noqa: BLE001
        return 24 * days, None, classify_exc(type(e).__name__, str(e))
    wmsg = window_oracle(model, cfg, rows, leap) if rows is not None else None
    res = simdriver.driver_only_run(model)
    res.window_msg = wmsg
    if res.error:
        return res.rows, res, classify_exc(res.error, res.error_msg)
    return res.rows, res, None


# ----------------------------------------------------------------------------------------------
# un-stubbed run + write_epw

class LogRow(list):
    """A data row of epwinput that logs which of its cells write_epw assigns."""
    log = None
    idx = None

    def __setitem__(self, k, v):
        self.log.append((self.idx, k))
        list.__setitem__(self, k, v)


def make_rural(src, dst, variant=None, wind2=False, boundary=None, sep=None):
    """Copy of a shipped EPW whose wind column holds a value pattern that differs between neighbouring
    rows and between rows 24 apart: w_k = ((7k) mod 120) / 10 (some below windMin = 1); with `wind2` the
    pattern has two decimals, ((37k + 5) mod 1200) / 100. `variant`: header / leap variant of s1_util.
    `boundary` = (first data row, hours, shift): every third cell of the modelled columns of those rows is
    replaced by a member of t1_util.MILD (values at / beyond the EPW limits, other spellings)."""
    import s1_util as S
    rows = S.load_epw(src)
    if variant:
        rows = S.apply_variant(rows, variant)
    k = 0
    for i in range(8, len(rows)):
        rows[i][21] = ('%.2f' % (((37 * k + 5) % 1200) / 100.0)) if wind2 else ('%.1f' % (((7 * k) % 120) / 10.0))
        k += 1
    if boundary:
        import t1_util as T1
        T1.boundary_window(rows, 8 + boundary[0], boundary[1], shift=boundary[2], table=T1.MILD, every=3)
    if sep:
        # `sep` = (character, place): a character that only SOME line splitters take for a line end, in unquoted
        # header text (x1_util.SEP_PLACES); the file is written as plain UTF-8 text lines
        import x1_util as X1
        rows, _ = X1.sep_header(rows, sep[0], sep[1])
        X1.write_text_epw(rows, dst)
        return k
    # written as plain text lines like the shipped files (no cell of a data row needs quoting)
    S.save_epw(rows, dst)
    return k


def real_run(chk, M, D, days, dt, epw_name, variant=None, precision=None, windmin=None, wind2=False,
             second=True, boundary=None, sep=None):
    """Full simulation + write_epw on a rural file with a patterned wind column.
    Returns (cases for the `wrow` tie, oracle message or None, stamps_ok, data rows).

    variant: header / leap-file variant (s1_util); precision: epw_precision; windmin: minimum wind speed;
    wind2: rural wind with two decimals. For 8760-row files the row of record n is located by its stamp
    (start + n hours); for an 8784-row file only internal consistency is demanded (the rows read are the rows
    written, contiguous; every other row unchanged) - the model is a 365-day clock."""
    from uwg import UWG
    from uwg.psychrometrics import hum_from_rhum_temp
    from t1_util import num as fl, ind_hum     # cells are read as numbers with thousands separators dropped
    work = chk.work()
    leap = bool(variant) and 'leap8784' in variant
    tag = '%d_%d_%d_%s' % (M, D, dt, ''.join(c for c in (variant or 'base') if c.isalnum())[:24])
    if sep:
        tag += '_sep%x' % ord(sep[0])
    rural = os.path.join(work, 'rural_%s_%s' % (tag, epw_name))
    nrows = make_rural(simdriver.epw_path(epw_name), rural, variant, wind2,
                       (24 * doy0(M, D), 24 * days, boundary) if boundary is not None else None,
                       sep=tuple(sep) if sep else None)

    def build(outname):
        m = UWG.from_param_file(simdriver.param_path(), epw_path=rural, new_epw_dir=work, new_epw_name=outname)
        m.month, m.day, m.nday, m.dtsim = M, D, days, dt
        if precision is not None:
            m.epw_precision = precision
        if windmin is not None:
            m.windmin = windmin
        m.generate()
        return m
    model = None
    try:
        with contextlib.redirect_stdout(io.StringIO()):
            model = build('out_%s.epw' % tag)
            model.simulate()
            log = []
            rows = []
            for i, r in enumerate(model.epwinput):
                lr = LogRow(r)
                lr.log, lr.idx = log, i
                rows.append(lr)
            model.epwinput = rows
            model.write_epw()
    except Exception as e:  # noqa: BLE001 - inside the window nothing may raise
        where = 'generate' if model is None else 'simulate/write_epw'
        if boundary is not None and 'FATAL ERROR' in str(e):
            # the model's own fail-stop on extreme (legal) rural values: no urban hour exists, nothing to judge
            chk.notes.append('un-stubbed run on rows at the EPW limits (%d/%d, shift %d) stopped by the model\'s own '
                             'FATAL ERROR: not a C02 verdict' % (M, D, boundary))
            return [], None, True, nrows
        return [], ('%s raised %s' % (where, type(e).__name__), str(e)[:300],
                    'a complete run: every hour of the window recorded and written'), True, nrows
    with open(rural, newline='') as f:
        orig = list(csv.reader(f))[8:]
    with open(model.new_epw_path, newline='') as f:
        new = list(csv.reader(f))[8:]
    orig = [r for r in orig if r]
    new = [r for r in new if r]
    N = 24 * days
    j0 = doy0(M, D)
    wmin = model.geoParam.windMin
    prec = model.epw_precision
    # rows written, in order of iJ (four cells each)
    written = []
    for (idx, col) in log:
        if not written or written[-1] != idx:
            written.append(idx)
    cases = []
    msg = None
    if not leap:
        for n in range(min(N, len(written))):
            idx = written[n]
            row = new[idx]
            cases.append(('wrow M=%d D=%d days=%d n=%d' % (M, D, days, n),
                          'ok row=%d stamp=%d,%d,%d HI=%d HF=%d win=%d' % (
                              idx, int(row[1]), int(row[2]), int(row[3]),
                              model.simTime.timeInitial, model.simTime.timeFinal,
                              len(model.forcIP.temp))))
    if len(written) != N:
        msg = ('write_epw rewrote %d rows, expected %d' % (len(written), N), len(written), N)
    if wmin != (1.0 if windmin is None else float(windmin)):
        msg = ('minimum wind speed in force', wmin, windmin)
    stamps_ok = all((int(r[1]), int(r[2]), int(r[3])) == stamp_dt(k) for k, r in enumerate(orig)) if not leap \
        else all((int(r[1]), int(r[2]), int(r[3])) == stamp_dt(k) for k, r in enumerate(orig[:59 * 24]))
    # the rural row of record n: by its own stamp for a file of 365 whole days ...
    by_stamp = {}
    for k, r in enumerate(orig):
        by_stamp.setdefault((int(r[1]), int(r[2]), int(r[3])), k)
    for n in range(N):
        if msg:
            break
        if leap:
            k = written[n]                                # ... for an 8784-row file: whichever row was written
            if n and written[n] != written[n - 1] + 1:
                msg = ('rows written for records %d and %d are not adjacent' % (n - 1, n), written[n - 1:n + 1],
                       'contiguous rows')
                break
        else:
            k = by_stamp.get(stamp_dt(24 * j0 + n)) if stamps_ok else 24 * j0 + n
        src = orig[k]
        wd = model.WeatherData[n]
        exp_wind = max(fl(src[21]), wmin)
        exp = {'temp': fl(src[6]) + 273.15, 'rHum': fl(src[8]), 'pres': fl(src[9]),
               'infra': fl(src[12]), 'dir': fl(src[14]), 'dif': fl(src[15]),
               'uDir': fl(src[20]), 'wind': exp_wind}
        # the humidity of the record is the humidity of the air state the row describes (T, RH, P of the row)
        exp['hum'] = hum_from_rhum_temp(exp['rHum'], fl(src[6]), exp['pres'])
        got = {f: getattr(wd, f) for f in exp}
        if got != exp:
            msg = ('hourly forcing record %d differs from %s' % (
                n, 'the rural row its result is written to (row %d)' % k if leap else
                'rural row %d of the window (the row stamped start + %d hours: T=%s RH=%s P=%s wind=%s)' % (
                    n, n, src[6], src[8], src[9], src[21])), got, exp)
        elif abs(wd.hum - ind_hum(exp['rHum'], fl(src[6]), exp['pres'])) > 1e-12 * abs(wd.hum):
            msg = ('humidity of hourly forcing record %d is not the humidity ratio of the air state of its rural row '
                   '(T=%s RH=%s P=%s)' % (n, src[6], src[8], src[9]), wd.hum,
                   ind_hum(exp['rHum'], fl(src[6]), exp['pres']))
        elif written[n] != k:
            msg = ('record %d written to data row %d, its rural row (stamped start + %d hours) is %d' % (
                n, written[n], n, k), written[n], k)
        elif new[k][21] != '{0:.{1}f}'.format(exp_wind, prec):
            msg = ('wind written to row %d (stamp %s/%s h%s; rural wind %s, minimum wind %r, epw_precision %d)' % (
                k, src[1], src[2], src[3], src[21], wmin, prec), new[k][21], '{0:.{1}f}'.format(exp_wind, prec))
        elif abs(fl(new[k][21]) - exp_wind) > 0.5 * 10.0 ** (-prec) * (1 + 1e-9):
            msg = ('wind written to row %d is not the rural wind raised to the minimum within the rounding of '
                   '%d decimals' % (k, prec), new[k][21], exp_wind)
        elif stamps_ok and not leap and (int(new[k][1]), int(new[k][2]), int(new[k][3])) != stamp_dt(24 * j0 + n):
            msg = ('stamp of the row written for record %d' % n, new[k][1:4],
                   list(stamp_dt(24 * j0 + n)))
    if not msg:
        wset = set(written)
        for k in range(len(orig)):
            inside = k in wset
            if not inside and new[k][:22] != orig[k][:22]:
                msg = ('row %d outside the window was modified' % k, new[k][:22], orig[k][:22])
                break
            if inside and (new[k][:6] != orig[k][:6] or new[k][9:21] != orig[k][9:21]):
                msg = ('unmodelled cells of row %d changed' % k, new[k][:22], orig[k][:22])
                break
    if not msg and second:
        # the same object generated and simulated AGAIN (after write_epw, same rural file, same
        # window): hour n must still be forced by rural row n of the file, not by anything the
        # first run wrote
        try:
            with contextlib.redirect_stdout(io.StringIO()):
                # (a new, un-instrumented object: the logging rows above would hide in-place writes)
                model = build('out2_%s.epw' % tag)
                model.simulate()
                model.write_epw()
                model.generate()
                model.simulate()
            for n in range(N):
                src = orig[written[n]]
                wd = model.WeatherData[n]
                exp = {'temp': fl(src[6]) + 273.15, 'rHum': fl(src[8]), 'pres': fl(src[9]),
                       'wind': max(fl(src[21]), wmin)}
                got = {f: getattr(wd, f) for f in exp}
                if got != exp:
                    msg = ('second generate+simulate on the same object (after write_epw): hourly forcing '
                           'record %d differs from rural row %d of the file' % (n, n), got, exp)
                    break
        except Exception as e:  # noqa: BLE001
            msg = ('second generate+simulate on the same object raised %s' % type(e).__name__, str(e)[:200],
                   'a complete second run')
    return cases, msg, stamps_ok, nrows


# ----------------------------------------------------------------------------------------------
# rural rows at and beyond the limits of the EPW data dictionary (driver-only: no physics to upset)

def boundary_run(chk, idx, M, D, days, dt, precision, windmin, shift):
    """generate + driver-only simulate + write_epw on a copy of the Singapore file whose window rows hold, in every
    modelled column, the members of t1_util.BOUNDARY. Returns (marks, message or None)."""
    import s1_util as S
    import t1_util as T1
    from uwg import UWG
    from uwg.psychrometrics import hum_from_rhum_temp
    fl = T1.num
    work = chk.work()
    rows = S.load_epw(simdriver.epw_path())
    first = 8 + 24 * doy0(M, D)
    N = 24 * days
    marks = T1.boundary_window(rows, first, N, shift=shift)
    rural = S.save_epw(rows, os.path.join(work, 'c02b_%d.epw' % idx))
    try:
        with contextlib.redirect_stdout(io.StringIO()):
            model = UWG.from_param_file(simdriver.param_path(), epw_path=rural, new_epw_dir=work,
                                        new_epw_name='c02b_out_%d.epw' % idx)
            model.month, model.day, model.nday, model.dtsim = M, D, days, dt
            model.epw_precision = precision
            if windmin is not None:
                model.windmin = windmin
            model.generate()
    except Exception as e:  # noqa: BLE001
        return marks, ('generate raised %s on a rural file with legal cells' % type(e).__name__, str(e)[:200], 'a model')
    res = simdriver.driver_only_run(model, check_forc=False)
    if res.error:
        return marks, ('simulate (physics stubbed) raised %s' % res.error, res.error_msg, 'a complete run')
    wmin = model.geoParam.windMin
    if len(res.stored) != N:
        return marks, ('number of hourly records', len(res.stored), N)
    for n in range(N):
        r = rows[first + n]
        if (int(r[1]), int(r[2]), int(r[3])) != stamp_dt(24 * doy0(M, D) + n):
            return marks, ('stamp of rural row %d of the window' % n, r[1:4], list(stamp_dt(24 * doy0(M, D) + n)))
        t, rh, pr = fl(r[6]), fl(r[8]), fl(r[9])
        exp = {'infra': fl(r[12]), 'wind': max(fl(r[21]), wmin), 'uDir': fl(r[20]),
               'hum': hum_from_rhum_temp(rh, t, pr), 'pres': pr, 'temp': t + 273.15, 'rHum': rh, 'prec': 0.0,
               'dif': fl(r[15]), 'dir': fl(r[14])}
        if res.stored[n] is None:
            return marks, ('record %d was never taken' % n, None, exp)
        got = dict(zip(FORC_FIELDS, res.stored[n]))
        if got != exp:
            bad = sorted(f for f in exp if got[f] != exp[f])
            return marks, ('hourly forcing record %d does not hold the values of its rural row (stamp %s/%s h%s; cells '
                           'T=%r RH=%r P=%r infra=%r dir=%r dif=%r wdir=%r wind=%r): field(s) %s' % (
                               n, r[1], r[2], r[3], r[6], r[8], r[9], r[12], r[14], r[15], r[20], r[21],
                               ', '.join(bad)), {f: got[f] for f in bad}, {f: exp[f] for f in bad})
        ih = T1.ind_hum(rh, t, pr)
        if abs(got['hum'] - ih) > 1e-12 * abs(ih):
            return marks, ('humidity of record %d is not the humidity ratio of the air state of its rural row '
                           '(T=%r RH=%r P=%r)' % (n, r[6], r[8], r[9]), got['hum'], ih)
    try:
        with contextlib.redirect_stdout(io.StringIO()):
            model.write_epw()
    except Exception as e:  # noqa: BLE001
        return marks, ('write_epw raised %s' % type(e).__name__, str(e)[:200], 'a file')
    with open(model.new_epw_path, newline='') as f:
        new = [r for r in csv.reader(f) if r]
    if len(new) != len(rows):
        return marks, ('rows in the written file', len(new), len(rows))
    half = 0.5 * 10.0 ** (-precision) * (1 + 1e-9)
    for i in range(8, len(rows)):
        a, b = rows[i], new[i]
        n = i - first
        if 0 <= n < N:
            w = max(fl(a[21]), wmin)
            want = '{0:.{1}f}'.format(w, precision)
            if b[21] != want or abs(fl(b[21]) - w) > half:
                return marks, ('wind written to the row stamped %s/%s h%s (rural wind cell %r, minimum wind %r, '
                               'epw_precision %d)' % (a[1], a[2], a[3], a[21], wmin, precision), b[21], want)
            if b[:6] != a[:6] or b[9:21] != a[9:21] or b[22:] != a[22:]:
                return marks, ('unmodelled cells of the row stamped %s/%s h%s' % (a[1], a[2], a[3]), b[:22], a[:22])
        elif a != b:
            return marks, ('row %d outside the window' % (i - 8), b[:22], a[:22])
    return marks, None


def boundary_runs(chk, thorough):
    import t1_util as T1
    rng = chk.rng
    nruns = 6 if not thorough else 40
    bad, members = [], set()
    for idx in range(nruns):
        M, D = rng.choice(dates()[:364])
        days = 1 if idx % 3 else 2
        cfg = dict(month=M, day=D, nday=days, dtsim=rng.choice([d for d in DIVISORS if d >= 100]),
                   epw_precision=[1, 0, 2, 3, 1, 4][idx % 6] if idx < 6 else rng.randint(0, 6),
                   windmin=[None, 0.5, 0.01, 1.0, 2.5, 0.25][idx % 6] if idx < 6 else rng.choice([None, 0.01, 0.5, 3.0]),
                   shift=idx)
        marks, msg = boundary_run(chk, idx, M, D, days, cfg['dtsim'], cfg['epw_precision'], cfg['windmin'], idx)
        members |= set((c, v) for (n, c), v in marks.items())
        if msg:
            bad.append((cfg, msg))
    for cfg, msg in bad[:3]:
        chk.violation('impl-violation', 'C02 record / written-wind oracle on rural rows at the limits of the EPW data '
                      'dictionary (generate + driver-only simulate + write_epw)',
                      case=dict(cfg, epw=simdriver.EPWS[0] + ' with t1_util.boundary_window(rows, first row of the '
                                'window, 24*nday, shift) applied'),
                      observed={'what': msg[0], 'value': msg[1]}, expected=msg[2],
                      how='harness/props/c02.py: boundary_run(chk, 0, month, day, nday, dtsim, epw_precision, windmin, shift)')
    per_col = {T1.NAMES[c]: sorted(set(v for (cc, v) in members if cc == c)) for c in T1.BOUNDARY}
    chk.direct('record+wind-oracle(rural rows at the EPW limits, every modelled column)', nruns, nruns,
               'copies of the Singapore file whose window rows hold, in EVERY modelled column, values at and beyond '
               'the limits the EPW data dictionary allows and in every spelling the package reads: RH 0, 0.4, 1, 99, '
               '100, 101, 103, 105.5, 110, 95.38; dry bulb -70, 70, -0.0, -0.04, 0.05, "+12.5", " 7.3", "1.25e1"; '
               'pressure 31000, 120000, "100,900" (thousands separator), "1.009E5", 99950.5; radiation 0, 1, 1100, '
               '"1,050"; wind direction 0, 360, 180.5; wind speed 0, 0.04, 0.05, 0.95, 9.95, 10.0, "10", 20.0, 30.0, '
               '40.0, 19.9, 20.1, "1E1" - x epw_precision 0..4 x minimum wind unset / 0.01 / 0.25 / 0.5 / 1 / 2.5 x '
               'random start and hour-dividing dt. Real generate + simulate (physics stubbed) + write_epw: every '
               'hourly forcing record holds exactly the numbers of its own rural row (cells read independently: '
               'float of the text with separators dropped), its humidity is bit-identical to hum_from_rhum_temp(row RH, '
               'row T, row P) and within 1e-12 of an independent formula, the wind cell written to that row is '
               '"{:.<p>f}" of max(rural wind, minimum) and within half a unit of it, all other cells unchanged',
               mismatches=len(bad), branches={'distinct (column, spelling) members': len(members)},
               samples=[str(per_col)[:600]])


# ----------------------------------------------------------------------------------------------
# round 4: the property on what ONE execution showed, whatever the route (u1_util.Result)

def judge_result(rural, res, M, D, days, windmin, prec):
    """C02 on the observation of one run: the hourly forcing record n (where the route shows records) equals the
    rural row stamped start + n hours - wind raised to the minimum wind speed THE USER configured -, the wind cell
    written to that row is that wind at the configured precision, the row keeps its stamp, every other row and every
    unmodelled cell is the rural one. Returns None or (message, observed, expected)."""
    from uwg.psychrometrics import hum_from_rhum_temp
    from t1_util import num as fl
    import u1_util as U1
    if res.error:
        return ('the run did not complete (%s)' % res.stage, res.error, 'every hour of the window recorded and written')
    with open(rural, newline='') as f:
        orig = [r for r in csv.reader(f) if r][8:]
    with open(res.file, newline='') as f:
        new = [r for r in csv.reader(f) if r][8:]
    N = 24 * days
    j0 = doy0(M, D)
    if len(new) != len(orig):
        return ('data rows in the written file', len(new), len(orig))
    recs = res.records
    if recs is not None and (len(recs) != N or any(r is None for r in recs)):
        return ('hourly records taken', [n for n, r in enumerate(recs) if r is not None][-3:], 'records 0..%d' % (N - 1))
    by_stamp = {}
    for k, r in enumerate(orig):
        by_stamp.setdefault((int(r[1]), int(r[2]), int(r[3])), k)
    window = set()
    for n in range(N):
        k = by_stamp.get(stamp_dt(24 * j0 + n))
        if k is None:
            return ('rural file has no row stamped start + %d hours' % n, None, list(stamp_dt(24 * j0 + n)))
        window.add(k)
        src = orig[k]
        exp_wind = max(fl(src[21]), windmin)
        if recs is not None:
            got = dict(zip(U1.W_FIELDS, (float(x) for x in recs[n]['w'])))
            exp = {'temp': fl(src[6]) + 273.15, 'rHum': fl(src[8]), 'pres': fl(src[9]), 'infra': fl(src[12]),
                   'dir': fl(src[14]), 'dif': fl(src[15]), 'uDir': fl(src[20]), 'wind': exp_wind,
                   'hum': hum_from_rhum_temp(fl(src[8]), fl(src[6]), fl(src[9]))}
            badf = sorted(f for f in exp if got[f] != exp[f])
            if badf:
                return ('hourly forcing record %d differs from the rural row stamped start + %d hours (%s/%s h%s: T=%s RH=%s '
                        'P=%s wind=%s; minimum wind speed configured: %r): field(s) %s' % (
                            n, n, src[1], src[2], src[3], src[6], src[8], src[9], src[21], windmin, ', '.join(badf)),
                        {f: got[f] for f in badf}, {f: exp[f] for f in badf})
        want = '{0:.{1}f}'.format(exp_wind, prec)
        if new[k][21] != want:
            return ('wind written to the row stamped %s/%s h%s (hour %d; rural wind %s, minimum wind speed configured %r, '
                    'epw_precision %d)' % (src[1], src[2], src[3], n, src[21], windmin, prec), new[k][21], want)
        if new[k][:6] != src[:6] or new[k][9:21] != src[9:21] or new[k][22:] != src[22:]:
            return ('stamp / unmodelled cells of the row written for hour %d' % n, new[k][:6], src[:6])
    for k in range(len(orig)):
        if k not in window and new[k] != orig[k]:
            return ('row %d outside the window was modified' % k, new[k][:22], orig[k][:22])
    return None


def circumstance_runs(chk, thorough):
    """(x1) the six circumstances of harness/generic.py on an un-stubbed run, judged by judge_result; (x2) every documented
    parameter that is NOT the minimum wind speed moved off its shipped value; (x3) time steps that are not whole numbers
    of seconds: whatever the package accepts keeps record n on row n."""
    import u1_util as U1
    rng = chk.rng
    work = os.path.join(chk.work(), 'c02x')
    os.makedirs(work)
    rural = os.path.join(work, 'rural_pattern.epw')
    make_rural(simdriver.epw_path(), rural)
    param = simdriver.param_path()
    late = [d for d in dates() if d != (12, 31)]

    def report(what, case, msg):
        chk.violation('impl-violation', what, case=case, observed={'what': msg[0], 'value': msg[1]}, expected=msg[2],
                      how='harness/u1_util.py execute(spec) / run_circumstances(spec); harness/props/c02.py judge_result')

    # ---- (x1) circumstances ------------------------------------------------------------------------------
    n1 = b1 = 0
    br1 = {}
    for rep in range(1 if not thorough else 3):
        M, D = rng.choice(late)
        wm = [None, 2.5, 0.5][rep % 3]
        attrs = [('month', M), ('day', D), ('nday', 1), ('dtsim', 300)] + ([('windmin', wm)] if wm else [])
        # (this member's rural file: every third modelled cell of the window at / beyond the EPW limits or in another
        #  spelling - RH 100..110, calm and 10 / 20 m/s winds, "100,900", "1.009E5" ...: what a "repair" step would touch)
        rural1 = os.path.join(work, 'rural_x1_%d.epw' % rep)
        make_rural(simdriver.epw_path(), rural1, boundary=(24 * doy0(M, D), 24, rng.randint(0, 23)))
        sp = U1.spec(rural1, attrs=attrs, param=param, outdir=os.path.join(work, 'x1_%d' % rep), outname='m.epw')
        other = U1.spec(rural, attrs=[('month', (M % 12) + 1), ('day', 3), ('nday', 1), ('dtsim', 300), ('windmin', 3.0),
                                      ('bldheight', 30)], param=param, outname='other.epw',
                        label='another model on the same rural file with minimum wind speed 3')
        windmin = float(U1.build(sp).windmin)
        out = U1.run_circumstances(work, sp, other, tag='x1_%d' % rep)
        plain = out[0][1]
        if plain.error and 'FATAL' in plain.error:
            chk.notes.append('C02 circumstance run %s stopped by the model\'s own FATAL ERROR: not a verdict' % (attrs,))
            continue
        for nm, r, msgs in out:
            n1 += 1
            br1[nm] = br1.get(nm, 0) + 1
            msg = (msgs[0], None, 'no trace in the caller\'s data / class-level state') if msgs else None
            msg = msg or judge_result(rural1, r, M, D, 1, windmin, 1)
            if not msg:
                ap = U1.against_plain(U1.reference_for(out, nm), r)
                msg = ap and ('differs from the plain run: ' + ap[0], ap[1], ap[2])
            if msg:
                b1 += 1
                if b1 <= 3:
                    report('C02 row / wind / stamp oracle under a circumstance that is not an input (%s)' % nm,
                           {'circumstance': nm, 'route': r.route, 'month': M, 'day': D, 'nday': 1, 'dtsim': 300,
                            'windmin': windmin, 'epw': simdriver.EPWS[0] + ' with wind column w_k=((7k) mod 120)/10'}, msg)
    chk.direct('row-oracle under circumstances (observers, DEBUG, python -O, command line, neighbours, caller data)', n1, n1,
               'an un-stubbed generate; simulate; write_epw on the Singapore file with a row-identifying wind column and every '
               'third modelled cell of the window at / beyond the EPW limits or in another spelling (t1_util.MILD), run '
               'plainly; while repr / str / ToString of the model and of every reachable uwg object is taken after '
               'construction, after generate(), every 41st step of simulate(), after simulate() and after write_epw(); with '
               'DEBUG logging; in a fresh `python -O` interpreter; through `python [-O] -m uwg simulate model|param` (the JSON also with whole numbers typed as ints); '
               'interleaved with another model on the same file that has another minimum wind speed; from the caller\'s '
               'own dictionary edited in place after generate(). Each observation: forcing record n = the rural row '
               'stamped start + n hours with wind raised to the CONFIGURED minimum, written wind cell, stamps, all other '
               'cells unchanged; and records + written bytes identical to the plain run',
               mismatches=b1, branches=br1)

    # ---- (x2) parameters that are not the minimum wind speed ------------------------------------------------
    members = [(k, v) for k in U1.HEIGHTS for v in U1.ALT_PARAMS[k]]
    rest = [(k, v) for k in sorted(U1.ALT_PARAMS) if k not in U1.HEIGHTS for v in U1.ALT_PARAMS[k]]
    members += rest if thorough else rng.sample(rest, 6)
    members.append(('*heights', None))
    n2 = b2 = 0
    br2 = {}
    wms = [None, 2.5, 0.5, 0.25, 1.75]
    for i, (name, val) in enumerate(members):
        M, D = rng.choice(late)
        wm = wms[i % len(wms)]
        extra = [(k, U1.ALT_PARAMS[k][-1]) for k in U1.HEIGHTS] if name == '*heights' else [(name, val)]
        attrs = [('month', M), ('day', D), ('nday', 1), ('dtsim', 300)] + extra + ([('windmin', wm)] if wm else [])
        real = (name == 'h_wind' and i < 2)              # two of them with the un-stubbed physics
        sp = U1.spec(rural, attrs=attrs, param=param, outdir=os.path.join(work, 'x2'), outname='p%d.epw' % i,
                     stub=not real)
        r = U1.execute(sp, keep_model=False)
        if r.error and real and 'FATAL' in r.error:
            chk.notes.append('C02 un-stubbed run with %s stopped by the model\'s own FATAL ERROR: not a verdict' % (extra,))
            continue
        n2 += 1
        br2[('heights' if name in U1.HEIGHTS or name == '*heights' else 'other') +
            (', un-stubbed' if real else ', physics stubbed')] = br2.get(
            ('heights' if name in U1.HEIGHTS or name == '*heights' else 'other') +
            (', un-stubbed' if real else ', physics stubbed'), 0) + 1
        msg = judge_result(rural, r, M, D, 1, float(wm) if wm else 1.0, 1)
        if msg:
            b2 += 1
            if b2 <= 3:
                report('C02 record / written wind whatever the OTHER parameters are (%s)' % ', '.join(
                    '%s=%r' % kv for kv in extra),
                       {'month': M, 'day': D, 'nday': 1, 'dtsim': 300, 'windmin': wm if wm else 'shipped (1.0)',
                        'parameters moved off the shipped value': dict(extra), 'physics': 'real' if real else 'stubbed',
                        'epw': simdriver.EPWS[0] + ' with wind column w_k=((7k) mod 120)/10'}, msg)
    chk.direct('record+wind-oracle(every other parameter moved off its shipped value)', n2, n2,
               'the record of hour n is rural row n and the written wind is max(rural wind, CONFIGURED minimum wind speed) '
               'whatever the other parameters are: one run per member, each with one documented parameter moved to another '
               'legal value - the heights h_wind (2, 30, 5.5 m; every shipped example has 10), h_temp, h_ref, h_obs, '
               'h_ubl1, h_ubl2, all heights at once, and (quick: 6 random, thorough: all) of c_circ, c_exch, maxday, '
               'maxnight, bldheight, h_mix, blddensity, vertohor, charlength, albroad, droad, sensanth, covers, vegstart / '
               'vegend, albveg, rurvegcover, latgrss / lattree, kroad, croad, occupancy fractions, the six optional '
               'overrides, autosize, zone - x minimum wind speed shipped / 2.5 / 0.5 / 0.25 / 1.75, on a rural file with '
               'calm hours in every window; two h_wind members with the un-stubbed physics, the others with the physics '
               'stubbed from outside (loop, records, write_epw real). The expected wind uses the value the USER set, not '
               'what generate() stored',
               mismatches=b2, branches=br2)

    # ---- (x3) time steps that are not whole numbers of seconds -----------------------------------------------
    odd = [(112.5, 11), (7.5, 1), (22.5, 2), (12.5, 1), (1800.5, 1), (300.0, 1), (0.5, 1), (37.5, 4)]
    if thorough:
        odd += [(56.25, 10), (2.5, 1), (1.5, 1), (450.0, 2), (3600.0, 2), (187.5, 9), (0.75, 1), (112.5, 20), (7.5, 3)]
    n3 = b3 = 0
    br3 = {}
    for i, (dtv, nd) in enumerate(odd):
        M, D = rng.choice([d for d in dates() if doy0(*d) + nd <= 364])
        sp = U1.spec(rural, attrs=[('month', M), ('day', D), ('nday', nd), ('dtsim', dtv)], param=param,
                     outdir=os.path.join(work, 'x3'), outname='d%d.epw' % i, stub=True)
        sp['max_steps'] = 40000 if not thorough else 400000
        r = U1.execute(sp, keep_model=False)
        n3 += 1
        if r.error and r.stage in ('construct', 'generate'):
            kind = 'refused' if r.error_class != 'TooLong' else 'accepted, too many steps for this tier'
            br3[kind] = br3.get(kind, 0) + 1
            continue
        acc = 'accepted as dt = %s' % (r.info or {}).get('simdt')
        br3['accepted'] = br3.get('accepted', 0) + 1
        msg = judge_result(rural, r, M, D, nd, 1.0, 1)
        if msg:
            b3 += 1
            if b3 <= 2:
                report('C02 record n on row n for every time step the package accepts (dtsim = %r, %s)' % (dtv, acc),
                       {'dtsim': dtv, 'time step in force (simTime.dt)': (r.info or {}).get('simdt'), 'month': M, 'day': D,
                        'nday': nd, 'physics': 'stubbed', 'epw': simdriver.EPWS[0] + ' with wind column w_k=((7k) mod 120)/10'},
                       msg)
    chk.direct('row-oracle(time steps that are not whole seconds: whatever is accepted keeps record n on row n)', n3, n3,
               'dtsim = 112.5 (11 days), 7.5, 22.5 (2 days), 37.5 (4 days), 12.5, 1800.5, 0.5 and the float spelling 300.0 '
               '(thorough: also 56.25, 2.5, 1.5, 0.75, 187.5, 450.0, 3600.0, longer windows): the package may cut, refuse or '
               'accept them; for every value it accepts (setter and generate() do not raise) the run - physics stubbed, '
               'loop / records / write_epw real, window long enough for a truncation of the step to add up to whole hours - '
               'must put record n on the rural row stamped start + n hours and write its wind there',
               mismatches=b3, branches=br3)


def window_length_family(chk, thorough):
    """Round 5: "every hour of the window including the last", for ALL 45 time steps x window lengths 1..365 days.
    Expressions such as `int(24 * days / ph) + 1` or `int(round(timeMax / dt + 1))` are exact in rational arithmetic and
    can be one off in doubles for particular (dt, days): the loop then stops one step short (the last hour is never
    recorded) or runs one step over. (1) the real SimParam for every divisor x EVERY length 1..365 (random start that leaves
    room): number of steps, first / last rural row of the window, rows per day; (2) end probes on the REAL loop
    (harness/v1_util.py FloatLoop: real SimParam, physics stubbed): the loop body entered two steps before the end of the
    window and left to finish by itself, for every divisor x the first / middle / last length of every binade of
    24 days hours + random lengths (thorough: every length): the loop must end exactly at start + days, the step that ends
    the window must be forced by the LAST rural row of the window (row 24 days - 1) and take a record, the record lists
    must have 24 days slots."""
    import v1_util as V
    from uwg.simparam import SimParam
    rng = chk.rng
    bad, n1 = [], 0
    for dt in DIVISORS:
        for days in range(1, 366):
            j0 = rng.randint(0, 365 - days)
            M, D = V.date_of(j0)
            try:
                sp = SimParam(dt, 3600, M, D, days)
                got = [sp.nt, sp.timeInitial, sp.timeFinal, sp.timeDay, sp.timeMax]
            except Exception as e:  # noqa: BLE001
                got = '%s: %s' % (type(e).__name__, str(e)[:80])
            want = [days * 86400 // dt + 1, 8 + 24 * j0, 8 + 24 * j0 + 24 * days - 1, 24, 86400 * days]
            n1 += 1
            if got != want and len(bad) < 6:
                bad.append({'dtsim': dt, 'month': M, 'day': D, 'nday': days, 'member': 'SimParam(dt, 3600, month, day, nday)',
                            'observed': {'nt, timeInitial, timeFinal, timeDay, timeMax': got},
                            'expected': {'nt, timeInitial, timeFinal, timeDay, timeMax': want}})
    fl = V.FloatLoop(buildings=0)
    tri = sorted(set(k + 1 for t in V.binade_offsets() for k in t) | {1, 365})
    n2 = 0
    for dt in DIVISORS:
        spd = 86400 // dt
        lens = list(range(1, 366)) if thorough else sorted(set(tri + rng.sample(range(1, 366), 5)))
        for days in lens:
            M, D = V.date_of(rng.randint(0, 365 - days))
            n2 += 1
            b = fl.run(dt, M, D, days, first=max(1, days * spd - 2))
            if b is not None:
                b['member'] = 'end probe'
                bad.append(b)
    bad.sort(key=lambda b: (0 if b['member'] != 'end probe' else 1, b['nday'] * 86400 // b['dtsim']))
    shown = 0
    for b in bad:
        if shown >= 3:
            break
        if b['member'] == 'end probe' and b['nday'] * 86400 // b['dtsim'] <= 1500000:
            full = fl.run(b['dtsim'], b['month'], b['day'], b['nday'])          # the complete run of the same parameters
            if full is not None:
                full['member'] = 'end probe, confirmed by the complete run of the same parameters'
                b = full
        shown += 1
        chk.violation('impl-violation', 'every hour of the window including the last: steps, rows and records of a window of '
                      'nday days at time step dtsim',
                      case={k: b[k] for k in ('dtsim', 'month', 'day', 'nday', 'step', 'member', 'probe') if k in b},
                      observed=b['observed'], expected=b['expected'],
                      how='SimParam(dtsim, 3600, month, day, nday) / harness/v1_util.py FloatLoop().run(dtsim, month, day, nday'
                          '[, first]): the real UWG.simulate with a real SimParam and the physics stubbed')
    chk.direct('window-length oracle(45 divisors x 1..365 days: steps, last row, last record)', n1 + n2, n1 + n2,
               'for every divisor of 3600 and EVERY window length 1..365 days (random start that leaves room) the real '
               'SimParam: nt = days * 86400 / dt + 1, timeInitial / timeFinal = first / last row of the window, 24 rows per '
               'day; and end probes on the REAL float loop (real SimParam, physics stubbed, entered two steps before the end '
               'of the window with the state the calendar predicts, left to finish by itself) for every divisor x the first / '
               'middle / last length of every binade of 24 x days hours, 1 and 365 days and 5 random lengths (thorough: every '
               'length): the loop ends exactly at start + days, every step executed is forced by the row of its own hour (the '
               'last by row 24 days - 1), the hour that ends the window is recorded, the record lists have 24 days slots '
               '(%d probes); a failing probe is re-run as the complete run' % n2,
               mismatches=len(bad), branches={'SimParam': n1, 'end probes': n2})


# ----------------------------------------------------------------------------------------------
# header text with characters that only SOME line splitters take for line ends (the C01 family, judged here by the
# row-stamp oracle): the header must stay eight rows, hour n the row stamped start + n hours

def linebreak_family(chk, thorough):
    import s1_util as S
    import x1_util as X1
    rng = chk.rng
    base_rows = S.load_epw(simdriver.epw_path())
    work = chk.work()
    seps = X1.line_breaks()
    places = [p for p, _ in X1.SEP_PLACES]
    if thorough:
        combos = [(c, p) for c in seps for p in places[:3]] + [(rng.choice(seps), p) for p in places[3:]]
    else:
        cs = rng.sample(seps[:5], 2) + rng.sample(seps[5:], 2)
        combos = list(zip(cs, rng.sample(places[:3], 3) + [rng.choice(places[3:])]))
    late = [d for d in dates() if d != (1, 1)]
    cases, bad, nruns, br = [], [], 0, {}
    for i, (c, place) in enumerate(combos):
        rows, k = X1.sep_header(base_rows, c, place)
        path = X1.write_text_epw(rows, os.path.join(work, 'c02sep_%d.epw' % i))
        # what a text-file csv reader makes of the file: still 8 header rows (an input assumption, checked)
        with open(path, newline='', encoding='utf-8') as f:
            parsed = list(csv.reader(f))
        if len(parsed) != len(rows) or parsed[8][:6] != rows[8][:6]:
            chk.notes.append('line-break family: file %d is not 8 header rows + records for a text-file reader' % i)
            continue
        for (M, D) in [rng.choice(late), rng.choice([d for d in late if d[0] >= 3])][:2 if thorough else 1]:
            days = min(365 - doy0(M, D), rng.randint(1, 2))
            cfg = (M, D, days, rng.choice([d for d in DIVISORS if d >= 100]))
            nrow, res, err = drive(cfg, epw=path, rows=rows)
            nruns += 1
            br['U+%04X' % ord(c)] = br.get('U+%04X' % ord(c), 0) + 1
            base = 'drv dt=%d M=%d D=%d days=%d file=%d' % (cfg[3], M, D, days, len(rows) - 8)
            if err:
                cases.append((base, err))
                bad.append((cfg, c, place, ('generate/simulate raised on a legal rural file', err, 'a complete run')))
                continue
            h, rh = digests(res)
            cases.append((base, 'ok steps=%d digest=%d nrec=%d rdigest=%d' % (len(res.steps), h, len(res.records), rh)))
            msg = res.window_msg or oracle_driver(cfg, res)
            if msg:
                bad.append((cfg, c, place, msg))
    chk.correspond(
        'simulate(driver-only)~driver on rural files with line-break-like characters in header text', 'C02', cases,
        rule='as tie 1, on copies of the Singapore file whose UNQUOTED header text (LOCATION city, COMMENTS 1 / 2, '
             'DESIGN CONDITIONS source, DATA PERIODS name; one or two per file) holds a vertical tab, form feed, FS, GS, RS, '
             'NEL, U+2028 or U+2029 - ordinary cell content for a csv reader fed by a text file, a line end for '
             'str.splitlines(); start dates other than 1 January; the model is the SAME driver (the header stays 8 rows)',
        classify=lambda line, impl: impl.split(' ')[0])
    for cfg, c, place, msg in bad[:3]:
        chk.violation('impl-violation', 'C02 window/row oracle on a rural file whose header text holds the character %r' % c,
                      case={'month': cfg[0], 'day': cfg[1], 'nday': cfg[2], 'dtsim': cfg[3], 'epw': simdriver.EPWS[0],
                            'header_character': 'U+%04X' % ord(c), 'header_place': place},
                      observed={'what': msg[0], 'value': msg[1]}, expected=msg[2],
                      how='x1_util.sep_header(load_epw(Singapore), chr, place) -> x1_util.write_text_epw; '
                          'simdriver.build_model(month, day, nday, dtsim, epw=file); c02.window_oracle')
    # one un-stubbed run + write_epw: forcing records, rows written and their stamps in the written file
    real = []
    for rep in range(1 if not thorough else 3):
        c, place = rng.choice(seps), rng.choice(places[:4])
        (M, D) = rng.choice([d for d in late if d != (12, 31)])
        opts = dict(sep=(c, place), second=False)
        cs, msg, stamps_ok, nrows = real_run(chk, M, D, 1, 300, simdriver.EPWS[0], **opts)
        real.append(msg)
        if msg:
            chk.violation('impl-violation', 'C02 oracle on generate+simulate+write_epw (header text holds %r)' % c,
                          case={'month': M, 'day': D, 'nday': 1, 'dtsim': 300,
                                'epw': simdriver.EPWS[0] + ' with wind column w_k=((7k) mod 120)/10',
                                'options': dict(sep=[c, place], second=False)},
                          observed={'what': msg[0], 'value': msg[1]}, expected=msg[2])
    nb = len(bad) + len([m for m in real if m])
    chk.direct('window+row-oracle(header text with VT / FF / FS GS RS / NEL / U+2028 / U+2029)', nruns + len(real),
               nruns + len(real),
               'rural files whose unquoted header text holds a character that str.splitlines() (not a text-file csv '
               'reader) takes for a line end, start dates other than 1 January: after generate() the window bounds are '
               'the rows STAMPED start .. start + 24*nday - 1 hours and the forcing lists hold those rows\' values; row '
               'oracle of tie 1 on the driver-only run; one un-stubbed run + write_epw (thorough: 3): WeatherData[n] is the '
               'row stamped start + n hours, its result is written to that row, every other row unchanged',
               mismatches=nb, branches=br)


# ----------------------------------------------------------------------------------------------
# round 8: wind cells that coincide with the minimum wind speed elsewhere in the file

def wind_alias_run(chk, idx, M, D, days, dt, precision, windmin, mode):
    """generate + driver-only simulate + write_epw on a copy of the Singapore file whose wind column is laid out so
    that a writer (or reader) that looks at the wind cell of ANOTHER row - the row at the same offset counted from the
    top of the file / of the data rows, a neighbour, a row 8 or 24 away - meets exactly the minimum wind speed there
    while the row's own rural wind is calm:
      mode 0: window rows calm (0.0 / 0.3*wmin), every row outside the window exactly the minimum;
      mode 1: inside the window calm and exactly-minimum rows alternate with period 2, outside as mode 0;
      mode 2: period 3 with a windy row (2.5*wmin) in between; outside the window calm.
    Returns None or (what, observed, expected)."""
    import s1_util as S
    from uwg import UWG
    work = chk.work()
    rows = S.load_epw(simdriver.epw_path())
    first = 8 + 24 * doy0(M, D)
    N = 24 * days
    wm = 1.0 if windmin is None else windmin
    txt = lambda x: repr(round(x, 6))
    for i in range(8, len(rows)):
        n = i - first
        inside = 0 <= n < N
        if mode == 0:
            w = [0.0, 0.3 * wm][n % 2] if inside else wm
        elif mode == 1:
            w = [0.3 * wm, wm][n % 2] if inside else wm
        else:
            w = [0.3 * wm, 2.5 * wm, wm][n % 3] if inside else 0.0
        rows[i][21] = txt(w)
    rural = S.save_epw(rows, os.path.join(work, 'c02w_%d.epw' % idx))
    try:
        with contextlib.redirect_stdout(io.StringIO()):
            model = UWG.from_param_file(simdriver.param_path(), epw_path=rural, new_epw_dir=work,
                                        new_epw_name='c02w_out_%d.epw' % idx)
            model.month, model.day, model.nday, model.dtsim = M, D, days, dt
            model.epw_precision = precision
            if windmin is not None:
                model.windmin = windmin
            model.generate()
    except Exception as e:  # noqa: BLE001
        return ('generate raised %s on a rural file with legal wind cells' % type(e).__name__, str(e)[:200], 'a model')
    res = simdriver.driver_only_run(model, check_forc=False)
    if res.error:
        return ('simulate (physics stubbed) raised %s' % res.error, res.error_msg, 'a complete run')
    wmin = model.geoParam.windMin
    if len(res.stored) != N:
        return ('number of hourly records', len(res.stored), N)
    iw = FORC_FIELDS.index('wind')
    for n in range(N):
        want = max(float(rows[first + n][21]), wmin)
        if res.stored[n] is None or res.stored[n][iw] != want:
            return ('wind of hourly forcing record %d (rural wind cell %r, minimum wind %r)' % (n, rows[first + n][21], wmin),
                    None if res.stored[n] is None else res.stored[n][iw], want)
    try:
        with contextlib.redirect_stdout(io.StringIO()):
            model.write_epw()
    except Exception as e:  # noqa: BLE001
        return ('write_epw raised %s' % type(e).__name__, str(e)[:200], 'a file')
    with open(model.new_epw_path, newline='') as f:
        new = [r for r in csv.reader(f) if r]
    if len(new) != len(rows):
        return ('rows in the written file', len(new), len(rows))
    for i in range(8, len(rows)):
        a, b = rows[i], new[i]
        n = i - first
        if 0 <= n < N:
            want = '{0:.{1}f}'.format(max(float(a[21]), wmin), precision)
            if b[21] != want:
                return ('wind written to the row stamped %s/%s h%s = window row %d (its rural wind cell %r, minimum wind %r, '
                        'epw_precision %d; wind cell of file line %d: %r, of data row %d: %r)' % (
                            a[1], a[2], a[3], n, a[21], wmin, precision, n, rows[n][21:22], n, rows[8 + n][21]), b[21], want)
            if b[:6] != a[:6] or b[9:21] != a[9:21] or b[22:] != a[22:]:
                return ('unmodelled cells of the row stamped %s/%s h%s' % (a[1], a[2], a[3]), b[:22], a[:22])
        elif a != b:
            return ('row %d outside the window' % (i - 8), b[:22], a[:22])
    return None


def wind_alias_runs(chk, thorough):
    rng = chk.rng
    nruns = 6 if not thorough else 30
    bad = []
    for idx in range(nruns):
        M, D = rng.choice(dates()[1:364]) if idx % 6 else (1, 1)
        cfg = dict(month=M, day=D, nday=1 if idx % 2 else 2, dtsim=rng.choice([d for d in DIVISORS if d >= 300]),
                   epw_precision=[1, 0, 2, 4, 1, 3][idx % 6], windmin=[None, 0.5, 2.5, 1.0, 0.25, 0.1][idx % 6],
                   mode=idx % 3)
        msg = wind_alias_run(chk, idx, M, D, cfg['nday'], cfg['dtsim'], cfg['epw_precision'], cfg['windmin'], cfg['mode'])
        if msg:
            bad.append((cfg, msg))
    for cfg, msg in bad[:3]:
        chk.violation('impl-violation', 'C02 written-wind oracle on a rural file whose calm rows coincide with rows '
                      'holding exactly the minimum wind speed elsewhere in the file',
                      case=dict(cfg, epw=simdriver.EPWS[0] + ' with the wind column of wind_alias_run(mode)'),
                      observed={'what': msg[0], 'value': msg[1]}, expected=msg[2],
                      how='harness/props/c02.py: wind_alias_run(chk, 0, month, day, nday, dtsim, epw_precision, windmin, mode)')
    chk.direct('wind-oracle(calm rows whose namesake rows elsewhere hold exactly the minimum wind)', nruns, nruns,
               'copies of the Singapore file whose wind column is laid out so that looking at the wind cell of any OTHER '
               'row than the one being written / read (the row with the same index counted from the top of the file or '
               'of the data rows, a neighbour, a row 8 or 24 away) meets exactly the minimum wind speed while the row '
               'itself is calm - three layouts x minimum wind unset / 0.1 / 0.25 / 0.5 / 1 / 2.5 x epw_precision 0..4 x '
               'windows that do and do not start on 1 January. Real generate + simulate (physics stubbed) + write_epw: '
               'record n holds max(own rural wind, minimum); the cell written to row n is "{:.<p>f}" of it; every other '
               'cell unchanged', mismatches=len(bad))


def stamp_dt(k):
    """EPW hour-ending stamp of data row k from datetime: the row describes the hour beginning k hours
    after 1 Jan 00:00; month/day of that instant, hour number 1..24."""
    t = BASE + datetime.timedelta(hours=k)
    return (t.month, t.day, t.hour + 1)


def run(chk):
    from props import weather
    chk.proof(MODULE, THEOREMS + weather.THEOREMS, extra_modules=[weather.MODULE])
    thorough = chk.tier == 'thorough'
    if thorough:
        chk.leanchecker([MODULE, weather.MODULE])
    rng = chk.rng

    # ---- tie 1: driver-only execution of the real simulate vs the Lean driver --------------------
    cfgs = gen_configs(rng, thorough)
    cases, n_steps, bad, n_runs = [], 0, [], 0
    branches = {}
    for cfg in cfgs + MALFORMED:
        M, D, days, dt = cfg
        rows, res, err = drive(cfg)
        base = 'drv dt=%d M=%d D=%d days=%d file=8760' % (dt, M, D, days)
        if err:
            cases.append((base, err))
        else:
            h, rh = digests(res)
            cases.append((base, 'ok steps=%d digest=%d nrec=%d rdigest=%d' % (
                len(res.steps), h, len(res.records), rh)))
            if len(res.steps) <= 3000:
                cases.append((base + ' full=1', full_text(res)))
            n_steps += len(res.steps)
        if cfg in MALFORMED:
            continue
        n_runs += 1
        msg = oracle_driver(cfg, res) if res is not None else ('generate raised', err, 'a model')
        if msg:
            bad.append((cfg, msg))
    chk.correspond(
        'simulate(driver-only)~driver', 'C02', cases,
        rule='the REAL UWG.simulate with the physics stubbed from outside, for all 45 divisors of 3600 x '
             'random (start, days) inside the year + year-end/month-end windows + malformed (window '
             'beyond the file, refused timesteps, 30 February): per step (it, ceil_time_step, secDay, '
             'hourDay, month, day, julian, dayType, n, record taken, month used for Tsoil) and the record '
             '(the model derives the number of rural rows from the file length 8760 as Weather does) '
             'events (n, it, row) vs Lean drvStep/driver; digests over every step, full text for runs '
             '<= 3000 steps; non-trivial = run without exception',
        classify=lambda line, impl: impl.split(' ')[0] + (' ' + impl.split(' ')[1] if impl.startswith('err') else '') +
        (' full' if 'full=1' in line else ''))
    for cfg, msg in bad[:3]:
        chk.violation('impl-violation', 'C02 oracle on a driver-only run of UWG.simulate',
                      case={'month': cfg[0], 'day': cfg[1], 'nday': cfg[2], 'dtsim': cfg[3],
                            'epw': simdriver.EPWS[0]},
                      observed={'what': msg[0], 'value': msg[1]}, expected=msg[2],
                      how='harness/simdriver.py: build_model(month, day, nday, dtsim); '
                          'driver_only_run(model)')
    chk.direct('row-oracle(simulate driver-only)', n_runs, n_runs,
               'on every valid run: every step is forced by the rural row of the window hour containing '
               'it; record n holds the (encoded) values of rural row n with wind = max(wind, windMin); '
               'exactly one record per hour, taken at it*dt = 3600(n+1); no exception',
               mismatches=len(bad), branches={'steps observed': n_steps})

    # ---- tie 1b: the same on legal but never-varied rural files ------------------------------------
    # Header cells the model does not interpret (leap-year flag, daylight-saving period, holidays, start week-day,
    # soil-property cells, comments ...) must not move the window: hour n is the row STAMPED start + n hours.
    import s1_util as S
    base_rows = S.load_epw(simdriver.epw_path())
    work = chk.work()
    names = S.pick_variants(rng, 4 if not thorough else 14, must=('leapflag-Yes', 'actual-year-header'))
    names += ['leap8784', 'leap8784noflag+weekday-Wednesday']
    vcases, vbad, vruns, vbr = [], [], 0, {}
    picks = [d for d in DIVISORS if d >= (100 if not thorough else 20)]
    for name in names:
        rows = S.apply_variant(base_rows, name)
        path = S.save_epw(rows, os.path.join(work, 'c02v_%d.epw' % names.index(name)))
        leap = 'leap8784' in name
        # one start from March on (where a shifted month table would show), one anywhere
        starts = [rng.choice([d for d in dates() if d[0] >= 3]), rng.choice(dates())]
        if thorough:
            starts += [rng.choice(dates()) for _ in range(3)] + [(3, 1), (2, 28), (12, 31)]
        for (M, D) in starts:
            days = min(365 - doy0(M, D), rng.randint(1, 3))
            cfg = (M, D, days, rng.choice(picks))
            nrow, res, err = drive(cfg, epw=path, rows=rows, leap=leap)
            base = 'drv dt=%d M=%d D=%d days=%d file=%d' % (cfg[3], M, D, days, len(rows) - 8)
            vruns += 1
            vbr[name.split('-')[0]] = vbr.get(name.split('-')[0], 0) + 1
            if err:
                vcases.append((base, err))
                vbad.append((cfg, name, ('generate/simulate raised on a legal rural file', err, 'a complete run')))
                continue
            h, rh = digests(res)
            vcases.append((base, 'ok steps=%d digest=%d nrec=%d rdigest=%d' % (
                len(res.steps), h, len(res.records), rh)))
            msg = res.window_msg or oracle_driver(cfg, res)
            if msg:
                vbad.append((cfg, name, msg))
    chk.correspond(
        'simulate(driver-only)~driver on rural-file variants', 'C02', vcases,
        rule='as tie 1, on copies of the Singapore file in which cells the window must not depend on are varied: '
             'leap-year flag Yes on an 8760-row file, an actual-year header (flag, DST period, holidays, Friday start, '
             'soil properties), random members of the groups week-day / DST period (m/d, wrapping, '
             'day-of-year, textual) / holidays / filled soil-property cells / comments-design-location text, and '
             '8784-row leap files with and without the flag; per file one start from March on and one anywhere; '
             'the model is the SAME driver (it has no header input; file= gives the number of data rows)',
        classify=lambda line, impl: impl.split(' ')[0] + ' file=' + line.split('file=')[1])
    for cfg, name, msg in vbad[:3]:
        chk.violation('impl-violation', 'C02 window/row oracle on a rural-file variant (generate + driver-only simulate)',
                      case={'month': cfg[0], 'day': cfg[1], 'nday': cfg[2], 'dtsim': cfg[3],
                            'epw': simdriver.EPWS[0], 'epw_variant': name},
                      observed={'what': msg[0], 'value': msg[1]}, expected=msg[2],
                      how='s1_util.apply_variant(load_epw(Singapore), epw_variant) -> rural file; '
                          'simdriver.build_model(month, day, nday, dtsim, epw=file); c02.window_oracle')
    chk.direct('window+row-oracle(rural-file variants)', vruns, vruns,
               'after generate() on each variant file: simTime.timeInitial/timeFinal are the rows whose own stamp is '
               'start .. start + 24*nday - 1 hours (located through the stamps) and the forcing lists hold exactly '
               'those rows\' values; then the row oracle of tie 1 on the driver-only run. 8784-row files: only that '
               'the lists hold the contiguous rows from timeInitial on (365-day clock, no stamp demanded)',
               mismatches=len(vbad), branches=vbr)

    # ---- tie 2: un-stubbed runs + write_epw ------------------------------------------------------
    reals = [(rng.choice(dates()[:364]), 1, 300, simdriver.EPWS[0])]
    reals.append(((2, 28), 2, 150, simdriver.EPWS[0]))
    if thorough:
        for name in simdriver.EPWS[1:]:
            reals.append((rng.choice(dates()[:360]), rng.randint(1, 3), rng.choice([300, 200, 100]), name))
        reals.append(((12, 30), 2, 300, simdriver.EPWS[1]))
    reals = [r + ({},) for r in reals]
    # families never varied by the shipped examples (each fine alone; the written wind must stay the rural wind
    # raised to the minimum whatever the combination):
    late = [d for d in dates() if d[0] >= 3 and d != (12, 31)]
    for rep in range(1 if not thorough else 3):
        hv = rng.choice(['leapflag-Yes', 'actual-year-header', 'leapflag-Yes+weekday-Monday'])
        reals.append((rng.choice(late), 1, 300, simdriver.EPWS[0], dict(variant=hv, second=False)))
        reals.append((rng.choice(dates()[:364]), 1, 300, simdriver.EPWS[0],
                      dict(precision=rng.choice([2, 3, 4]), windmin=rng.choice([0.25, 0.75, 1.25, 2.05]),
                           second=False)))
        reals.append((rng.choice(dates()[:364]), 1, 300, simdriver.EPWS[0],
                      dict(precision=rng.choice([2, 3, 16]), windmin=rng.choice([None, 0.85, 1.25]), wind2=True,
                           variant=rng.choice(S.GROUPS['weekday'] + S.GROUPS['dst']), second=False)))
        reals.append((rng.choice([(3, 1), (2, 28)] + late[:200:7]), 2 if rep == 1 else 1, 300, simdriver.EPWS[0],
                      dict(variant=rng.choice(['leap8784', 'leap8784+holidays-listed']),
                           precision=rng.choice([1, 3]), second=False)))
    # rows at / beyond the EPW limits in an UN-stubbed run (every third cell of the modelled columns: RH 100..110
    # and fractional, calm and 10 / 20 / 30 m/s winds, pressure with a thousands separator or an exponent, ...)
    for rep in range(1 if not thorough else 4):
        reals.append((rng.choice(dates()[:364]), 1, 300, simdriver.EPWS[0],
                      dict(boundary=rng.randint(0, 23), precision=rng.choice([1, 1, 2, 3]),
                           windmin=rng.choice([None, 0.5, 0.05]), second=False)))
    wcases, wbad = [], []
    for ((M, D), days, dt, name, opts) in reals:
        cs, msg, stamps_ok, nrows = real_run(chk, M, D, days, dt, name, **opts)
        wcases += cs
        if not stamps_ok or nrows != (8784 if 'leap8784' in (opts.get('variant') or '') else 8760):
            chk.notes.append('input assumption violated by %s %s: rows=%d stamps_ok=%s' % (
                name, opts, nrows, stamps_ok))
        if msg:
            wbad.append(((M, D, days, dt, name, opts), msg))
    chk.correspond('write_epw(row,stamp)~writeRow/stamp', 'C02', wcases,
                   rule='full generate+simulate+write_epw on a shipped file whose wind column is replaced '
                        'by a row-identifying pattern; the data row actually assigned for each record '
                        '(observed through logging row objects), its month/day/hour cells in the written '
                        'file, SimParam.timeInitial/timeFinal and the number of rural rows read by Weather vs '
                        'Lean writeRow, stamp, timeInitial, timeFinal, timeFinal+1-timeInitial')
    for cfg, msg in wbad[:3]:
        chk.violation('impl-violation', 'C02 oracle on generate+simulate+write_epw',
                      case={'month': cfg[0], 'day': cfg[1], 'nday': cfg[2], 'dtsim': cfg[3],
                            'epw': cfg[4] + ' with wind column w_k=((7k) mod 120)/10', 'options': cfg[5]},
                      observed={'what': msg[0], 'value': msg[1]}, expected=msg[2])
    chk.direct('row-oracle(real run + write_epw)', len(reals), len(reals),
               'WeatherData[n] equals rural row n of the window parsed independently from the file '
               '(temp, rHum, pres, infra, dir, dif, uDir; wind = max(wind, windMin)); the row rewritten '
               'for record n is the data row stamped start + n hours (= row 24*j0+n), its wind cell is '
               '"{:.<epw_precision>f}" of that maximum (and within half a unit of the last decimal of it); all other '
               'rows and the unmodelled cells are unchanged. Besides the shipped setting (precision 1, minimum wind '
               '1, one-decimal rural wind, shipped header) explored: header variants with the leap flag / actual-'
               'year header and a start from March on; epw_precision 2,3,4,16 x minimum wind 0.25/0.75/0.85/1.25/'
               '2.05; rural wind with two decimals; 8784-row leap files (only: rows read = rows written, contiguous, '
               'everything else unchanged); rows whose modelled cells sit at / beyond the EPW limits (RH 100..110 and '
               '95.38, wind 0 / 0.04 / 10.0 / 20.0, pressure "100,900" / "1.009E5", direction 0 / 360): the '
               'record - including its humidity, bit-identical to hum_from_rhum_temp(row RH, row T, row P) - must '
               'still be the row',
               mismatches=len(wbad), branches={'runs': len(reals)})
    boundary_runs(chk, thorough)
    circumstance_runs(chk, thorough)
    window_length_family(chk, thorough)
    linebreak_family(chk, thorough)
    wind_alias_runs(chk, thorough)
    # the doubles named in theorem asis_float_rowidx_wrong are the ones CPython computes
    import math
    ph = 48 / 3600.
    fr1, fr2 = math.frexp(ph), math.frexp(525 * ph)
    wit = (int(fr1[0] * 2 ** 53), 53 - fr1[1], int(fr2[0] * 2 ** 53), 53 - fr2[1],
           int(math.ceil(525 * ph)) - 1)
    chk.direct('float-witness(T6)', 1, 1,
               'CPython doubles: 48/3600. and 525*(48/3600.) have the significands/exponents stated in '
               'theorem asis_float_rowidx_wrong and the old formula yields row 7',
               mismatches=0 if wit == (7686143364045647, 59, 7881299347898369, 50, 7) else 1)
    if wit != (7686143364045647, 59, 7881299347898369, 50, 7):
        chk.notes.append('T6 witness differs on this platform: %r' % (wit,))
    # the source of every record: Weather.__init__ + str2fl on the window rows, exact tie to the Lean model
    weather.run_weather(chk)
    chk.assumptions.append('the rural file has 8760 hourly rows stamped in the EPW hour-ending convention '
                           '(checked for every file used in the run)')
    chk.assumptions.append('the physics called inside the loop does not touch the clock, the record counter '
                           'or forcIP (driver-only runs replace it; the un-stubbed runs check the records)')


def replay(chk, path):
    """Re-evaluate the C02 oracle on the case stored in a replay file."""
    import json
    v = json.load(open(path))
    c = v.get('case') or {}
    if 'dtsim' not in c:
        print('replay file has no concrete case (proof or correspondence problem): %s' %
              v.get('theorem_or_tie'))
        return 2
    cfg = (c['month'], c['day'], c['nday'], c['dtsim'])
    if 'circumstance' in c or 'physics' in c:
        circumstance_runs(chk, chk.tier == 'thorough')     # the round-4 families are re-explored (same seed)
        msg = None
        if chk.violations:
            w = chk.violations[0]
            msg = (w['observed']['what'], w['observed']['value'], w['expected'])
    elif 'shift' in c:
        _, msg = boundary_run(chk, 0, cfg[0], cfg[1], cfg[2], cfg[3], c['epw_precision'], c['windmin'], c['shift'])
    elif 'write_epw' in (v.get('theorem_or_tie') or ''):
        name = c['epw'].split(' ')[0]
        _, msg, _, _ = real_run(chk, cfg[0], cfg[1], cfg[2], cfg[3], name, **(c.get('options') or {}))
    elif c.get('epw_variant'):
        import s1_util as S
        rows = S.apply_variant(S.load_epw(simdriver.epw_path()), c['epw_variant'])
        path = S.save_epw(rows, os.path.join(chk.work(), 'replay.epw'))
        _, res, err = drive(cfg, epw=path, rows=rows, leap='leap8784' in c['epw_variant'])
        msg = ('generate raised', err, 'a model') if res is None else (res.window_msg or oracle_driver(cfg, res))
    else:
        rows, res, err = drive(cfg)
        msg = oracle_driver(cfg, res) if res is not None else ('generate raised', err, 'a model')
    if msg:
        print('VIOLATION property=C02 replay=%s reproduced: %s (observed %s, expected %s)' % (
            path, msg[0], msg[1], msg[2]))
        return 1
    print('C02 replay: the stored case no longer violates the property')
    return 0
