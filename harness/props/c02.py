"""C02 - each simulated hour is driven by and written to its own rural row."""
import contextlib
import csv
import datetime
import io
import os

import core
import simdriver
from simdriver import FORC_FIELDS

MODULE = 'UwgVerif.Props.C02'
THEOREMS = ['Uwg.C02.driver_trace', 'Uwg.C02.window_rows_file', 'Uwg.C02.clockAt_eq', 'Uwg.C02.lookups_true_calendar',
            'Uwg.C02.rowIdx_spec', 'Uwg.C02.records_eq', 'Uwg.C02.record_row',
            'Uwg.C02.records_complete', 'Uwg.C02.window_rows', 'Uwg.C02.written_row_stamp',
            'Uwg.C02.wind_recorded', 'Uwg.C02.asis_float_rowidx_wrong']

MDAYS = [31, 28, 31, 30, 31, 30, 31, 31, 30, 31, 30, 31]
DIVISORS = [d for d in range(1, 3601) if 3600 % d == 0]
P = 2147483647
BASE = datetime.datetime(2023, 1, 1)


def dates():
    return [(m + 1, d + 1) for m in range(12) for d in range(MDAYS[m])]


def doy0(M, D):
    return sum(MDAYS[:M - 1]) + D - 1


def classify_exc(name, msg):
    if name == 'ZeroDivisionError':
        return 'err zerodiv'
    if 'TIMESTEP ERROR' in (msg or ''):
        return 'err timestep'
    if name == 'IndexError':
        return 'err index'
    if name == 'AssertionError':
        return 'err assert'
    return 'err fatal'


def digests(res):
    """Trace digest / record digest of a driver-only run, same folding as Drv/C02.lean."""
    recset = dict((it, n) for (n, it) in res.records)
    h = 0
    rowat = {}
    for s in res.steps:
        (it, row, sec, hour, mon, day, jul, dtyp, n, tsm) = s[:10]
        rec = 1 if it in recset else 0
        for x in (it, row, sec, hour, mon, day, jul, dtyp, n, rec, tsm):
            h = (h * 1000003 + x) % P
        if rec:
            rowat[it] = row
    rh = 0
    for (n, it) in res.records:
        for x in (n, it, rowat.get(it, -1)):
            rh = (rh * 1000003 + x) % P
    return h, rh


def full_text(res):
    recset = set(it for (_, it) in res.records)
    rowat = dict((s[0], s[1]) for s in res.steps)
    steps = ';'.join(','.join(str(x) for x in (s[:9] + (1 if s[0] in recset else 0, s[9])))
                     for s in res.steps)
    recs = ';'.join('%d,%d,%d' % (n, it, rowat.get(it, -1)) for (n, it) in res.records)
    return 'ok %s rec=%s' % (steps, recs)


def oracle_driver(cfg, res):
    """The property evaluated directly on a driver-only run of the real simulate.
    Returns None or (message, observed, expected)."""
    M, D, days, dt = cfg
    N = 24 * days
    if res.error:
        return ('simulate raised %s' % res.error, res.error_msg, 'no exception inside the window')
    if not res.forc_ok:
        it, row, got, exp = res.forc_bad
        return ('forcing in force at step it=%d is not rural row ceil_time_step=%d' % (it, row),
                list(got), list(exp) if exp else None)
    for s in res.steps:
        it, row = s[0], s[1]
        hour = (it * dt - 1) // 3600          # index of the window hour containing ((it-1)dt, it*dt]
        if row != hour:
            return ('step it=%d (seconds %d..%d of the window) is forced by row %d, not by the row of '
                    'its own hour' % (it, (it - 1) * dt, it * dt, row), row, hour)
        if (s[10], s[11]) != (s[7] - 1, s[3]) or (s[12], s[13]) not in ((s[7] - 1, s[3]), (-1, -1)):
            return ('schedule look-up indices differ from (dayType-1, hourDay) at it=%d' % it,
                    list(s[10:14]), [s[7] - 1, s[3]])
    if len(res.stored) != N:
        return ('WeatherData has %d slots' % len(res.stored), len(res.stored), N)
    for n in range(N):
        if res.stored[n] is None:
            return ('record %d was never taken' % n, None, 'forcing of rural row %d' % n)
        if res.stored[n] != res.expect[n]:
            return ('record %d does not hold the forcing of rural row %d' % (n, n),
                    dict(zip(FORC_FIELDS, res.stored[n])), dict(zip(FORC_FIELDS, res.expect[n])))
    want = [(n, 3600 * (n + 1) // dt) for n in range(N)]
    if res.records != want:
        bad = next((a, b) for a, b in zip(res.records + [None], want + [None]) if a != b)
        return ('record events differ from one per hour at it*dt = 3600(n+1)', bad[0], bad[1])
    return None


def gen_configs(rng, thorough):
    cfgs = []
    for dt in DIVISORS:
        reps = (1 if dt < 60 else 2) if not thorough else (1 if dt < 20 else 3)
        for r in range(reps):
            M, D = rng.choice(dates())
            room = 365 - doy0(M, D)
            if dt < 20:
                days = 1 if not thorough else min(room, rng.randint(1, 3))
            else:
                days = min(room, rng.randint(1, 5) if not thorough else rng.randint(1, 12))
            cfgs.append((M, D, days, dt))
    # windows touching the end of the year, month ends, first day
    cfgs += [(12, 31, 1, 1800), (12, 28, 4, 400), (12, 31, 1, 16), (1, 1, 2, 48), (2, 28, 2, 24),
             (1, 1, 1, 3600), (6, 30, 2, 12), (4, 30, 2, 6), (1, 1, 1, 3)]
    if thorough:
        for dt in [d for d in DIVISORS if d >= 60]:
            cfgs.append((1, 1, 365, dt))
        for dt in [d for d in DIVISORS if 10 <= d < 60]:
            M, D = rng.choice(dates())
            cfgs.append((M, D, min(365 - doy0(M, D), 10), dt))
    return cfgs


MALFORMED = [(12, 31, 2, 300), (12, 30, 5, 900), (1, 1, 1, 7), (3, 5, 2, 480), (1, 1, 1, 0),
             (5, 5, 1, 7200), (2, 30, 2, 600), (7, 1, 1, 96)]


def drive(cfg):
    """Build the real model and run the real simulate driver-only. Returns (rows, res or None, err)."""
    M, D, days, dt = cfg
    try:
        with contextlib.redirect_stdout(io.StringIO()):
            model = simdriver.build_model(M, D, days, dt)
    except Exception as e:  # noqa: BLE001
        return 24 * days, None, classify_exc(type(e).__name__, str(e))
    res = simdriver.driver_only_run(model)
    if res.error:
        return res.rows, res, classify_exc(res.error, res.error_msg)
    return res.rows, res, None


# ----------------------------------------------------------------------------------------------
# un-stubbed run + write_epw

class LogRow(list):
    """A data row of epwinput that logs which of its cells write_epw assigns."""
    log = None
    idx = None

    def __setitem__(self, k, v):
        self.log.append((self.idx, k))
        list.__setitem__(self, k, v)


def make_rural(src, dst):
    """Copy of a shipped EPW whose wind column holds a value pattern that differs between neighbouring
    rows and between rows 24 apart: w_k = ((7k) mod 120) / 10 (some below windMin = 1)."""
    with open(src, newline='') as f:
        lines = f.read().split('\n')
    out = []
    k = 0
    for i, ln in enumerate(lines):
        if i >= 8 and ln.strip():
            cells = ln.split(',')
            cells[21] = '%.1f' % (((7 * k) % 120) / 10.0)
            ln = ','.join(cells)
            k += 1
        out.append(ln)
    with open(dst, 'w', newline='') as f:
        f.write('\n'.join(out))
    return k


def real_run(chk, M, D, days, dt, epw_name):
    """Full simulation + write_epw on a rural file with a patterned wind column.
    Returns (cases for the `wrow` tie, oracle message or None)."""
    work = chk.work()
    rural = os.path.join(work, 'rural_%s' % epw_name)
    nrows = make_rural(simdriver.epw_path(epw_name), rural)
    model = None
    try:
        with contextlib.redirect_stdout(io.StringIO()):
            model = simdriver.build_model(M, D, days, dt, epw=rural, new_epw_dir=work,
                                          new_epw_name='out_%d_%d_%d.epw' % (M, D, dt))
            model.simulate()
            log = []
            rows = []
            for i, r in enumerate(model.epwinput):
                lr = LogRow(r)
                lr.log, lr.idx = log, i
                rows.append(lr)
            model.epwinput = rows
            model.write_epw()
    except Exception as e:  # noqa: BLE001 - inside the window nothing may raise
        where = 'generate' if model is None else 'simulate/write_epw'
        return [], ('%s raised %s' % (where, type(e).__name__), str(e)[:300],
                    'a complete run: every hour of the window recorded and written'), True, 8760
    with open(rural, newline='') as f:
        orig = list(csv.reader(f))[8:]
    with open(model.new_epw_path, newline='') as f:
        new = list(csv.reader(f))[8:]
    orig = [r for r in orig if r]
    new = [r for r in new if r]
    N = 24 * days
    j0 = doy0(M, D)
    wmin = model.geoParam.windMin
    # rows written, in order of iJ (four cells each)
    written = []
    for (idx, col) in log:
        if not written or written[-1] != idx:
            written.append(idx)
    cases = []
    msg = None
    for n in range(min(N, len(written))):
        idx = written[n]
        row = new[idx]
        cases.append(('wrow M=%d D=%d days=%d n=%d' % (M, D, days, n),
                      'ok row=%d stamp=%d,%d,%d HI=%d HF=%d win=%d' % (
                          idx, int(row[1]), int(row[2]), int(row[3]),
                          model.simTime.timeInitial, model.simTime.timeFinal,
                          len(model.forcIP.temp))))
    if len(written) != N:
        msg = ('write_epw rewrote %d rows, expected %d' % (len(written), N), len(written), N)
    stamps_ok = all((int(r[1]), int(r[2]), int(r[3])) == stamp_dt(k) for k, r in enumerate(orig))
    for n in range(N):
        if msg:
            break
        k = 24 * j0 + n                                   # rural row n of the window
        src = orig[k]
        wd = model.WeatherData[n]
        exp_wind = max(float(src[21]), wmin)
        exp = {'temp': float(src[6]) + 273.15, 'rHum': float(src[8]), 'pres': float(src[9]),
               'infra': float(src[12]), 'dir': float(src[14]), 'dif': float(src[15]),
               'uDir': float(src[20]), 'wind': exp_wind}
        got = {f: getattr(wd, f) for f in exp}
        if got != exp:
            msg = ('hourly forcing record %d differs from rural row %d of the window' % (n, n),
                   got, exp)
        elif written[n] != k:
            msg = ('record %d written to data row %d, its rural row is %d' % (n, written[n], k),
                   written[n], k)
        elif new[k][21] != '{:.1f}'.format(exp_wind):
            msg = ('wind written to row %d' % k, new[k][21], '{:.1f}'.format(exp_wind))
        elif stamps_ok and (int(new[k][1]), int(new[k][2]), int(new[k][3])) != stamp_dt(24 * j0 + n):
            msg = ('stamp of the row written for record %d' % n, new[k][1:4],
                   list(stamp_dt(24 * j0 + n)))
    if not msg:
        for k in range(len(orig)):
            inside = 24 * j0 <= k < 24 * j0 + N
            if not inside and new[k][:22] != orig[k][:22]:
                msg = ('row %d outside the window was modified' % k, new[k][:22], orig[k][:22])
                break
            if inside and (new[k][:6] != orig[k][:6] or new[k][9:21] != orig[k][9:21]):
                msg = ('unmodelled cells of row %d changed' % k, new[k][:22], orig[k][:22])
                break
    if not msg:
        # the same object generated and simulated AGAIN (after write_epw, same rural file, same
        # window): hour n must still be forced by rural row n of the file, not by anything the
        # first run wrote
        try:
            with contextlib.redirect_stdout(io.StringIO()):
                # (a new, un-instrumented object: the logging rows above would hide in-place writes)
                model = simdriver.build_model(M, D, days, dt, epw=rural, new_epw_dir=work,
                                              new_epw_name='out2_%d_%d_%d.epw' % (M, D, dt))
                model.simulate()
                model.write_epw()
                model.generate()
                model.simulate()
            for n in range(N):
                src = orig[24 * j0 + n]
                wd = model.WeatherData[n]
                exp = {'temp': float(src[6]) + 273.15, 'rHum': float(src[8]), 'pres': float(src[9]),
                       'wind': max(float(src[21]), wmin)}
                got = {f: getattr(wd, f) for f in exp}
                if got != exp:
                    msg = ('second generate+simulate on the same object (after write_epw): hourly forcing '
                           'record %d differs from rural row %d of the file' % (n, n), got, exp)
                    break
        except Exception as e:  # noqa: BLE001
            msg = ('second generate+simulate on the same object raised %s' % type(e).__name__, str(e)[:200],
                   'a complete second run')
    return cases, msg, stamps_ok, nrows


def stamp_dt(k):
    """EPW hour-ending stamp of data row k from datetime: the row describes the hour beginning k hours
    after 1 Jan 00:00; month/day of that instant, hour number 1..24."""
    t = BASE + datetime.timedelta(hours=k)
    return (t.month, t.day, t.hour + 1)


def run(chk):
    chk.proof(MODULE, THEOREMS)
    thorough = chk.tier == 'thorough'
    if thorough:
        chk.leanchecker([MODULE])
    rng = chk.rng

    # ---- tie 1: driver-only execution of the real simulate vs the Lean driver --------------------
    cfgs = gen_configs(rng, thorough)
    cases, n_steps, bad, n_runs = [], 0, [], 0
    branches = {}
    for cfg in cfgs + MALFORMED:
        M, D, days, dt = cfg
        rows, res, err = drive(cfg)
        base = 'drv dt=%d M=%d D=%d days=%d file=8760' % (dt, M, D, days)
        if err:
            cases.append((base, err))
        else:
            h, rh = digests(res)
            cases.append((base, 'ok steps=%d digest=%d nrec=%d rdigest=%d' % (
                len(res.steps), h, len(res.records), rh)))
            if len(res.steps) <= 3000:
                cases.append((base + ' full=1', full_text(res)))
            n_steps += len(res.steps)
        if cfg in MALFORMED:
            continue
        n_runs += 1
        msg = oracle_driver(cfg, res) if res is not None else ('generate raised', err, 'a model')
        if msg:
            bad.append((cfg, msg))
    chk.correspond(
        'simulate(driver-only)~driver', 'C02', cases,
        rule='the REAL UWG.simulate with the physics stubbed from outside, for all 45 divisors of 3600 x '
             'random (start, days) inside the year + year-end/month-end windows + malformed (window '
             'beyond the file, refused timesteps, 30 February): per step (it, ceil_time_step, secDay, '
             'hourDay, month, day, julian, dayType, n, record taken, month used for Tsoil) and the record '
             '(the model derives the number of rural rows from the file length 8760 as Weather does) '
             'events (n, it, row) vs Lean drvStep/driver; digests over every step, full text for runs '
             '<= 3000 steps; non-trivial = run without exception',
        classify=lambda line, impl: impl.split(' ')[0] + (' ' + impl.split(' ')[1] if impl.startswith('err') else '') +
        (' full' if 'full=1' in line else ''))
    for cfg, msg in bad[:3]:
        chk.violation('impl-violation', 'C02 oracle on a driver-only run of UWG.simulate',
                      case={'month': cfg[0], 'day': cfg[1], 'nday': cfg[2], 'dtsim': cfg[3],
                            'epw': simdriver.EPWS[0]},
                      observed={'what': msg[0], 'value': msg[1]}, expected=msg[2],
                      how='harness/simdriver.py: build_model(month, day, nday, dtsim); '
                          'driver_only_run(model)')
    chk.direct('row-oracle(simulate driver-only)', n_runs, n_runs,
               'on every valid run: every step is forced by the rural row of the window hour containing '
               'it; record n holds the (encoded) values of rural row n with wind = max(wind, windMin); '
               'exactly one record per hour, taken at it*dt = 3600(n+1); no exception',
               mismatches=len(bad), branches={'steps observed': n_steps})

    # ---- tie 2: un-stubbed runs + write_epw ------------------------------------------------------
    reals = [(rng.choice(dates()[:364]), 1, 300, simdriver.EPWS[0])]
    reals.append(((2, 28), 2, 150, simdriver.EPWS[0]))
    if thorough:
        for name in simdriver.EPWS[1:]:
            reals.append((rng.choice(dates()[:360]), rng.randint(1, 3), rng.choice([300, 200, 100]), name))
        reals.append(((12, 30), 2, 300, simdriver.EPWS[1]))
    wcases, wbad = [], []
    for ((M, D), days, dt, name) in reals:
        cs, msg, stamps_ok, nrows = real_run(chk, M, D, days, dt, name)
        wcases += cs
        if not stamps_ok or nrows != 8760:
            chk.notes.append('input assumption violated by %s: rows=%d stamps_ok=%s' % (
                name, nrows, stamps_ok))
        if msg:
            wbad.append(((M, D, days, dt, name), msg))
    chk.correspond('write_epw(row,stamp)~writeRow/stamp', 'C02', wcases,
                   rule='full generate+simulate+write_epw on a shipped file whose wind column is replaced '
                        'by a row-identifying pattern; the data row actually assigned for each record '
                        '(observed through logging row objects), its month/day/hour cells in the written '
                        'file, SimParam.timeInitial/timeFinal and the number of rural rows read by Weather vs '
                        'Lean writeRow, stamp, timeInitial, timeFinal, timeFinal+1-timeInitial')
    for cfg, msg in wbad[:3]:
        chk.violation('impl-violation', 'C02 oracle on generate+simulate+write_epw',
                      case={'month': cfg[0], 'day': cfg[1], 'nday': cfg[2], 'dtsim': cfg[3],
                            'epw': cfg[4] + ' with wind column w_k=((7k) mod 120)/10'},
                      observed={'what': msg[0], 'value': msg[1]}, expected=msg[2])
    chk.direct('row-oracle(real run + write_epw)', len(reals), len(reals),
               'WeatherData[n] equals rural row n of the window parsed independently from the file '
               '(temp, rHum, pres, infra, dir, dif, uDir; wind = max(wind, windMin)); the row rewritten '
               'for record n is data row 24*j0+n, its wind cell is "{:.1f}" of that maximum, its stamp is '
               'start + n hours (hour-ending); all other rows and the unmodelled cells are unchanged',
               mismatches=len(wbad))
    # the doubles named in theorem asis_float_rowidx_wrong are the ones CPython computes
    import math
    ph = 48 / 3600.
    fr1, fr2 = math.frexp(ph), math.frexp(525 * ph)
    wit = (int(fr1[0] * 2 ** 53), 53 - fr1[1], int(fr2[0] * 2 ** 53), 53 - fr2[1],
           int(math.ceil(525 * ph)) - 1)
    chk.direct('float-witness(T6)', 1, 1,
               'CPython doubles: 48/3600. and 525*(48/3600.) have the significands/exponents stated in '
               'theorem asis_float_rowidx_wrong and the old formula yields row 7',
               mismatches=0 if wit == (7686143364045647, 59, 7881299347898369, 50, 7) else 1)
    if wit != (7686143364045647, 59, 7881299347898369, 50, 7):
        chk.notes.append('T6 witness differs on this platform: %r' % (wit,))
    chk.assumptions.append('the rural file has 8760 hourly rows stamped in the EPW hour-ending convention '
                           '(checked for every file used in the run)')
    chk.assumptions.append('the physics called inside the loop does not touch the clock, the record counter '
                           'or forcIP (driver-only runs replace it; the un-stubbed runs check the records)')


def replay(chk, path):
    """Re-evaluate the C02 oracle on the case stored in a replay file."""
    import json
    v = json.load(open(path))
    c = v.get('case') or {}
    if 'dtsim' not in c:
        print('replay file has no concrete case (proof or correspondence problem): %s' %
              v.get('theorem_or_tie'))
        return 2
    cfg = (c['month'], c['day'], c['nday'], c['dtsim'])
    if 'write_epw' in (v.get('theorem_or_tie') or ''):
        name = c['epw'].split(' ')[0]
        _, msg, _, _ = real_run(chk, cfg[0], cfg[1], cfg[2], cfg[3], name)
    else:
        rows, res, err = drive(cfg)
        msg = oracle_driver(cfg, res) if res is not None else ('generate raised', err, 'a model')
    if msg:
        print('VIOLATION property=C02 replay=%s reproduced: %s (observed %s, expected %s)' % (
            path, msg[0], msg[1], msg[2]))
        return 1
    print('C02 replay: the stored case no longer violates the property')
    return 0
