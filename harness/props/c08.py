"""C08 - optional building overrides take effect at every accepted value.

Shares model, driver, ties and oracles with C07 (harness/props/c07.py); the generator here adds
every one of the 2^6 override subsets (several draws each, boundary values 0 and 1 favoured) on
synthetic libraries and on the shipped library, and the verdict is the C08 oracle: every set
override carried by every simulated building, unset ones equal to the reference value, the three
stock averages and the floor areas equal to their formulae with the overridden values.
"""
from props import c07

MODULE = 'UwgVerif.Props.C08'
THEOREMS = [
    'Uwg.C08.entries_closed_form', 'Uwg.C08.override_applied', 'Uwg.C08.override_unset',
    'Uwg.C08.totals_formula', 'Uwg.C08.totals_all_overridden', 'Uwg.C08.override_independent',
    'Uwg.C08.override_applied_generate', 'Uwg.C08.flrh_zero_refused', 'Uwg.C08.setters_accept',
    'Uwg.C08.asis_override_zero_ignored',
]


def run(chk):
    c07.run(chk, focus='C08', module=MODULE, theorems=THEOREMS)


def replay(chk, path):
    return c07.replay(chk, path, focus='C08')
