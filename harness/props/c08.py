"""C08 - optional building overrides take effect at every accepted value.

Shares model, driver, ties and oracles with C07 (harness/props/c07.py); the generator here adds
every one of the 2^6 override subsets (several draws each, boundary values 0 and 1 favoured) on
synthetic libraries and on the shipped library, and the verdict is the C08 oracle: every set
override carried by every simulated building, unset ones equal to the reference value, the three
stock averages and the floor areas equal to their formulae with the overridden values.
"""
import os

import core
import s3_util as S3
import uwgutil as U
from props import c07

MODULE = 'UwgVerif.Props.C08'
THEOREMS = [
    'Uwg.C08.entries_closed_form', 'Uwg.C08.override_applied', 'Uwg.C08.override_unset',
    'Uwg.C08.totals_formula', 'Uwg.C08.totals_all_overridden', 'Uwg.C08.override_independent',
    'Uwg.C08.override_applied_generate', 'Uwg.C08.flrh_zero_refused', 'Uwg.C08.setters_accept',
    'Uwg.C08.asis_override_zero_ignored',
]


OV = ('glzr', 'shgc', 'albwall', 'albroof', 'vegroof', 'flr_h')
ZONES = ('1A', '1B', '2A', '3B-CA', '3C', '4A', '4C', '5A', '5C', '6A', '6B', '7', '8')
STOCKS = [[('largeoffice', 'pst80', 0.4), ('midriseapartment', 'pst80', 0.6)],
          [('hospital', 'new', 0.25), ('smalloffice', 'pre80', 0.25), ('warehouse', 'Pst80', 0.5)],
          [('supermarket', 'NEW', 1.0)],
          [('primaryschool', 'pre80', 0.125), ('largehotel', 'new', 0.875)],
          [('stripmall', 'pst80', 0.5), ('stripmall', 'new', 0.5)]]
ACCEPT = {'01': [0.0, 1.0, 0.5, 0.25, 0.375, 0.91, 0.05, 1, 0], 'flr_h': [3.05, 2.5, 4.5, 6, 0.5]}
REFUSE = {'01': [-0.2, -1e-9, 1.0000001, 1.4, 1.5, 7.0, float('nan')], 'flr_h': [0, 0.0, -3.05, float('nan')]}


def building_values(b):
    return {'glzr': b.building.glazing_ratio, 'shgc': b.building.shgc, 'albwall': b.wall.albedo,
            'albroof': b.roof.albedo, 'vegroof': b.roof.vegcoverage, 'flr_h': b.building.floor_height}


def oracle_generated(m, want, pristine):
    """C08 on a generated model: `want` maps each override to the accepted value in force (None = unset)."""
    uwg = U.uwg_mod()
    import uwg.uwg as UM
    bz = '1A' if m.zone == '1B' else '5B' if m.zone == '5C' else m.zone
    zi = UM.REF_ZONETYPE.index(bz)
    for k in OV:
        got = getattr(m, k)
        if (got is None) != (want[k] is None) or (got is not None and not got == want[k]):
            return 'model.%s reads %r, the accepted value in force is %r' % (k, got, want[k])
    if not m.BEM:
        return 'no building simulated'
    stock = {}
    for t, e, f in m.bld:
        stock[(t, e.lower())] = stock.get((t, e.lower()), 0.) + f
    sim = {(b.bldtype, b.builtera): b.frac for b in m.BEM}
    if sim != stock:
        return 'simulated buildings %r are not the current stock %r' % (sorted(sim.items()), sorted(stock.items()))
    rg = sh = aw = 0.
    for b in m.BEM:
        ref = pristine[UM.REF_BLDTYPE.index(b.bldtype)][UM.REF_BUILTERA.index(b.builtera)][zi]
        have, refv = building_values(b), building_values(ref)
        for k in OV:
            if want[k] is not None and not have[k] == want[k]:
                return 'building %s/%s carries %s = %r although the override in force is %r' % (
                    b.bldtype, b.builtera, k, have[k], want[k])
            if want[k] is None and not have[k] == refv[k]:
                return 'override %s is unset but building %s/%s carries %r, its reference value is %r' % (
                    k, b.bldtype, b.builtera, have[k], refv[k])
        rg += b.frac * have['glzr']
        sh += b.frac * have['shgc']
        aw += b.frac * have['albwall']
    for name, acc in (('r_glaze_total', rg), ('SHGC_total', sh), ('alb_wall_total', aw)):
        if getattr(m, name) != acc:
            return '%s is %r, the fraction-weighted sum over the simulated buildings is %r' % (
                name, getattr(m, name), acc)
    if hasattr(m, 'UCM'):
        if m.UCM.alb_wall != aw:
            return 'canyon model wall albedo %r, stock average %r' % (m.UCM.alb_wall, aw)
        fa = (1 - rg) * (1 - aw) + rg * (1 - 0.75 * sh)
        if m.UCM.facAbsor != fa:
            return 'canyon facade absorptivity %r, from the stock averages %r' % (m.UCM.facAbsor, fa)
    return None


def setter_histories(chk, uwg, pristine):
    """Sequences of accepted and REFUSED (caught) assignments to the six overrides on one long-lived object,
    each followed by generate(): the value in force is the last accepted one (or unset)."""
    rng = chk.rng
    rounds = 40 if chk.tier == 'quick' else 400
    m = U.new_model(outdir=chk.work(), outname='c08h.epw', nday=1, dtsim=300)
    want = {k: None for k in OV}
    log, bad, nops = [], 0, {'accept': 0, 'refuse': 0, 'unset': 0}
    for r in range(rounds):
        if r % 8 == 0:                        # new object from time to time: refusals on never-set overrides
            m = U.new_model(outdir=chk.work(), outname='c08h.epw', nday=1, dtsim=300)
            want = {k: None for k in OV}
            log = []
        if r % 3 == 2 and isinstance(m.bld, list):
            # the stock revised IN PLACE (item assignment on the list the model holds), not re-assigned
            i = rng.randrange(len(m.bld))
            m.bld[i] = (rng.choice(['hospital', 'medoffice', 'smallhotel', 'quickservicerestaurant']),
                        rng.choice(['pre80', 'new', 'Pst80']), m.bld[i][2])
            log.append(['stock edited in place', list(m.bld), m.zone])
        else:
            m.bld = [tuple(x) for x in rng.choice(STOCKS)]
            m.zone = rng.choice(ZONES)
            log.append(['stock', list(m.bld), m.zone])
        for k in rng.sample(OV, rng.randint(1, 6)):
            fam = 'flr_h' if k == 'flr_h' else '01'
            for _ in range(rng.randint(1, 3)):
                x = rng.random()
                if x < 0.45:
                    v = rng.choice(REFUSE[fam])
                    res = S3.try_assign(m, k, v)
                    log.append([k, repr(v), res])
                    nops['refuse'] += 1
                    if res == 'accepted':
                        want[k] = v            # (judged by the setter tie of C07/C08; keep the history honest)
                elif x < 0.85:
                    v = rng.choice(ACCEPT[fam])
                    setattr(m, k, v)
                    want[k] = v
                    log.append([k, repr(v), 'set'])
                    nops['accept'] += 1
                else:
                    setattr(m, k, None)
                    want[k] = None
                    log.append([k, 'None', 'set'])
                    nops['unset'] += 1
        try:
            with core.quiet():
                m.generate()
            msg = oracle_generated(m, want, pristine)
        except Exception as e:  # noqa: BLE001
            msg = 'generate() raised %s: %s' % (type(e).__name__, str(e)[:150])
        if msg:
            bad += 1
            if bad <= 3:
                chk.violation('impl-violation', 'overrides after refused assignments (setter history; generate)',
                              case={'operations_on_one_object': log[-25:], 'in_force': {k: repr(v) for k, v in want.items()}},
                              observed=msg,
                              expected='every building carries the last ACCEPTED value of each override (reference '
                                       'value when unset); a refused assignment changes nothing')
            m = U.new_model(outdir=chk.work(), outname='c08h.epw', nday=1, dtsim=300)
            want = {k: None for k in OV}
            log = []
    chk.direct('override-setter-histories(refused assignments; generate)', rounds, rounds,
               'one long-lived UWG object: per round a new stock / zone (every third round the stock list is edited in place '
               'instead) and 1..6 overrides each assigned 1..3 times '
               'with accepted values (0, 1, interior, ints), None, or values the setter must refuse (-0.2, -1e-9, '
               '1.0000001, 1.4, 1.5, 7, NaN; flr_h 0, -3.05, NaN) under try/except, then generate(): getters, every '
               'simulated building, the three stock averages, UCM.alb_wall and UCM.facAbsor must reflect the last '
               'accepted value (reference value when unset)', mismatches=bad, branches=nops)


def param_file_spellings(chk, uwg, pristine):
    """The parameter-file route with every spelling of a number that float() reads."""
    rng = chk.rng
    work = chk.work()
    src = U.rp(U.PARAM_SGP)
    ncase = 40 if chk.tier == 'quick' else 400
    file_key = {'glzr': 'glzR', 'shgc': 'SHGC', 'albwall': 'albWall', 'albroof': 'albRoof', 'vegroof': 'vegRoof',
                'flr_h': 'flr_h'}
    values = {'01': [0.0, 1.0, 0.5, 0.25, 0.375, 0.1, 0.91], 'flr_h': [3.05, 4.5, 0.5, 6.0]}
    bad, forms = 0, {}
    # every spelling of every value at least once over the run: walk the spelling lists round robin
    pool = {}
    for fam, vs in values.items():
        pool[fam] = [(v, s) for v in vs for s in S3.float_spellings(v)]
        rng.shuffle(pool[fam])
    ptr = {'01': 0, 'flr_h': 0}
    for n in range(ncase):
        sub = rng.sample(OV, rng.choice([1, 2, 3, 6, 6]))
        cells, want = {}, {k: None for k in OV}
        for k in OV:
            if k in sub:
                fam = 'flr_h' if k == 'flr_h' else '01'
                v, text = pool[fam][ptr[fam] % len(pool[fam])]
                ptr[fam] += 1
                cells[file_key[k]] = text
                want[k] = v
                shape = ('sign' if text.strip()[0] in '+-' else 'dot' if text.strip()[0] == '.' else
                         'exp' if 'e' in text.lower() else 'space' if text != text.strip() else
                         'int' if '.' not in text else 'plain')
                forms[shape] = forms.get(shape, 0) + 1
            else:
                cells[file_key[k]] = rng.choice(['', '', ' '])
        # geometry that enters the floor areas, spelled freely as well
        geo = {'bldHeight': rng.choice([10.0, 25.0, 7.5]), 'bldDensity': rng.choice([0.5, 0.25, 0.375]),
               'charLength': rng.choice([1000.0, 500.0])}
        for gk, gv in geo.items():
            cells[gk] = rng.choice(S3.float_spellings(gv))
        pth = S3.write_param_file(src, os.path.join(work, 'sp%d.uwg' % (n % 4)), cells)
        try:
            with core.quiet():
                m = uwg.UWG.from_param_file(pth, epw_path=U.rp(U.EPW_SGP), new_epw_dir=work, new_epw_name='sp.epw')
                m.nday = 1
                m.generate()
            msg = oracle_generated(m, want, pristine)
            if msg is None:
                for gk, gv in geo.items():
                    if getattr(m, gk.lower()) != gv:
                        msg = 'model.%s reads %r, the file says %r' % (gk.lower(), getattr(m, gk.lower()), cells[gk])
                h = 3.05 if want['flr_h'] is None else want['flr_h']
                area = (geo['charLength'] ** 2) * geo['bldDensity'] * geo['bldHeight'] / h
                for b in m.BEM:
                    if msg is None and b.fl_area != b.frac * area:
                        msg = 'floor area of %s is %r, expected frac*L^2*density*height/floor height = %r' % (
                            b.bldtype, b.fl_area, b.frac * area)
        except Exception as e:  # noqa: BLE001
            msg = '%s: %s' % (type(e).__name__, str(e)[:150])
        if msg:
            bad += 1
            if bad <= 3:
                chk.violation('impl-violation', 'overrides given in a parameter file (legal float spellings)',
                              case={'cells_as_written': cells, 'values': {k: repr(v) for k, v in want.items()}},
                              observed=msg,
                              expected='a cell that float() reads is the override value carried by every building; '
                                       'an empty cell leaves the reference values')
    chk.direct('parameter-file-route(float spellings)', ncase, ncase,
               'copies of resources/initialize_singapore.uwg with subsets of the six override cells (and bldHeight, '
               'bldDensity, charLength) written in every spelling float() accepts - 0.5 .5 +.5 +0.5 0.50 00.5 5e-1 '
               '5.E-1 .05e1 1 1. +1 1e0 .0 0. -0 0e5, padded with blanks - and the others blank: from_param_file; '
               'generate(); getters, every building, stock averages, canyon inputs and floor areas as above',
               mismatches=bad, branches=forms)


def run(chk):
    c07.run(chk, focus='C08', module=MODULE, theorems=THEOREMS)
    uwg = U.uwg_mod()
    pristine = uwg.UWG.load_refDOE()[0]
    setter_histories(chk, uwg, pristine)
    param_file_spellings(chk, uwg, pristine)


def replay(chk, path):
    return c07.replay(chk, path, focus='C08')
