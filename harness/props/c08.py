"""C08 - optional building overrides take effect at every accepted value.

Shares model, driver, ties and oracles with C07 (harness/props/c07.py); the generator here adds
every one of the 2^6 override subsets (several draws each, boundary values 0 and 1 favoured) on
synthetic libraries and on the shipped library, and the verdict is the C08 oracle: every set
override carried by every simulated building, unset ones equal to the reference value, the three
stock averages and the floor areas equal to their formulae with the overridden values.
Fifth round (custom_attribute_cities; family in harness/v2_util.py): the oracle on stocks holding CUSTOM archetypes whose
documented attributes have values no shipped archetype has (pitched roof, green facade, vegetated mass, water film, a BEMDef
arriving with a share), object and dictionary route.
Fourth round (circumstance_ties; helpers in harness/u2_util.py): the same oracle under the six circumstances of
harness/generic.py - observers, DEBUG logging, `python -O`, the command line (the model the command builds is captured
and judged), other models of the process, one dictionary used for several models.
"""
import os

import core
import s3_util as S3
import t2_util as T
import uwgutil as U
from props import c07

MODULE = 'UwgVerif.Props.C08'
THEOREMS = [
    'Uwg.C08.entries_closed_form', 'Uwg.C08.override_applied', 'Uwg.C08.override_unset',
    'Uwg.C08.totals_formula', 'Uwg.C08.totals_all_overridden', 'Uwg.C08.override_independent',
    'Uwg.C08.override_applied_generate', 'Uwg.C08.flrh_zero_refused', 'Uwg.C08.setters_accept',
    'Uwg.C08.asis_override_zero_ignored',
]


OV = ('glzr', 'shgc', 'albwall', 'albroof', 'vegroof', 'flr_h')
ZONES = ('1A', '1B', '2A', '3B-CA', '3C', '4A', '4C', '5A', '5C', '6A', '6B', '7', '8')
STOCKS = [[('largeoffice', 'pst80', 0.4), ('midriseapartment', 'pst80', 0.6)],
          [('hospital', 'new', 0.25), ('smalloffice', 'pre80', 0.25), ('warehouse', 'Pst80', 0.5)],
          [('supermarket', 'NEW', 1.0)],
          [('primaryschool', 'pre80', 0.125), ('largehotel', 'new', 0.875)],
          [('stripmall', 'pst80', 0.5), ('stripmall', 'new', 0.5)]]
_IN, _OUT = T.near_limit_floats()
# (accepted values incl. a hair inside the limits of [0, 1]; floor heights below, at and above the building heights
#  used - 10 m in the parameter file, 3 .. 6.5 m in the low districts)
ACCEPT = {'01': [0.0, 1.0, 0.5, 0.25, 0.375, 0.91, 0.05, 1, 0] + _IN, 'flr_h': [3.05, 2.5, 4.5, 6, 0.5, 6.5, 9.0, 12, 25.0, 1e-9]}
REFUSE = {'01': [-0.2, -1e-9, 1.0000001, 1.4, 1.5, 7.0, float('nan')] + _OUT,
          'flr_h': [0, 0.0, -3.05, float('nan'), -5e-324, -1e-12]}
LOW_HEIGHTS = [10.0, 6.5, 5.0, 4.0, 3.0]


def building_values(b):
    return {'glzr': b.building.glazing_ratio, 'shgc': b.building.shgc, 'albwall': b.wall.albedo,
            'albroof': b.roof.albedo, 'vegroof': b.roof.vegcoverage, 'flr_h': b.building.floor_height}


def oracle_generated(m, want, pristine):
    """C08 on a generated model: `want` maps each override to the accepted value in force (None = unset)."""
    uwg = U.uwg_mod()
    import uwg.uwg as UM
    bz = '1A' if m.zone == '1B' else '5B' if m.zone == '5C' else m.zone
    zi = UM.REF_ZONETYPE.index(bz)
    for k in OV:
        got = getattr(m, k)
        if (got is None) != (want[k] is None) or (got is not None and not got == want[k]):
            return 'model.%s reads %r, the accepted value in force is %r' % (k, got, want[k])
    if not m.BEM:
        return 'no building simulated'
    stock = {}
    for t, e, f in m.bld:
        stock[(t, e.lower())] = stock.get((t, e.lower()), 0.) + f
    sim = {(b.bldtype, b.builtera): b.frac for b in m.BEM}
    if sim != stock:
        return 'simulated buildings %r are not the current stock %r' % (sorted(sim.items()), sorted(stock.items()))
    rg = sh = aw = 0.
    for b in m.BEM:
        ref = pristine[UM.REF_BLDTYPE.index(b.bldtype)][UM.REF_BUILTERA.index(b.builtera)][zi]
        have, refv = building_values(b), building_values(ref)
        for k in OV:
            if want[k] is not None and not have[k] == want[k]:
                return 'building %s/%s carries %s = %r although the override in force is %r' % (
                    b.bldtype, b.builtera, k, have[k], want[k])
            if want[k] is None and not have[k] == refv[k]:
                return 'override %s is unset but building %s/%s carries %r, its reference value is %r' % (
                    k, b.bldtype, b.builtera, have[k], refv[k])
        rg += b.frac * have['glzr']
        sh += b.frac * have['shgc']
        aw += b.frac * have['albwall']
    for name, acc in (('r_glaze_total', rg), ('SHGC_total', sh), ('alb_wall_total', aw)):
        if getattr(m, name) != acc:
            return '%s is %r, the fraction-weighted sum over the simulated buildings is %r' % (
                name, getattr(m, name), acc)
    if hasattr(m, 'UCM'):
        if m.UCM.alb_wall != aw:
            return 'canyon model wall albedo %r, stock average %r' % (m.UCM.alb_wall, aw)
        fa = (1 - rg) * (1 - aw) + rg * (1 - 0.75 * sh)
        if m.UCM.facAbsor != fa:
            return 'canyon facade absorptivity %r, from the stock averages %r' % (m.UCM.facAbsor, fa)
    return None


def setter_histories(chk, uwg, pristine):
    """Sequences of accepted and REFUSED (caught) assignments to the six overrides on one long-lived object,
    each followed by generate(): the value in force is the last accepted one (or unset)."""
    rng = chk.rng
    rounds = 40 if chk.tier == 'quick' else 400
    m = U.new_model(outdir=chk.work(), outname='c08h.epw', nday=1, dtsim=300)
    want = {k: None for k in OV}
    log, bad, nops = [], 0, {'accept': 0, 'refuse': 0, 'unset': 0}
    for r in range(rounds):
        if r % 8 == 0:                        # new object from time to time: refusals on never-set overrides
            m = U.new_model(outdir=chk.work(), outname='c08h.epw', nday=1, dtsim=300)
            want = {k: None for k in OV}
            log = []
        if r % 3 == 2 and isinstance(m.bld, list):
            # the stock revised IN PLACE (item assignment on the list the model holds), not re-assigned
            i = rng.randrange(len(m.bld))
            m.bld[i] = (rng.choice(['hospital', 'medoffice', 'smallhotel', 'quickservicerestaurant']),
                        rng.choice(['pre80', 'new', 'Pst80']), m.bld[i][2])
            log.append(['stock edited in place', list(m.bld), m.zone])
        else:
            m.bld = [tuple(x) for x in rng.choice(STOCKS)]
            m.zone = rng.choice(ZONES)
            m.bldheight = rng.choice(LOW_HEIGHTS)
            log.append(['stock', list(m.bld), m.zone, 'bldheight', m.bldheight])
        for k in rng.sample(OV, rng.randint(1, 6)):
            fam = 'flr_h' if k == 'flr_h' else '01'
            for _ in range(rng.randint(1, 3)):
                x = rng.random()
                if x < 0.45:
                    v = rng.choice(REFUSE[fam])
                    res = S3.try_assign(m, k, v)
                    log.append([k, repr(v), res])
                    nops['refuse'] += 1
                    if res == 'accepted':
                        want[k] = v            # (judged by the setter tie of C07/C08; keep the history honest)
                elif x < 0.85:
                    v = rng.choice(ACCEPT[fam])
                    setattr(m, k, v)
                    want[k] = v
                    log.append([k, repr(v), 'set'])
                    nops['accept'] += 1
                else:
                    setattr(m, k, None)
                    want[k] = None
                    log.append([k, 'None', 'set'])
                    nops['unset'] += 1
        try:
            with core.quiet():
                m.generate()
            msg = oracle_generated(m, want, pristine)
        except Exception as e:  # noqa: BLE001
            msg = 'generate() raised %s: %s' % (type(e).__name__, str(e)[:150])
        if msg:
            bad += 1
            if bad <= 3:
                chk.violation('impl-violation', 'overrides after refused assignments (setter history; generate)',
                              case={'operations_on_one_object': log[-25:], 'in_force': {k: repr(v) for k, v in want.items()}},
                              observed=msg,
                              expected='every building carries the last ACCEPTED value of each override (reference '
                                       'value when unset); a refused assignment changes nothing')
            m = U.new_model(outdir=chk.work(), outname='c08h.epw', nday=1, dtsim=300)
            want = {k: None for k in OV}
            log = []
    chk.direct('override-setter-histories(refused assignments; generate)', rounds, rounds,
               'one long-lived UWG object: per round a new stock / zone (every third round the stock list is edited in place '
               'instead) and 1..6 overrides each assigned 1..3 times '
               'with accepted values (0, 1, interior, ints, a hair inside the limits: 5e-324 .. 1e-9 and 1 - 1e-6 .. '
               'the double below 1; flr_h below, at and above the building height, which varies 3 .. 10 m), None, or '
               'values the setter must refuse (-0.2, -1e-9, '
               '1.0000001, 1.4, 1.5, 7, NaN, a hair outside the limits: -5e-324 .. -1e-9, the double above 1 .. 1 + 1e-9; '
               'flr_h 0, -3.05, NaN, -5e-324) under try/except, then generate(): getters, every '
               'simulated building, the three stock averages, UCM.alb_wall and UCM.facAbsor must reflect the last '
               'accepted value (reference value when unset)', mismatches=bad, branches=nops)


def param_file_spellings(chk, uwg, pristine):
    """The parameter-file route with every spelling of a number that float() reads."""
    rng = chk.rng
    work = chk.work()
    src = U.rp(U.PARAM_SGP)
    ncase = 40 if chk.tier == 'quick' else 400
    file_key = {'glzr': 'glzR', 'shgc': 'SHGC', 'albwall': 'albWall', 'albroof': 'albRoof', 'vegroof': 'vegRoof',
                'flr_h': 'flr_h'}
    values = {'01': [0.0, 1.0, 0.5, 0.25, 0.375, 0.1, 0.91], 'flr_h': [3.05, 4.5, 0.5, 6.0]}
    bad, forms = 0, {}
    # every spelling of every value at least once over the run: walk the spelling lists round robin
    pool = {}
    for fam, vs in values.items():
        pool[fam] = [(v, s) for v in vs for s in S3.float_spellings(v)]
        rng.shuffle(pool[fam])
    ptr = {'01': 0, 'flr_h': 0}
    for n in range(ncase):
        sub = rng.sample(OV, rng.choice([1, 2, 3, 6, 6]))
        cells, want = {}, {k: None for k in OV}
        for k in OV:
            if k in sub:
                fam = 'flr_h' if k == 'flr_h' else '01'
                v, text = pool[fam][ptr[fam] % len(pool[fam])]
                ptr[fam] += 1
                cells[file_key[k]] = text
                want[k] = v
                shape = ('sign' if text.strip()[0] in '+-' else 'dot' if text.strip()[0] == '.' else
                         'exp' if 'e' in text.lower() else 'space' if text != text.strip() else
                         'int' if '.' not in text else 'plain')
                forms[shape] = forms.get(shape, 0) + 1
            else:
                cells[file_key[k]] = rng.choice(['', '', ' '])
        # geometry that enters the floor areas, spelled freely as well
        geo = {'bldHeight': rng.choice([10.0, 25.0, 7.5]), 'bldDensity': rng.choice([0.5, 0.25, 0.375]),
               'charLength': rng.choice([1000.0, 500.0])}
        for gk, gv in geo.items():
            cells[gk] = rng.choice(S3.float_spellings(gv))
        pth = S3.write_param_file(src, os.path.join(work, 'sp%d.uwg' % (n % 4)), cells)
        try:
            with core.quiet():
                m = uwg.UWG.from_param_file(pth, epw_path=U.rp(U.EPW_SGP), new_epw_dir=work, new_epw_name='sp.epw')
                m.nday = 1
                m.generate()
            msg = oracle_generated(m, want, pristine)
            if msg is None:
                for gk, gv in geo.items():
                    if getattr(m, gk.lower()) != gv:
                        msg = 'model.%s reads %r, the file says %r' % (gk.lower(), getattr(m, gk.lower()), cells[gk])
                h = 3.05 if want['flr_h'] is None else want['flr_h']
                area = (geo['charLength'] ** 2) * geo['bldDensity'] * geo['bldHeight'] / h
                for b in m.BEM:
                    if msg is None and b.fl_area != b.frac * area:
                        msg = 'floor area of %s is %r, expected frac*L^2*density*height/floor height = %r' % (
                            b.bldtype, b.fl_area, b.frac * area)
        except Exception as e:  # noqa: BLE001
            msg = '%s: %s' % (type(e).__name__, str(e)[:150])
        if msg:
            bad += 1
            if bad <= 3:
                chk.violation('impl-violation', 'overrides given in a parameter file (legal float spellings)',
                              case={'cells_as_written': cells, 'values': {k: repr(v) for k, v in want.items()}},
                              observed=msg,
                              expected='a cell that float() reads is the override value carried by every building; '
                                       'an empty cell leaves the reference values')
    chk.direct('parameter-file-route(float spellings)', ncase, ncase,
               'copies of resources/initialize_singapore.uwg with subsets of the six override cells (and bldHeight, '
               'bldDensity, charLength) written in every spelling float() accepts - 0.5 .5 +.5 +0.5 0.50 00.5 5e-1 '
               '5.E-1 .05e1 1 1. +1 1e0 .0 0. -0 0e5, padded with blanks - and the others blank: from_param_file; '
               'generate(); getters, every building, stock averages, canyon inputs and floor areas as above',
               mismatches=bad, branches=forms)


def carried_exactly(m, want):
    """the value itself (bit for bit, not only ==) in every building; -0.0 vs 0.0 and int vs float are let pass"""
    for b in m.BEM:
        have = building_values(b)
        for k in OV:
            if want[k] is not None and (have[k] != want[k] or repr(float(have[k])) != repr(float(want[k]))):
                return 'building %s/%s carries %s = %r, the accepted override is %r' % (
                    b.bldtype, b.builtera, k, have[k], want[k])
    return None


def overrides_vs_other_parameters(chk, uwg, pristine):
    """An accepted override is carried AS IT IS, whatever the other parameters are: floor height below, at and
    above the average building height (districts of single-storey halls), 0..1 overrides below, at and above the
    reference value they replace and next to the other overrides; a few of the districts are simulated."""
    import uwg.uwg as UM
    rng = chk.rng
    quick = chk.tier == 'quick'
    work = chk.work()
    bad, br, n = 0, {}, 0
    heights = [3.0, 5.0, 6.5, 10.0] if quick else [2.0, 2.5, 3.0, 4.0, 5.0, 6.5, 10.0, 16.0, 40.0, 150.0]
    rel = [('half', 0.5), ('below', 0.8), ('equal', 1.0), ('above', 1.3), ('twice', 2.0), ('far above', 5.0)]
    cases = []
    for h in heights:
        for tag, f in rel:
            cases.append(('flr_h %s bldheight' % tag, {'bldheight': h, 'flr_h': h * f}))
    # 0..1 overrides relative to the reference value of the first building of the stock
    for n_, k in enumerate(OV[:5]):
        for tag in ('below', 'equal', 'above') if not quick else ('below', 'above') if n_ % 2 else ('equal', 'above'):
            cases.append(('%s %s reference' % (k, tag), {'ref_rel': (k, tag)}))
    sims = 0
    for label, spec in cases:
        stock = [tuple(x) for x in rng.choice(STOCKS)]
        zone = rng.choice(ZONES)
        m = U.new_model(outdir=work, outname='c08g.epw', nday=1, dtsim=300, bld=stock, zone=zone)
        want = {k: None for k in OV}
        if 'ref_rel' in spec:
            k, tag = spec['ref_rel']
            zi = UM.REF_ZONETYPE.index('1A' if zone == '1B' else '5B' if zone == '5C' else zone)
            r0 = building_values(pristine[UM.REF_BLDTYPE.index(stock[0][0])][UM.REF_BUILTERA.index(stock[0][1].lower())][zi])[k]
            v = r0 if tag == 'equal' else r0 / 2 if tag == 'below' else (r0 + 1) / 2
            want[k] = v
            for k2 in rng.sample(OV[:5], 2):              # next to other overrides
                if k2 != k:
                    want[k2] = rng.choice([0.0, 1.0, v])
        else:
            m.bldheight = spec['bldheight']
            want['flr_h'] = spec['flr_h']
            if rng.random() < 0.5:
                want[rng.choice(OV[:5])] = rng.choice([0.0, 1.0, 0.3])
        for k in OV:
            setattr(m, k, want[k])
        case = {'stock': stock, 'zone': zone, 'bldheight': m.bldheight, 'overrides': {k: repr(v) for k, v in want.items()}}
        n += 1
        br[label.split(' ')[0] + ' ' + label.split(' ')[1]] = br.get(label.split(' ')[0] + ' ' + label.split(' ')[1], 0) + 1
        try:
            with core.quiet():
                m.generate()
            msg = oracle_generated(m, want, pristine) or carried_exactly(m, want)
            if msg is None:
                h = 3.05 if want['flr_h'] is None else want['flr_h']
                area = (m.charlength ** 2) * m.blddensity * m.bldheight / h
                for b in m.BEM:
                    if msg is None and b.fl_area != b.frac * area:
                        msg = 'floor area of %s is %r, expected frac*L^2*density*height/floor height = %r' % (
                            b.bldtype, b.fl_area, b.frac * area)
            # the district must also be simulable, and still carry the override afterwards
            if msg is None and 'bldheight' in spec and spec['flr_h'] > spec['bldheight'] and sims < (2 if quick else 8):
                sims += 1
                with core.quiet():
                    m.simulate()
                msg = carried_exactly(m, want)
        except Exception as e:  # noqa: BLE001
            msg = '%s: %s' % (type(e).__name__, str(e)[:150])
        if msg:
            bad += 1
            if bad <= 3:
                chk.violation('impl-violation', 'override next to the other parameters (%s)' % label, case=case,
                              observed=msg,
                              expected='the accepted override value itself in every simulated building and in the '
                                       'stock averages, independent of bldheight, of the reference values and of the '
                                       'other overrides')
    chk.direct('override-vs-other-parameters(flr_h around bldheight; 0..1 overrides around the reference value)', n, n,
               'unmodified package: for bldheight %s m the floor-height override set to 0.5x, 0.8x, 1x, 1.3x, 2x and 5x '
               'the building height (storeys taller than a low district), and each 0..1 override set below / at / '
               'above the reference value it replaces next to other overrides, random stock and zone: generate(); '
               'getters, every building (the value itself, bit for bit), stock averages, canyon inputs, floor areas = '
               'frac*L^2*density*height/flr_h; %d of the low districts simulated for a day and read again' % (
                   heights, sims), mismatches=bad, branches=br)


def near_limit_routes(chk, uwg, pristine):
    """Values a hair inside the limits of [0, 1] are accepted values: they must arrive unchanged, by every route."""
    rng = chk.rng
    quick = chk.tier == 'quick'
    work = chk.work()
    inside, outside = T.near_limit_floats()
    src = U.rp(U.PARAM_SGP)
    file_key = {'glzr': 'glzR', 'shgc': 'SHGC', 'albwall': 'albWall', 'albroof': 'albRoof', 'vegroof': 'vegRoof'}
    bad, br, n = 0, {}, 0

    def report(route, case, msg, expected):
        nonlocal bad
        bad += 1
        if bad <= 3:
            chk.violation('impl-violation', 'override value next to a limit of its range (%s route)' % route,
                          case=case, observed=msg, expected=expected)
    base = U.new_model(outdir=work, outname='c08n.epw', nday=1, dtsim=300).to_dict()
    for v in (inside if not quick else inside[::2] + inside[-1:]):
        routes = ['attribute', 'dict', 'file'] if not quick else [rng.choice(['attribute', 'dict', 'file']), 'attribute']
        for route in dict.fromkeys(routes):
            ks = list(OV[:5]) if route != 'attribute' or not quick else rng.sample(OV[:5], 2)
            want = {k: None for k in OV}
            for k in ks:
                want[k] = v
            stock = [tuple(x) for x in rng.choice(STOCKS)]
            case = {'route': route, 'value': repr(v), 'overrides': ks, 'stock': stock}
            n += 1
            br[route] = br.get(route, 0) + 1
            try:
                with core.quiet():
                    if route == 'attribute':
                        m = U.new_model(outdir=work, outname='c08n.epw', nday=1, dtsim=300, bld=stock)
                        for k in ks:
                            setattr(m, k, v)
                    elif route == 'dict':
                        d = dict(base)
                        d['bld'] = [list(x) for x in stock]
                        for k in ks:
                            d[k] = v
                        m = uwg.UWG.from_dict(d, epw_path=U.rp(U.EPW_SGP), new_epw_dir=work, new_epw_name='c08n.epw')
                    else:
                        pth = S3.write_param_file(src, os.path.join(work, 'nl.uwg'), {file_key[k]: repr(v) for k in ks})
                        m = uwg.UWG.from_param_file(pth, epw_path=U.rp(U.EPW_SGP), new_epw_dir=work,
                                                    new_epw_name='c08n.epw')
                        m.nday = 1
                        stock = list(m.bld)
                    m.generate()
                msg = oracle_generated(m, want, pristine) or carried_exactly(m, want)
            except Exception as e:  # noqa: BLE001
                msg = '%s: %s' % (type(e).__name__, str(e)[:150])
            if msg:
                report(route, case, msg, 'a value inside [0, 1] is accepted and is the value every building carries')
    # a hair OUTSIDE: refused by every route (never silently moved onto the limit)
    for v in outside:
        for k in (OV[:5] if not quick else rng.sample(OV[:5], 2)):
            n += 1
            br['refused'] = br.get('refused', 0) + 1
            m = U.new_model(outdir=work, outname='c08n.epw', nday=1, dtsim=300)
            res = S3.try_assign(m, k, v)
            if res == 'accepted':
                report('attribute', {'override': k, 'value': repr(v)},
                       'accepted; the override now reads %r' % getattr(m, k),
                       'refused: the value lies outside [0, 1]')
    chk.direct('override-values-next-to-the-limits(attribute, dict and file route)', n, n,
               'the five 0..1 overrides set to doubles a hair inside the limits - 5e-324, 2.2e-308, 1e-300, 1e-30, 1e-12, '
               '5e-11, 1e-10, 1e-9, 1e-6 and 1 minus 1e-6 .. 1e-15, the double below 1 - by attribute, by from_dict and in '
               'a parameter file (repr text): generate(); the getter, every building (bit for bit), the stock averages '
               'and the canyon inputs hold that value; doubles a hair outside (-5e-324 .. -1e-9, the double above 1 .. '
               '1 + 1e-9) are refused', mismatches=bad, branches=br)


# ------------------------------------------------------------------------------- circumstances (fourth round)
FILE_KEY = {'glzr': 'glzR', 'shgc': 'SHGC', 'albwall': 'albWall', 'albroof': 'albRoof', 'vegroof': 'vegRoof',
            'flr_h': 'flr_h'}


def circumstance_members(rng, quick):
    """(label, stock, zone, overrides in force)"""
    none = {k: None for k in OV}
    s3 = [['hospital', 'new', 0.3], ['largeoffice', 'pst80', 0.2], ['midriseapartment', 'pst80', 0.5]]
    s2 = [['largeoffice', 'pst80', 0.4], ['midriseapartment', 'pst80', 0.6]]
    mem = [('all six overrides, interior values', s3, '4A',
            dict(glzr=0.37, shgc=0.61, albwall=0.33, albroof=0.44, vegroof=0.25, flr_h=3.7)),
           ('overrides at the limits 0 and 1, tall storeys', s2, '1A',
            dict(glzr=0.0, shgc=1.0, albwall=0.0, albroof=1.0, vegroof=0.0, flr_h=6.5)),
           ('no override set', s2, '5C', dict(none))]
    singles = [(k, v) for k, v in (('glzr', 0.9), ('shgc', 0.15), ('albwall', 0.6), ('albroof', 0.05), ('vegroof', 0.5),
                                   ('flr_h', 4.5))]
    for k, v in (rng.sample(singles, 2) if quick else singles):
        mem.append(('only %s set' % k, rng.choice([s2, s3]), rng.choice(['1A', '3C', '5A', '1B']), dict(none, **{k: v})))
    return mem


def circumstance_start(chk):
    """members + the fresh-interpreter scenarios (python and python -O), started now and collected by circumstance_ties:
    they are independent processes and run while the other ties of the check use this one"""
    import concurrent.futures
    import random
    import u2_util as W
    quick = chk.tier == 'quick'
    work = chk.work()
    mem = circumstance_members(random.Random('C08-circumstances-%d' % chk.seed), quick)

    def spec_for(k, tag):
        label, stock, zone, ov = mem[k]
        return {'out': [os.path.join(work, 'c8_' + tag), 'o.epw'],
                'attrs': [['nday', 1], ['dtsim', 300], ['bld', stock], ['zone', zone]] + [[a, ov[a]] for a in OV]}
    ops = lambda ms: [['new', 'M', ms], ['gen', 'M'], ['obs', 'M', 'gen'], ['sim', 'M'], ['write', 'M'], ['rec', 'M', 'run']]  # noqa: E731
    jobs = []
    in_child = list(range(len(mem))) if not quick else [0, 1, len(mem) - 1]
    for k in in_child:
        for opt in (False, True):
            tag = 'm%d%s' % (k, '-O' if opt else '')
            jobs.append((tag, {'ops': ops(spec_for(k, tag))}, opt))
    pool = concurrent.futures.ThreadPoolExecutor(max_workers=1)
    return {'mem': mem, 'spec_for': spec_for, 'in_child': in_child, 'pool': pool,
            'fut': pool.submit(W.children, jobs, work, 4 if quick else 8)}


def circumstance_ties(chk, uwg, pristine, early=None):
    """The six circumstances of harness/generic.py applied to C08: an accepted override is the value every simulated
    building carries - whoever looks at the model, whatever the logging level and interpreter mode, by every route,
    whatever other models live in the process and whatever the caller does with the dictionary he handed in."""
    import concurrent.futures
    import json
    import generic as G
    import u2_util as W
    quick = chk.tier == 'quick'
    work = chk.work()
    epw = U.rp(U.EPW_SGP)
    early = early or circumstance_start(chk)
    mem, spec_for, in_child, pool, fut = (early[k_] for k_ in ('mem', 'spec_for', 'in_child', 'pool', 'fut'))
    nbad, n, br, shown = 0, 0, {}, {}

    def bad(circ, what, case, observed, expected):
        nonlocal nbad
        nbad += 1
        shown[circ] = shown.get(circ, 0) + 1
        if shown[circ] <= 2 and nbad <= 8:
            chk.violation('impl-violation', '%s [%s]' % (what, circ), case=case, observed=observed, expected=expected)

    def count(circ):
        nonlocal n
        n += 1
        br[circ] = br.get(circ, 0) + 1

    def case_of(k, **extra):
        label, stock, zone, ov = mem[k]
        d = {'member': label, 'stock': stock, 'zone': zone, 'overrides': {a: repr(v) for a, v in ov.items()}}
        d.update(extra)
        return d

    def carried_in_doc(doc, ov):
        """the override values in the archetype summary of a scenario outcome (another process)"""
        for b in doc['obs']['gen']['bem']:
            for i, a in enumerate(OV):
                if ov[a] is not None and float(b[4 + i]) != ov[a]:
                    return 'building %s/%s carries %s = %s although the override in force is %r' % (b[0], b[1], a, b[4 + i], ov[a])
        return None
    base, dicts = {}, {}
    cl0 = W.class_digest()
    for k, (label, stock, zone, ov) in enumerate(mem):
        try:
            # plain
            count('plain')
            m = W.new_from_spec(uwg, spec_for(k, 'p%d' % k))
            dicts[k] = m.to_dict()
            with core.quiet():
                m.generate()
            msg = oracle_generated(m, ov, pristine) or carried_exactly(m, ov)
            with core.quiet():
                m.simulate()
                m.write_epw()
            msg = msg or carried_exactly(m, ov)
            base[k] = {'records': W.records_of(m), 'file': G.file_hash(m.new_epw_path), 'bem': W.bem_summary(m)}
            if msg:
                bad('plain', 'overrides on a generated and simulated model', case_of(k), msg, 'carried by every building')
                continue
            # (1) + (2) somebody looks, DEBUG logging
            if quick and k not in in_child:
                continue
            count('observers + DEBUG logging')
            with G.debug_logging():
                m = W.new_from_spec(uwg, spec_for(k, 'l%d' % k))
                G.poke(m)
                with core.quiet():
                    m.generate()
                G.poke(m)
                msg = oracle_generated(m, ov, pristine) or carried_exactly(m, ov)
                undo = G.poke_during(m)
                try:
                    with core.quiet():
                        m.simulate()
                finally:
                    undo()
                G.poke(m)
                msg = msg or carried_exactly(m, ov) or oracle_getters(m, ov)
                if k == 0:                     # (write_epw re-formats all 8760 rows: once is enough here)
                    with core.quiet():
                        m.write_epw()
            if msg:
                bad('observers', 'overrides of a model that somebody looks at', case_of(k), msg,
                    'repr / str / ToString change nothing: every building carries the overrides')
            elif W.records_of(m) != base[k]['records'] or (k == 0 and G.file_hash(m.new_epw_path) != base[k]['file']):
                d = G.first_diff(base[k]['records'], W.records_of(m))
                bad('observers', 'urban weather of a model with overrides that was looked at (every stage, every 41st step, DEBUG '
                    'logging)', case_of(k), 'hourly records / file differ from the model never looked at (first differing hour '
                    '%s)' % (d and d[0]), 'bit-identical')
        except Exception as e_:  # noqa: BLE001 - code under test raising where the unchanged tree does not
            bad('plain / observers', 'a call raised', case_of(k), '%s: %s' % (type(e_).__name__, str(e_)[:200]), 'the calls return')
    if W.class_digest() != cl0:
        bad('other models', 'module- and class-level data of the package', {'operations': 'the runs above'},
            'digest changed', 'unchanged by operations on models')
    # ---- (5) other models in the process
    pairs = [(0, 2), (1, 0)] + ([] if quick else [(2, 0), (3, 1), (0, 4)])
    for ka, kb in pairs:
        try:
            count('other models')
            a = W.new_from_spec(uwg, spec_for(ka, 'oa'))
            b = W.new_from_spec(uwg, spec_for(kb, 'ob'))
            a.autosize = True
            case = {'first_model (autosize on)': case_of(ka), 'second_model': case_of(kb),
                    'sequence': 'first.generate(); first.simulate(); second.generate(); first.generate(); second.simulate()'}
            with core.quiet():
                a.generate()
                a.simulate()
                b.generate()
            msg = oracle_generated(b, mem[kb][3], pristine) or carried_exactly(b, mem[kb][3])
            with core.quiet():
                a.generate()
            msg = msg or oracle_generated(a, mem[ka][3], pristine) or carried_exactly(b, mem[kb][3])
            with core.quiet():
                b.simulate()
            msg = msg or carried_exactly(b, mem[kb][3])
            if msg:
                bad('other models', 'overrides of a model generated beside another model', case, msg,
                    'each model carries ITS overrides (reference values from the pristine library where unset)')
            elif W.records_of(b) != base[kb]['records']:
                bad('other models', 'urban weather of a model simulated beside another model', case,
                    'hourly records differ from the same model alone', 'bit-identical')
        except Exception as e_:  # noqa: BLE001 - code under test raising where the unchanged tree does not
            bad('other models', 'a call raised', {'first': case_of(ka), 'second': case_of(kb)}, '%s: %s' % (type(e_).__name__, str(e_)[:200]), 'the calls return')
    # ---- (6) the caller's dictionary, used twice; then written out for the command line
    cli_jobs = []
    for k, (label, stock, zone, ov) in enumerate(mem):
        count('caller-owned data')
        d = dicts[k]
        snap = G.snapshot(d)
        case = case_of(k, route='one dictionary object (to_dict of a model built with these overrides) given to from_dict '
                                 'twice, e.g. the same city for two start months')
        told = False
        for use, month in (((1, 1), (2, 7), (3, 1)) if k == 0 or not quick else ((1, 1), (2, 7))):
            try:
                with core.quiet():
                    m = uwg.UWG.from_dict(d, epw_path=epw, new_epw_dir=work, new_epw_name='c8d.epw')
                    m.month = month
                    m.generate()
                msg = oracle_generated(m, ov, pristine) or carried_exactly(m, ov)
            except Exception as e:  # noqa: BLE001
                msg = '%s: %s' % (type(e).__name__, str(e)[:120])
            w = G.where_differs(snap, d)
            if w and not told:
                told = True
                bad('caller-owned data', 'from_dict leaves the dictionary it was given as it was', case,
                    'after use %d: %s' % (use, w), 'unchanged (the caller builds further models from it)')
            if msg:
                bad('caller-owned data', 'overrides of model number %d built from ONE dictionary' % use, case, msg,
                    'every model built from the dictionary carries the overrides it states')
                break
        # route: the JSON text of the (used) dictionary through the command line, captured in this process
        count('command line (in process, model captured)')
        od = os.path.join(work, 'c8_cli%d' % k)
        os.makedirs(od, exist_ok=True)
        jp = os.path.join(od, 'model.json')
        with open(jp, 'w') as f:
            json.dump(snap, f)
        case = case_of(k, command='uwg simulate model <JSON text of the model> <Singapore epw>')
        code, got, res = W.cli_capture(['model', jp, epw, '--new-epw-dir', od, '--new-epw-name', 'i.epw'])
        fp = os.path.join(od, 'i.epw')
        if code != 0 or len(got) != 1 or not os.path.exists(fp):
            bad('command line', 'a JSON model with overrides through `uwg simulate model`', case,
                'exit status %s, %d model(s) generated, file written: %s (%r)' % (code, len(got), os.path.exists(fp), res.exception),
                'exit status 0, one model, a weather file')
        else:
            msg = oracle_generated(got[0], ov, pristine) or carried_exactly(got[0], ov)
            if msg:
                bad('command line', 'overrides of the model that `uwg simulate model` builds and simulates', case, msg,
                    'the overrides stated in the JSON model, in every building and in the stock averages - as the library '
                    'route does')
            elif G.file_hash(fp) != base[k]['file']:
                bad('command line', 'weather file of `uwg simulate model`', case, 'differs from the library route', 'identical')
        if k < (1 if quick else len(mem)):
            for opt in (False, True):
                cli_jobs.append((k, 'model', opt, od, ['simulate', 'model', jp, epw, '--new-epw-dir', od, '--new-epw-name',
                                                         's%d.epw' % opt], 's%d.epw' % opt))
        # the parameter-file route: override cells (and zone) written into a copy of the shipped file
        if stock == mem[1][1] and (k == 1 or not quick):
            count('command line (in process, model captured)')
            pth = S3.write_param_file(U.rp(U.PARAM_SGP), os.path.join(od, 'p.uwg'), dict(
                {FILE_KEY[a]: ('' if ov[a] is None else repr(ov[a])) for a in OV}, zone=zone, nDay='1'))
            code, got, res = W.cli_capture(['param', pth, epw, '--new-epw-dir', od, '--new-epw-name', 'ip.epw'])
            case = case_of(k, command='uwg simulate param <copy of the shipped parameter file with these override cells> <epw>')
            if code != 0 or len(got) != 1:
                bad('command line', 'a parameter file with overrides through `uwg simulate param`', case,
                    'exit status %s, %d model(s) (%r)' % (code, len(got), res.exception), 'exit status 0, one model')
            else:
                msg = oracle_generated(got[0], ov, pristine) or carried_exactly(got[0], ov)
                if msg:
                    bad('command line', 'overrides of the model that `uwg simulate param` builds and simulates', case, msg,
                        'the override cells of the file, in every building')
                elif G.file_hash(os.path.join(od, 'ip.epw')) != base[k]['file']:
                    bad('command line', 'weather file of `uwg simulate param`', case, 'differs from the library route', 'identical')
            if k < 2 or not quick:
                cli_jobs.append((k, 'param', False, od, ['simulate', 'param', pth, epw, '--new-epw-dir', od, '--new-epw-name',
                                                          'sp.epw'], 'sp.epw'))
    with concurrent.futures.ThreadPoolExecutor(max_workers=6) as ex:
        cli_out = list(ex.map(lambda j: G.cli(j[4], optimize=j[2]), cli_jobs))
        surface = ex.submit(W.cli_surface_problems).result()
    for (k, which, opt, od, args, name), (rc, so, se) in zip(cli_jobs, cli_out):
        count('command line (python %s-m uwg)' % ('-O ' if opt else ''))
        fp = os.path.join(od, name)
        if rc != 0 or not os.path.exists(fp) or G.file_hash(fp) != base[k]['file']:
            bad('command line', 'weather file of `python %s-m uwg simulate %s`' % ('-O ' if opt else '', which),
                case_of(k, command='python %s-m uwg %s' % ('-O ' if opt else '', ' '.join(args[:2]))),
                'exit status %s, file %s' % (rc, 'differs from the one of the library route (generate; simulate; write_epw of '
                                                 'a model with these overrides)' if os.path.exists(fp) else 'missing'),
                'exit status 0 and the same file, byte for byte')
    count('command line surface')
    for p in surface:
        bad('command line', 'options of the command line', {'command': '--help'}, p,
            'the commands, arguments and options of the unchanged tree (an extra option is an extra input of the run)')
    # ---- (3) fresh processes, python and python -O
    outs = fut.result()
    pool.shutdown()
    for k, (label, stock, zone, ov) in enumerate(mem):
        for opt in ((False, True) if k in in_child else ()):
            tag = 'm%d%s' % (k, '-O' if opt else '')
            mode = 'python -O' if opt else 'python'
            count(mode + ' (fresh process)')
            rc, doc, err = outs[tag]
            case = case_of(k, interpreter=mode + ', fresh process')
            if doc is None or any(x != 'ok' for x in doc['log']):
                bad(mode, 'scenario in a fresh interpreter', case, 'rc=%s calls %s %s' % (rc, doc and doc['log'], err[-200:]),
                    'every call returns')
                continue
            msg = carried_in_doc(doc, ov)
            if msg:
                bad(mode, 'overrides under %s' % mode, case, msg, 'carried by every building')
            if doc['obs']['run']['records'] != base[k]['records'] or doc['obs']['run']['file'] != base[k]['file']:
                bad(mode, 'urban weather of a model with overrides in a fresh %s process' % mode, case,
                    'hourly records / file differ from the plain in-process run', 'bit-identical')
            if doc['class_level_changes']:
                bad(mode, 'module- and class-level data of the package', case,
                    'changed at operation(s) %s' % doc['class_level_changes'][:3], 'unchanged by operations on a model')
    chk.direct('circumstances(observers, DEBUG logging, python -O, command line, other models, caller-owned data)', n, n,
               'members: %s. For each: (plain) generate; simulate; write_epw with the C08 oracle (getters, every building bit '
               'for bit, stock averages, canyon inputs) after generate and after simulate; (1, 2) the same under DEBUG logging '
               'while repr / str / ToString of the model and every reachable object is taken after construction, after '
               'generate(), every 41st step and after simulate(): oracle, records and file as never looked at; (3) fresh '
               '`python` and `python -O` processes: overrides in every archetype, records and file of the plain run; (4) the '
               'JSON text through `uwg simulate model` and a parameter file with the override cells through `uwg simulate '
               'param`: the model the command builds is captured (click runner in this process, UWG.generate wrapped) and '
               'judged by the oracle, the file equals the library route; real `python [-O] -m uwg` runs for %d member(s); '
               '`--help` of uwg / simulate / model / param lists the commands, arguments and options of the unchanged tree; '
               '(5) a model generated and simulated beside ANOTHER model with other overrides and autosize (before, between): '
               'oracle against the pristine library, records of the model alone; class-level digest constant; (6) ONE '
               'dictionary object given to from_dict two or three times (other start month each): dictionary unchanged, every model '
               'carries the overrides it states' % ('; '.join(m_[0] for m_ in mem), len(cli_jobs)),
               mismatches=nbad, branches=br)


def oracle_getters(m, want):
    for k in OV:
        got = getattr(m, k)
        if (got is None) != (want[k] is None) or (got is not None and not got == want[k]):
            return 'model.%s reads %r, the accepted value in force is %r' % (k, got, want[k])
    return None


# ------------------------------------------------------------------------------- fifth round: custom attributes
def custom_attribute_cities(chk, uwg):
    """Every tie above overrides DOE archetypes, whose roofs are all horizontal, whose walls and masses carry no
    vegetation and whose BEMDefs arrive with frac 0: a guard or a weighting on such an attribute is the identity there.
    Family (harness/v2_util.py): custom archetypes with each documented attribute at a legal non-default value."""
    import v2_util as V
    n, bad, br = V.attribute_cities(chk, uwg, 'C08')
    chk.direct('overrides-on-custom-archetypes(documented Element / BEMDef attributes at non-default values)', n, n,
               V.ATTRIBUTE_RULE + ', under override sets (%s; quick tier: two sets per member, rotating): the getters read the value in '
               'force; every simulated building - DOE and custom, whatever its roof / wall / mass attributes - carries every '
               'set override and the reference value (the custom\'s own, taken before the hand-over) of every unset one; '
               'r_glaze_total, SHGC_total and alb_wall_total equal the share-weighted sums of the CARRIED values; UCM.alb_wall '
               'and UCM.facAbsor follow from them' % '; '.join(o[0] for o in V.OVERRIDE_SETS), mismatches=bad, branches=br)


# ------------------------------------------------------------------------------- sixth round: used, not only stored
def sixth_round_ties(chk, uwg):
    """Every oracle above reads the overridden ATTRIBUTE after generate(). Sixth round (families in harness/w2_util.py):
    (a) customs whose REFERENCE value of an overridable attribute lies at a limit of the range (windowless, shgc 0, black /
    white, fully vegetated roof) - a guard on the reference value is the identity on the shipped library (glazing 0.006..0.38);
    (b) the override is what the SIMULATION uses: twin cities that differ only in reference values the override replaces
    must be one and the same simulation (records and end-of-day building state bit for bit), for custom archetypes of every
    provenance (constructor, from_dict, deep copy of an un-pickled library cell, pickle), inside the vegetation season."""
    import w2_util as W
    n, bad, br = W.limit_reference_cities(chk, uwg)
    chk.direct('overrides-on-customs-with-reference-values-at-the-limits(windowless, shgc 0 / 1, albedo 0 / 1, roof vegetation 1)',
               n, n, W.LIMIT_RULE, mismatches=bad, branches=br)
    n, bad, br = W.override_twins(chk, uwg)
    chk.direct('override-is-what-is-simulated(twin cities differing only in replaced reference values, customs of every provenance)',
               n, n, W.TWIN_RULE, mismatches=bad, branches=br)


def run(chk):
    early = circumstance_start(chk)
    c07.run(chk, focus='C08', module=MODULE, theorems=THEOREMS)
    uwg = U.uwg_mod()
    pristine = uwg.UWG.load_refDOE()[0]
    setter_histories(chk, uwg, pristine)
    param_file_spellings(chk, uwg, pristine)
    overrides_vs_other_parameters(chk, uwg, pristine)
    near_limit_routes(chk, uwg, pristine)
    custom_attribute_cities(chk, uwg)
    sixth_round_ties(chk, uwg)
    circumstance_ties(chk, uwg, pristine, early)


def replay(chk, path):
    return c07.replay(chk, path, focus='C08')
