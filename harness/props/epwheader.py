"""Header interpretation of the rural EPW file: the REAL UWG._read_epw (executed over exact rationals) vs the Lean
model Uwg.Epw.readHeader, plus the oracle of the data dictionary (record i = depth, 3 property cells, 12 months).
Hooked into C12 (site of the sun position) and C20 (ground depths / monthly deep temperatures)."""
import csv
import os
import string
from fractions import Fraction as F

import core
import fracexec
from fracexec import frac_str, frac_list

MODULE = 'UwgVerif.Props.EpwHeader'
SITE_THEOREMS = ['Uwg.Epw.readSite_cells', 'Uwg.Epw.readSite_congr', 'Uwg.Epw.readHeader_congr',
                 'Uwg.Epw.readHeader_short']
GROUND_THEOREMS = ['Uwg.Epw.readGround_groundLine', 'Uwg.Epw.readGround_indep']

PLAIN = set(string.ascii_letters + string.digits + '._-')


def enc(s):
    return ''.join(c if c in PLAIN else '%%%02X' % ord(c) for c in s)


def enc_row(r):
    return '%d|%s' % (len(r), ';'.join(enc(c) for c in r))


def enc_rows(rs):
    return '%d:%s' % (len(rs), '/'.join(enc_row(r) for r in rs))


# spellings of one number that float() and the exact reading agree on
def spell(rng, x, places=2):
    """x: Fraction with few decimals -> one of the texts float() reads as that value"""
    neg = x < 0
    a = abs(x)
    base = ('%.' + str(places) + 'f') % float(a)
    k = rng.random()
    if k < 0.55:
        t = base
    elif k < 0.65:
        t = base.rstrip('0') if '.' in base else base             # '27.50' -> '27.5', '2.00' -> '2.'
    elif k < 0.72 and a < 1:
        t = base[1:] if base.startswith('0.') else base           # '.50'
    elif k < 0.80:
        t = base + 'e0'
    elif k < 0.86:
        t = ('%.' + str(places + 1) + 'f') % float(a * 10) + 'E-1'
    elif k < 0.92:
        t = '0' + base
    else:
        t = base[0] + '_' + base[1:] if len(base) > 1 and base[1].isdigit() else base
    t = ('-' if neg else rng.choice(['', '', '+'])) + t
    if rng.random() < 0.2:
        t = rng.choice([' ', '  ', '\t']) + t + rng.choice(['', ' '])
    return t


GARBAGE = ['', 'x', 'N/A', '--', '1,5', '1.2.3', '0x10', '1e', 'e5', '_1', '1__0', '+-1', '27.5C', '.']


def gen_case(rng):
    kind = rng.choice(['ok'] * 6 + ['count-more', 'count-less', 'bad-count', 'bad-cell', 'short-loc', 'bad-loc',
                                    'short-record', 'few-rows', 'negative-count', 'props-filled'])
    nrec = rng.choice([0, 1, 1, 2, 3, 3, 3, 4, 6])
    lat = F(rng.randint(-9000, 9000), 100)
    lon = F(rng.randint(-18000, 18000), 100)
    tz = F(rng.choice([-12, -5, -3.5, 0, 1, 5.5, 5.75, 8, 9.5, 12, 14])).limit_denominator(4)
    loc = ['LOCATION', rng.choice(['SINGAPORE', 'St. John\'s, NL', 'X']), '-', 'SGP', 'IWEC Data', '486980',
           spell(rng, lat), spell(rng, lon), spell(rng, tz), spell(rng, F(rng.randint(0, 30000), 10), 1)]
    if rng.random() < 0.2:
        loc.append('extra')
    depths = sorted(rng.sample([F(1, 2), F(2), F(4), F(1, 10), F(1), F(8), F(3, 2), F(12)], nrec))
    if rng.random() < 0.1:
        rng.shuffle(depths)
    recs = []
    for d in depths:
        props = ['', '', ''] if rng.random() < 0.6 else [spell(rng, F(rng.randint(1, 300), 100)),
                                                         spell(rng, F(rng.randint(500, 3000))),
                                                         spell(rng, F(rng.randint(500, 2000)))]
        if kind == 'props-filled':
            props = [rng.choice(GARBAGE + ['1.3', '1500', '1200']) for _ in range(3)]
        months = [spell(rng, F(rng.randint(-1500, 3500), 100)) for _ in range(12)]
        recs.append([spell(rng, d, 1)] + props + months)
    count = rng.choice(['%d', '%d', ' %d', '+%d', '0%d', '%d ']) % nrec
    flat = [c for r in recs for c in r]
    trailing = [rng.choice(GARBAGE + ['7', '1.5']) for _ in range(rng.choice([0, 0, 1, 3]))]
    if kind == 'count-more':
        count = str(nrec + rng.randint(1, 2))
    elif kind == 'count-less' and nrec:
        count = str(rng.randint(0, nrec - 1))
    elif kind == 'negative-count':
        count = str(-rng.randint(1, 3))
    elif kind == 'bad-count':
        count = rng.choice(['3.0', '', 'three', '1e0', '2.', ' ', '1_', '0x2'])
    elif kind == 'bad-cell' and flat:
        j = rng.randrange(len(flat))
        flat[j] = rng.choice(GARBAGE)
    elif kind == 'short-record' and flat:
        flat = flat[:rng.randint(max(0, len(flat) - 15), len(flat) - 1)]
        trailing = []
    ground = ['GROUND TEMPERATURES', count] + flat + trailing
    if kind == 'short-loc':
        loc = loc[:rng.randint(0, 8)]
    elif kind == 'bad-loc':
        loc[rng.choice([6, 7, 8])] = rng.choice(GARBAGE)
    hdr = [loc,
           ['DESIGN CONDITIONS', '0'],
           ['TYPICAL/EXTREME PERIODS', '0'],
           ground,
           ['HOLIDAYS/DAYLIGHT SAVINGS', 'No', '0', '0', '0'],
           ['COMMENTS 1', 'a, "b"'],
           ['COMMENTS 2', ''],
           ['DATA PERIODS', '1', '1', 'Data', 'Sunday', ' 1/ 1', '12/31']]
    if kind == 'few-rows':
        hdr = hdr[:rng.randint(0, 3)]
    return kind, hdr, dict(nrec=nrec, depths=depths, recs=recs, count=count)


def impl_header(pkg, work, idx, hdr):
    """the real _read_epw on a file holding these header rows (+ one data row)"""
    path = os.path.join(work, 'hdr%05d.epw' % idx)
    with open(path, 'w', newline='') as f:
        w = csv.writer(f, lineterminator='\n')
        for r in hdr:
            w.writerow(r)
        if len(hdr) == 8:
            w.writerow(['1989', '1', '1', '1', '60'] + ['0'] * 30)
    m = pkg.UWG(path)
    err = None
    try:
        m._read_epw()
    except IndexError:
        err = 'err index'
    except ValueError:
        err = 'err value'
    if getattr(m, 'gmt', None) is None:
        return err, None, None          # failed before the site was complete: the ground line was not reached
    site = 'ok %s %s %s' % (frac_str(m.lat), frac_str(m.lon), frac_str(m.gmt))
    if err:
        return site, err, None
    months = [x for row in m.Tsoil for x in row]
    ground = 'ok %d %s %s' % (m.nSoil, frac_list([d[0] for d in m.depth_soil]), frac_list(months))
    return site, ground, m


def oracle(kind, info, m):
    """data-dictionary reading of a well-formed line, judged on the implementation's own result"""
    if kind not in ('ok', 'props-filled') or m is None:
        return None
    if m.nSoil != info['nrec']:
        return 'nSoil %r, the line states %d records' % (m.nSoil, info['nrec'])
    for i, rec in enumerate(info['recs']):
        d = F(rec[0].strip().replace('_', ''))
        if m.depth_soil[i][0] != d:
            return 'depth of record %d read as %s, the line says %s' % (i, m.depth_soil[i][0], rec[0])
        for j in range(12):
            t = F(rec[4 + j].strip().replace('_', '')) + F('273.15')
            if m.Tsoil[i][j] != t:
                return 'record %d month %d read as %s K, the line says %s C' % (i, j + 1, m.Tsoil[i][j], rec[4 + j])
    return None


# ----------------------------------------------------------------------------- objects with a history (round 4)
HISTORIES = ('second-read-on-one-object', 'restored-from-the-dictionary-of-a-donor', 'dictionary-with-derived-keys',
             'attributes-planted-before-the-read', 'donor-read-in-between')
PARAM = 'resources/initialize_singapore.uwg'


def write_header_file(work, name, hdr):
    path = os.path.join(work, name)
    with open(path, 'w', newline='') as f:
        w = csv.writer(f, lineterminator='\n')
        for r in hdr:
            w.writerow(r)
        if len(hdr) == 8:
            w.writerow(['1989', '1', '1', '1', '60'] + ['0'] * 30)
    return path


def impl_header_history(pkg, work, idx, hdr1, hdr2, how):
    """the real _read_epw on the file with header `hdr2`, called on an object that HAS A HISTORY with another rural
    file (header `hdr1`): what the header reader hands on must be the file in force, whatever the object (or the
    dictionary it was restored from) has seen before."""
    p1 = write_header_file(work, 'hist%05da.epw' % idx, hdr1)
    p2 = write_header_file(work, 'hist%05db.epw' % idx, hdr2)
    UWG = pkg.UWG
    if how == 'second-read-on-one-object':
        m = UWG(p1)
        m._read_epw()
        m.epw_path = p2
    elif how == 'restored-from-the-dictionary-of-a-donor':
        donor = UWG.from_param_file(os.path.join(core.REPO, PARAM), epw_path=p1)
        donor._read_epw()
        m = UWG.from_dict(donor.to_dict(), epw_path=p2)
    elif how == 'dictionary-with-derived-keys':
        donor = UWG.from_param_file(os.path.join(core.REPO, PARAM), epw_path=p1)
        before = donor.to_dict()
        donor._read_epw()
        d = dict(before)
        for k in ('lat', 'lon', 'gmt', 'nSoil', 'Tsoil', 'depth_soil', 'epw_path'):
            d[k] = getattr(donor, k, None)
        d['site'] = [donor.lat, donor.lon, donor.gmt]
        m = UWG.from_dict(d, epw_path=p2)
    elif how == 'attributes-planted-before-the-read':
        donor = UWG(p1)
        donor._read_epw()
        m = UWG(p2)
        for k in ('lat', 'lon', 'gmt', 'nSoil', 'Tsoil', 'depth_soil'):
            setattr(m, k, getattr(donor, k))
    else:                                   # donor-read-in-between: another object reads another file first
        m = UWG(p2)
        donor = UWG(p1)
        donor._read_epw()
    err = None
    try:
        m._read_epw()
    except IndexError:
        err = 'err index'
    except ValueError:
        err = 'err value'
    site = 'ok %s %s %s' % (frac_str(m.lat), frac_str(m.lon), frac_str(m.gmt))
    if err:
        return site, err, None
    months = [x for row in m.Tsoil for x in row]
    ground = 'ok %d %s %s' % (m.nSoil, frac_list([d[0] for d in m.depth_soil]), frac_list(months))
    return site, ground, m


def history_cases(chk, pkg, part, n):
    """[(line, impl answer, class)] + number of oracle failures (reported as violations)"""
    rng = chk.rng
    work = chk.work()
    out, bad = [], 0
    for idx in range(n):
        how = HISTORIES[idx % len(HISTORIES)]
        while True:
            k1, hdr1, _ = gen_case(rng)
            if k1 not in ('short-loc', 'bad-loc', 'few-rows', 'bad-cell', 'short-record', 'bad-count', 'count-more'):
                break
        while True:
            k2, hdr2, info2 = gen_case(rng)
            if k2 not in ('short-loc', 'bad-loc', 'few-rows'):
                break
        site, ground, m = impl_header_history(pkg, work, idx, hdr1, hdr2, how)
        if part == 'site':
            out.append(('site hdr=' + enc_rows(hdr2), site, 'history:' + how))
            want = tuple(fracexec.TOFRAC_(hdr2[0][j].replace('_', '')) for j in (6, 7, 8))
            got = None if m is None and not site.startswith('ok') else site
            exp = 'ok %s %s %s' % tuple(frac_str(x) for x in want)
            if site != exp:
                bad += 1
                if bad <= 2:
                    chk.violation('impl-violation', 'the site handed on by the header reader is not the LOCATION line of the '
                                  'rural file in force (%s)' % how,
                                  case={'history': how, 'LOCATION line of the file read earlier / by the donor': hdr1[0],
                                        'LOCATION line of the file in force': hdr2[0]},
                                  observed=site, expected=exp)
        else:
            out.append(('ground hdr=' + enc_rows(hdr2), ground, 'history:' + how))
            if k2 in ('ok', 'props-filled'):
                msg = oracle(k2, info2, m) if m is not None else 'well-formed ground line refused (%s)' % ground
                if msg:
                    bad += 1
                    if bad <= 2:
                        chk.violation('impl-violation', 'ground-temperature line of the file in force not read as laid out '
                                      '(object with a history: %s)' % how,
                                      case={'history': how, 'ground line of the earlier file': hdr1[3],
                                            'ground line of the file in force': hdr2[3]}, observed=msg,
                                      expected='count, depths and monthly values of the file in force')
    return out, bad


def run_header(chk, part, n_quick=400, n_thorough=4000):
    """part = 'site' (C12: LOCATION cells 6..8) or 'ground' (C20: the ground-temperature line)"""
    pkg = fracexec.load()
    rng = chk.rng
    work = chk.work()
    n = n_quick if chk.tier == 'quick' else n_thorough
    cases, cls, bad, nor = [], {}, 0, 0
    for idx in range(n):
        kind, hdr, info = gen_case(rng)
        site, ground, m = impl_header(pkg, work, idx, hdr)
        if part == 'site':
            line = 'site hdr=' + enc_rows(hdr)
            cases.append((line, site))
            cls[line] = 'site:' + (kind if kind in ('short-loc', 'bad-loc', 'few-rows') else 'ok')
            continue
        if ground is None:
            continue
        line = 'ground hdr=' + enc_rows(hdr)
        cases.append((line, ground))
        cls[line] = kind
        if kind in ('ok', 'props-filled'):
            nor += 1
            msg = oracle(kind, info, m) if m is not None else 'well-formed ground line refused (%s)' % ground
            if msg:
                bad += 1
                if bad <= 2:
                    chk.violation('impl-violation',
                                  'ground-temperature line not read as the EPW data dictionary lays it out',
                                  case={'header_rows': hdr, 'kind': kind}, observed=msg,
                                  expected='record i: depth at cell 2+16i, months at cells 6+16i..17+16i, + 273.15')
    hist, hbad = history_cases(chk, pkg, part, 40 if chk.tier == 'quick' else 400)
    for line, ans, c in hist:
        cls[line] = c
    chk.direct('header-reader-on-objects-with-a-history(%s)' % part, len(hist), len(hist),
               'the REAL _read_epw (exact rationals) called on an object that has a history with ANOTHER rural file: a '
               'second read on one object after epw_path changed; an object restored with from_dict from to_dict() of a '
               'donor that had read the other file; a dictionary carrying keys named like the derived attributes (lat, '
               'lon, gmt, nSoil, Tsoil, depth_soil, site, epw_path) of such a donor; those attributes planted on the '
               'object before the read; another object reading the other file in between. Oracle: %s are those of the '
               'file in force; the same cases also run through the exact tie below'
               % ('latitude, longitude, time zone' if part == 'site' else 'count, depths and monthly ground temperatures'),
               mismatches=hbad, branches={c: sum(1 for x in hist if x[2] == c) for c in sorted(set(x[2] for x in hist))})
    cases += [(line, ans) for line, ans, _ in hist]
    if part == 'site':
        chk.correspond('UWG._read_epw(site)~readSite', 'EpwHeader', cases,
                       rule='the REAL _read_epw (exact rationals) on written files with generated header rows vs Lean '
                            'readSite on line 1: latitude, longitude, time zone = cells 6, 7, 8 in every spelling '
                            'float() reads (blank-padded, signed, exponent, underscores, fractional zones), or the '
                            'exception class for a short / non-numeric LOCATION line or a missing line',
                       classify=lambda line, impl: cls[line])
        return
    chk.correspond('UWG._read_epw(ground)~readGround', 'EpwHeader', cases,
                   rule='the REAL _read_epw (exact rationals) on written files with generated header rows vs Lean '
                        'readGround on line 4: nSoil, every depth and every monthly value, or the exception class; '
                        '0..6 ground records, shuffled depths, filled / garbage soil-property cells, trailing cells, '
                        'count cell spellings (blank-padded, signed, zero-padded), count larger / smaller than the '
                        'records, negative count, non-numeric cells, short records; numbers in every spelling '
                        'float() reads',
                   classify=lambda line, impl: cls[line])
    chk.direct('ground-line-oracle(data dictionary)', nor, nor,
               'the result of the real _read_epw on well-formed lines equals the stated count, depths and monthly '
               'values (+273.15) whatever the soil-property and trailing cells hold', mismatches=bad)
