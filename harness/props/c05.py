"""C05 - results are a pure function of parameters and rural file.

Round 5 (harness/v1_util.py): size sequences - models whose derived sizes differ (padded soil slices, ground records,
stock rows, district height) generated larger-then-smaller and smaller-then-larger in one interpreter vs fresh interpreters."""
import ast
import hashlib
import os
import subprocess
import sys

import core
import uwgutil as U
from props.c17 import Tracker, apply_op, STOCK

MODULE = 'UwgVerif.Props.C05'
THEOREMS = ['Uwg.C05.noninterference', 'Uwg.C05.deterministic', 'Uwg.C05.repeatable',
            'Uwg.C05.asis_shared_library_breaks']

MUTATORS = {'append', 'extend', 'insert', 'pop', 'remove', 'clear', 'update', 'sort', 'reverse',
            'setdefault', 'popitem', 'add', 'discard', '__setitem__'}


def static_scan(repo):
    """Syntactic half of the frame condition: no function body assigns to, augments or calls a
    mutator on a module-level or class-level name of the package."""
    hits, nfuncs = [], 0
    pk = os.path.join(repo, 'uwg')
    for root, _, files in os.walk(pk):
        for fn in sorted(files):
            if not fn.endswith('.py'):
                continue
            path = os.path.join(root, fn)
            src = open(path, 'rb').read().decode('utf-8', 'ignore')
            tree = ast.parse(src)
            modnames = set()
            classnames = set()
            for node in tree.body:
                if isinstance(node, ast.Assign):
                    for t in node.targets:
                        if isinstance(t, ast.Name):
                            modnames.add(t.id)
                elif isinstance(node, ast.ClassDef):
                    classnames.add(node.name)
                elif isinstance(node, (ast.Import, ast.ImportFrom)):
                    for al in node.names:
                        nm = (al.asname or al.name).split('.')[0]
                        if nm[:1].isupper():
                            classnames.add(nm)
            shared = modnames | classnames | {'cls'}

            def root_name(n):
                while isinstance(n, (ast.Attribute, ast.Subscript)):
                    n = n.value
                return n.id if isinstance(n, ast.Name) else None

            for fnode in ast.walk(tree):
                if not isinstance(fnode, (ast.FunctionDef, ast.AsyncFunctionDef)):
                    continue
                nfuncs += 1
                local = {a.arg for a in fnode.args.args + fnode.args.kwonlyargs}
                for n in ast.walk(fnode):
                    if isinstance(n, ast.Assign):
                        for t in n.targets:
                            if isinstance(t, ast.Name):
                                local.add(t.id)
                for n in ast.walk(fnode):
                    tgt = None
                    if isinstance(n, ast.Global):
                        hits.append('%s:%d global %s' % (fn, n.lineno, ','.join(n.names)))
                    elif isinstance(n, (ast.Assign, ast.AugAssign, ast.Delete)):
                        ts = n.targets if not isinstance(n, ast.AugAssign) else [n.target]
                        for t in ts:
                            if isinstance(t, (ast.Attribute, ast.Subscript)):
                                r = root_name(t)
                                if r in shared and r not in (local - {'cls'}):
                                    hits.append('%s:%d writes %s' % (fn, n.lineno, ast.unparse(t)[:60]))
                    elif isinstance(n, ast.Call) and isinstance(n.func, ast.Attribute) and \
                            n.func.attr in MUTATORS:
                        r = root_name(n.func.value)
                        if r in shared and r not in (local - {'cls'}):
                            hits.append('%s:%d mutates %s' % (fn, n.lineno, ast.unparse(n.func)[:60]))
    return hits, nfuncs


CHILD = r'''
import sys, os, hashlib
sys.path.insert(0, os.environ["UWG_REPO_"])
sys.path.insert(0, os.environ["HARNESS_"])
import io, contextlib
import uwgutil as U, core
cfg = eval(os.environ["CFG_"])
with contextlib.redirect_stdout(io.StringIO()):
    m = U.new_model(outdir=os.environ["OUT_"], outname="child.epw", **cfg)
    m.generate(); m.simulate(); m.write_epw()
print(hashlib.sha256(open(m.new_epw_path, "rb").read()).hexdigest(), hashlib.sha256(repr(U.records(m)).encode()).hexdigest())
'''


CHILD_CUSTOM = r'''
import sys, os, json
sys.path.insert(0, os.environ["UWG_REPO_"])
sys.path.insert(0, os.environ["HARNESS_"])
import s2_util as S
out = {}
for name in eval(os.environ["CFGS_"]):
    o, m = S.run_custom(name, os.environ["OUT_"], "childc_%s.epw" % os.environ["TAG_"],
                        simulate=(name in eval(os.environ["SIM_"])))
    out[name] = o
print("RESULT " + json.dumps(out))
'''


def custom_vector_purity(chk, work):
    """(e) models with custom reference vectors: >= 3 new (non-DOE) types of different wall emissivity, a first
    and a revised custom of one type + era, customs in another listing order. What generate() makes of equal
    parameters (order of BEM / Sch, which custom stands for a repeated type + era, bit-exact digest of the generated
    state) and what a simulation writes must not depend on the hash seed, on the addresses at which the allocator
    puts the parameter objects, or on other models alive in the interpreter."""
    import json
    import s2_util as S
    rng = chk.rng
    uwg = U.uwg_mod()
    quick = chk.tier == 'quick'
    cfgs = list(S.CUSTOM_CONFIGS[:3] if quick else S.CUSTOM_CONFIGS)
    sim_cfgs = cfgs[:1] if quick else cfgs
    reps = 5 if quick else 16
    bad, nruns = 0, 0
    keep = []

    def differs(name, how, got, ref):
        nonlocal bad
        bad += 1
        for key in ('order', 'digest', 'records', 'epw'):
            if key in got and key in ref and got[key] != ref[key]:
                break
        obs = got.get(key)
        exp = ref.get(key)
        if key == 'order':
            obs = [' '.join(x[:3]) + ' e_wall=%s cop=%s' % (x[3], x[4]) for x in got['order']]
            exp = [' '.join(x[:3]) + ' e_wall=%s cop=%s' % (x[3], x[4]) for x in ref['order']]
        spec, extra, zone, month = S.custom_config(name)
        chk.violation('impl-violation', 'purity with custom reference vectors: %s differs from the first fresh '
                      'model (%s)' % (how, key),
                      case={'configuration': name, 'customs (in listing order)': [
                          {k: v for k, v in sp.items() if k != 'src'} for sp in spec], 'zone': zone,
                          'bld': S.bld_for(spec, extra)},
                      observed={key: obs}, expected={key: exp})

    refs = {}
    for name in cfgs:
        refs[name], m0 = S.run_custom(name, work, 'cv_%s.epw' % name.replace('+', '_'), simulate=name in sim_cfgs)
        keep.append(m0)
        nruns += 1
    # in one interpreter: new parameter objects every time, other allocations and other models in between
    for r in range(reps):
        for name in cfgs:
            S.churn(rng, uwg, keep)
            if rng.random() < 0.5:
                other, mo = S.run_custom(rng.choice([c for c in S.CUSTOM_CONFIGS if c != name]), work, 'cv_o.epw')
                if rng.random() < 0.5:
                    keep.append(mo)
            got, m = S.run_custom(name, work, 'cv_r.epw', simulate=(name in sim_cfgs and r == reps - 1))
            if rng.random() < 0.4:
                keep.append(m)
            nruns += 1
            if any(got[k] != refs[name][k] for k in got):
                differs(name, 'fresh model %d in the same interpreter' % (r + 1), got, refs[name])
    # other processes / hash seeds (started together)
    seeds = ['0', '1', '12345'] if quick else ['0', '1', '2', '3', '12345', 'random']
    procs = []
    for hs in seeds:
        env = dict(os.environ, PYTHONHASHSEED=hs, UWG_REPO_=core.REPO, UWG_REPO=core.REPO,
                   HARNESS_=os.path.join(core.VERIF, 'harness'), CFGS_=repr(cfgs), SIM_=repr(sim_cfgs),
                   OUT_=work, TAG_=hs, PYTHONDONTWRITEBYTECODE='1')
        procs.append((hs, subprocess.Popen([sys.executable, '-c', CHILD_CUSTOM], stdout=subprocess.PIPE,
                                           stderr=subprocess.PIPE, text=True, env=env)))
    for hs, p in procs:
        so, se = p.communicate(timeout=900)
        line = [l for l in so.split('\n') if l.startswith('RESULT ')]
        if p.returncode != 0 or not line:
            if 'uwg' + os.sep in se and 'Traceback' in se:
                bad += 1
                chk.violation('impl-violation', 'purity with custom reference vectors: a fresh process fails',
                              case={'PYTHONHASHSEED': hs, 'configurations': cfgs}, observed=se[-600:],
                              expected='the same results as in this process')
                continue
            raise core.Infra('child process failed: ' + se[-400:])
        res = json.loads(line[0][7:])
        for name in cfgs:
            nruns += 1
            got = res[name]
            if any(got[k] != refs[name][k] for k in got):
                differs(name, 'process with PYTHONHASHSEED=%s' % hs, got, refs[name])
    chk.direct('custom-vectors: fresh-models-vs-heap-layout-vs-process', nruns, nruns,
               'parameter sets with custom reference vectors (%s): three / five new non-DOE types with wall '
               'emissivities 0.9, 0.25, 0.6, 0.45, 0.75, a first and a revised custom of one DOE type+era and of '
               'one new type+era, three customs of one type+era interleaved with an override, a reversed listing. '
               'The first fresh model is compared with %d further fresh models per configuration built from NEW '
               'parameter objects in the same interpreter after random allocations / other custom models '
               'generated and kept alive in between (heap layout changes), and with fresh processes under '
               'PYTHONHASHSEED %s: order of BEM (type, era, which custom, wall emissivity, cop, fraction), '
               'bit-exact digest of the generated state; %s also simulated 1 day: hourly records and EPW bytes'
               % (', '.join(cfgs), reps, '/'.join(seeds), ', '.join(sim_cfgs)), mismatches=bad,
               branches={'in-process': (reps + 1) * len(cfgs), 'processes': len(seeds) * len(cfgs)})


CHILD_ENV_RUN = r"""
import sys, hashlib, io, contextlib
sys.path.insert(0, os.environ["UWG_REPO_"])
sys.path.insert(0, os.environ["HARNESS_"])
import uwgutil as U
cfg = eval(os.environ["CFG_"])
with contextlib.redirect_stdout(io.StringIO()):
    m = U.new_model(outdir=os.environ["OUT_"], outname=os.environ["OUTNAME_"], **cfg)
    m.generate(); m.simulate(); m.write_epw()
print("RESULT", hashlib.sha256(open(m.new_epw_path, "rb").read()).hexdigest(),
      hashlib.sha256(repr(U.records(m)).encode()).hexdigest(), m.simTime.timeInitial, m.simTime.julian)
"""


def first_difference(got, ref):
    """where two files differ: lengths, first differing offset, the lines there"""
    n = next((i for i in range(min(len(got), len(ref))) if got[i] != ref[i]), min(len(got), len(ref)))
    line = got.count(b'\n', 0, n) + 1

    def around(b):
        a = b.rfind(b'\n', 0, n) + 1
        e = b.find(b'\n', n)
        return b[a:e if e >= 0 else len(b)][:160].decode('utf-8', 'replace')
    return {'bytes written': len(got), 'bytes of the reference': len(ref), 'first differing byte': n, 'line': line,
            'line there (this run)': around(got), 'line there (reference)': around(ref)}


def environment_purity(chk, work):
    """(f) the environment of the process as a hidden input. A fresh model with the same parameters and the same rural
    file must write the same bytes and hold the same records whatever the wall clock says (leap years, 29 February,
    the epoch, 2100), whatever the time zone, working directory, umask, locale and hash seed are, and whatever is
    already stored under the output name (nothing, an empty file, a shorter one, a longer morphed file of another
    model, much longer text, binary data, the model's own earlier output)."""
    import t1_util as T1
    rng = chk.rng
    quick = chk.tier == 'quick'
    # start dates from March on / crossing the end of February: where a calendar laid out on the current year shows
    cfgs = [dict(nday=1, dtsim=300, month=rng.choice([3, 5, 8, 11]), day=rng.randint(1, 28), sensanth=rng.choice([5, 20]))]
    if not quick:
        cfgs += [dict(nday=2, dtsim=300, month=2, day=28), dict(nday=1, dtsim=200, month=12, day=31),
                 dict(nday=1, dtsim=300, month=1, day=rng.randint(1, 28))]
    bad = nruns = 0
    kinds = {}
    for ci, cfg in enumerate(cfgs):
        d0 = os.path.join(work, 'env%d_ref' % ci)
        os.makedirs(d0, exist_ok=True)
        ref = run_full(cfg, d0, 'ref.epw')
        ref_bytes = open(os.path.join(d0, 'ref.epw'), 'rb').read()
        # a longer morphed file written by ANOTHER model (other canyon, more decimals)
        run_full(dict(cfg, epw_precision=3, bldheight=25, sensanth=12), d0, 'other.epw')
        other_bytes = open(os.path.join(d0, 'other.epw'), 'rb').read()
        members = T1.env_members(rng, work, 8 if quick else 24)
        procs = []
        for k, mb in enumerate(members):
            d = os.path.join(work, 'env%d_%d' % (ci, k))
            os.makedirs(d, exist_ok=True)
            T1.prepare_output(os.path.join(d, 'morphed.epw'), mb.get('pre'), ref_bytes, other_bytes)
            env = T1.env_of(mb, dict(os.environ, UWG_REPO_=core.REPO, UWG_REPO=core.REPO,
                                     HARNESS_=os.path.join(core.VERIF, 'harness'), CFG_=repr(cfg), OUT_=d,
                                     OUTNAME_='morphed.epw', PYTHONDONTWRITEBYTECODE='1'))
            procs.append((mb, d, subprocess.Popen([sys.executable, '-c', T1.ENV_PRELUDE + CHILD_ENV_RUN],
                                                  stdout=subprocess.PIPE, stderr=subprocess.PIPE, text=True, env=env)))
            if len(procs) % 8 == 0:
                for _, _, p in procs[-8:]:
                    p.wait(timeout=900)
        for mb, d, p in procs:
            so, se = p.communicate(timeout=900)
            nruns += 1
            for key in ('clock', 'tz', 'cwd', 'umask', 'locale', 'hashseed', 'pre'):
                if mb.get(key):
                    kinds[key] = kinds.get(key, 0) + 1
            line = [l for l in so.split('\n') if l.startswith('RESULT ')]
            envdesc = {k: (v[0] if k == 'clock' else v) for k, v in mb.items() if k != 'label'}
            case = {'params': cfg, 'environment': envdesc,
                    'pre-existing content of the output name': mb.get('pre', 'absent'),
                    'how': 'child process: t1_util.ENV_PRELUDE (fake wall clock installed in time / datetime before '
                           'the package is imported; TZ, cwd, umask, locale, PYTHONHASHSEED) + new_model; generate; '
                           'simulate; write_epw'}
            if p.returncode != 0 or not line:
                if 'uwg' + os.sep in se and 'Traceback' in se:
                    bad += 1
                    chk.violation('impl-violation', 'purity: a fresh model fails in another environment (%s)' % mb['label'],
                                  case=case, observed=se[-600:], expected='the same results as in this process')
                    continue
                raise core.Infra('environment child process failed: ' + se[-400:])
            got = tuple(line[0].split()[1:3])
            if got != ref:
                bad += 1
                if bad <= 3:
                    what = 'weather file' if got[0] != ref[0] else 'hourly records'
                    obs = {'sha256(file, records)': got, 'first data row read (timeInitial), start day of year':
                           line[0].split()[3:5]}
                    if got[0] != ref[0]:
                        obs.update(first_difference(open(os.path.join(d, 'morphed.epw'), 'rb').read(), ref_bytes))
                    chk.violation('impl-violation', 'purity: the %s of a fresh model depends on the environment (%s)'
                                  % (what, mb['label']), case=case, observed=obs,
                                  expected={'sha256(file, records)': ref,
                                            'of': 'the same parameters run in this process (real clock, new output name)'})
    chk.direct('environment-as-hidden-input(fresh processes)', nruns, nruns,
               'the same parameters (start dates from March on; thorough: also a window crossing 28 Feb, 31 Dec, a '
               'January day) and the same rural file run in fresh processes under other environments, against the run '
               'in this process: wall-clock dates 2028-03-01 / 2028-02-29 / 2032-12-31 23:59 (leap years), 2027, 2024-12-31, '
               '2000-01-01, 1970-01-02, 2038-01-19, 2100 (fake clock installed in `time` and `datetime` before the '
               'package is imported); TZ UTC / Pacific/Kiritimati / America/Los_Angeles / Asia/Kolkata / Europe/Berlin '
               '/ Pacific/Pago_Pago; cwd /, /tmp, a directory with a blank; umask 000 / 022 / 027 / 077; locale C / '
               'C.UTF-8 / de_DE.UTF-8 / tr_TR.UTF-8 / POSIX; PYTHONHASHSEED values; and what is stored under the '
               'output name beforehand: nothing, an empty file, a shorter file, a LONGER morphed file of another model '
               '(epw_precision 3), much longer text, longer binary data, the own earlier output. Written bytes and '
               'hourly records must be identical in every one', mismatches=bad, branches=kinds)


def host_setting_purity(chk, work):
    """(f2) settings of the HOST application as hidden inputs: the decimal context of the thread (rounding mode,
    precision, traps), the `warnings` filters (-W error, PYTHONWARNINGS, simplefilter), LC_NUMERIC, interpreter settings.
    None of them is a parameter or part of the rural file: a fresh model must write the same bytes and hold the same
    records in an interpreter where the host has changed them at start-up."""
    import x1_util as X1
    rng = chk.rng
    quick = chk.tier == 'quick'
    cfgs = [dict(nday=1, dtsim=300, month=rng.choice([1, 4, 7, 10]), day=rng.randint(1, 28), sensanth=rng.choice([5, 20]))]
    if not quick:
        cfgs += [dict(nday=2, dtsim=300, month=2, day=28, epw_precision=3),
                 dict(nday=1, dtsim=200, month=12, day=31, epw_precision=0)]
    bad = nruns = 0
    kinds = {}
    for ci, cfg in enumerate(cfgs):
        d0 = os.path.join(work, 'host%d' % ci)
        os.makedirs(d0, exist_ok=True)
        ref = run_full(cfg, d0, 'ref.epw')
        ref_bytes = open(os.path.join(d0, 'ref.epw'), 'rb').read()
        members = X1.host_members(rng, 8 if quick else len(X1.HOST_SETTINGS))
        env = dict(os.environ, UWG_REPO_=core.REPO, UWG_REPO=core.REPO, HARNESS_=os.path.join(core.VERIF, 'harness'),
                   CFG_=repr(cfg), OUT_=d0, PYTHONDONTWRITEBYTECODE='1')
        res = X1.run_host_children(members, CHILD_ENV_RUN, env,
                                   per_member_env=lambda k, mb: {'OUTNAME_': 'm%d.epw' % k})
        for k, (mb, rc, so, se) in enumerate(res):
            nruns += 1
            kinds[mb['kind']] = kinds.get(mb['kind'], 0) + 1
            line = [l for l in so.split('\n') if l.startswith('RESULT ')]
            case = {'params': cfg, 'host setting': mb['label'],
                    'start-up code of the host': mb.get('code', ''), 'interpreter flags': mb.get('argv', []),
                    'environment variables': mb.get('env', {}),
                    'how': 'fresh interpreter: [python] + flags + -c (x1_util.HOST_PRELUDE: the start-up code, before '
                           'anything of uwg is imported) + new_model; generate; simulate; write_epw'}
            if rc != 0 or not line:
                if ('uwg' + os.sep in se and 'Traceback' in se) or 'uwg' in se.split('Traceback')[-1]:
                    bad += 1
                    if bad <= 3:
                        chk.violation('impl-violation', 'purity: a fresh model fails under a setting of the host application (%s)'
                                      % mb['label'], case=case, observed=se[-600:],
                                      expected='the same results as in this process')
                    continue
                raise core.Infra('host-setting child process failed (%s): %s' % (mb['label'], se[-400:]))
            got = tuple(line[0].split()[1:3])
            if got != ref:
                bad += 1
                if bad <= 3:
                    what = 'weather file' if got[0] != ref[0] else 'hourly records'
                    obs = {'sha256(file, records)': got}
                    if got[0] != ref[0]:
                        obs.update(first_difference(open(os.path.join(d0, 'm%d.epw' % k), 'rb').read(), ref_bytes))
                    chk.violation('impl-violation', 'purity: the %s of a fresh model depends on a setting of the host '
                                  'application (%s)' % (what, mb['label']), case=case, observed=obs,
                                  expected={'sha256(file, records)': ref,
                                            'of': 'the same parameters run in this process (default settings)'})
    chk.direct('host-settings-as-hidden-inputs(decimal context, warnings filters, LC_NUMERIC, interpreter settings)', nruns, nruns,
               'the same parameters and rural file run in fresh interpreters in which the HOST application has, at start-up '
               'and before importing uwg, changed a process- / thread-wide Python setting: the decimal context (rounding '
               'ROUND_DOWN / ROUND_FLOOR / ROUND_CEILING / ROUND_UP / ROUND_05UP / ROUND_HALF_DOWN, prec 3 / 6, BasicContext, '
               'traps Inexact + Rounded, Emax 9, DefaultContext), warnings as errors (python -W error, PYTHONWARNINGS=error, '
               'warnings.simplefilter) and -X dev -W always, LC_NUMERIC with a decimal comma, sys.set_int_max_str_digits / '
               'recursion limit / gc disabled / switch interval, -X utf8=0 -B (quick: 8 of the 14, at least two decimal and two '
               'warnings members; thorough: all, also at epw_precision 0 and 3). Written bytes and hourly records must equal '
               'the run in this process', mismatches=bad, branches=kinds)


def circumstance_purity(chk, work):
    """(g) circumstances that are neither a parameter nor part of the rural file (harness/generic.py, applied through
    u1_util): the output of a fresh model must not depend on who looks at the objects, on the logging level, on the
    interpreter mode, on the route the parameters take, on another model in the process or on what the caller does with
    its own data afterwards."""
    import u1_util as U1
    rng = chk.rng
    quick = chk.tier == 'quick'
    epw = U.rp(U.EPW_SGP)
    scen = [('shipped parameters', None, [('month', rng.choice([2, 5, 8, 11])), ('day', rng.randint(1, 28)), ('nday', 1),
                                          ('dtsim', 300), ('sensanth', rng.choice([5, 20]))]),
            ('custom vectors new3 (three new types listed after a DOE type)', 'new3', [('nday', 1), ('dtsim', 300)])]
    if not quick:
        scen += [('custom vectors revised3', 'revised3', [('nday', 1), ('dtsim', 300)]),
                 ('custom vectors new3-reversed', 'new3-reversed', [('nday', 2), ('dtsim', 300)]),
                 ('shipped parameters, 2 days over a month end', None, [('month', 4), ('day', 30), ('nday', 2),
                                                                        ('dtsim', 200)])]
    n = bad = 0
    br = {}
    for si, (label, custom, attrs) in enumerate(scen):
        d = os.path.join(work, 'circ%d' % si)
        sp = U1.spec(epw, attrs=attrs, outdir=d, outname='m.epw', custom=custom)
        other = U1.spec(epw, attrs=[('month', 7), ('day', 2), ('nday', 1), ('dtsim', 300), ('bldheight', 30),
                                    ('zone', '5A')], outname='other.epw', label='other canyon, other zone, other window')
        out = U1.run_circumstances(d, sp, other, tag='c%d' % si)
        plain = out[0][1]
        if custom and si == 1:
            live = U1.schedule_lists_are_live(sp)
            chk.measurements['caller_dictionary_schedule_lists_are_the_generated_models_schedules'] = live
            if live:
                chk.notes.append('observation (unchanged tree, not a C05 verdict): SchDef keeps the week lists it is given and '
                                 'generate() installs the custom SchDef object itself, so after from_dict + generate() the '
                                 'lists inside the caller\'s ref_sch_vector dictionary ARE the schedules simulate() reads; '
                                 'editing them in place afterwards changes the run (custom BEMDef objects are deep-copied). '
                                 'The caller-data member leaves those lists alone.')
        for nm, r, msgs in out:
            n += 1
            br[nm] = br.get(nm, 0) + 1
            msg = None
            if msgs:
                msg = (msgs[0], None, 'no trace')
            elif nm == 'plain' and r.error:
                msg = ('the plain run did not complete (%s)' % r.stage, r.error, 'a written file')
            elif nm not in ('plain', U1.DICT_PLAIN):
                msg = U1.against_plain(U1.reference_for(out, nm), r)
            if msg:
                bad += 1
                if bad <= 3:
                    chk.violation('impl-violation', 'purity: the output of a fresh model depends on a circumstance that is '
                                  'neither a parameter nor the rural file (%s)' % nm,
                                  case={'circumstance': nm, 'route': r.route, 'parameters': label, 'attributes': attrs,
                                        'custom configuration (s2_util.custom_config)': custom,
                                        'BEM / Sch order in this run': [(r.info or {}).get('bem'), (r.info or {}).get('sch')],
                                        'BEM / Sch order in the plain run': [(plain.info or {}).get('bem'),
                                                                             (plain.info or {}).get('sch')],
                                        'how': 'harness/u1_util.py run_circumstances(spec)'},
                                  observed={'what': msg[0], 'this run': msg[1]}, expected={'plain run': msg[2]})
    chk.direct('circumstances-as-hidden-inputs(observers, DEBUG, python -O, command line, neighbours, caller data)', n, n,
               'a fresh model of the shipped parameters and one with custom reference vectors whose new types are listed '
               'after a DOE type (thorough: three custom configurations, a 2-day month-crossing run), 1 day, run (1) plainly, '
               '(2) while repr / str / ToString of the model and of every reachable uwg object is taken after construction, '
               'after generate(), every 41st step of simulate(), after simulate() and after write_epw(), (3) with DEBUG '
               'logging on the root and every uwg logger (as another model\'s set-up may have configured it), (4) in a '
               'fresh `python -O` interpreter, (5) through `python [-O] -m uwg simulate model` (JSON of to_dict incl. the '
               'custom vectors, also with every whole number typed without a decimal point) and `simulate param`, (6) interleaved with a different model and with the digest of all '
               'module-level / class-level data taken before and after, (7) from the caller\'s own dictionary, which '
               'from_dict must leave untouched and which is scribbled over after generate(); the custom vectors handed in '
               'must keep their digest and the records kept from the run must not change when the object runs again. '
               'Hourly records (14 + 3 fields, bit-exact) and written bytes must equal (1) - for the members that travel as a '
               'dictionary of a model with custom vectors: the plain run of the dictionary route (an attribute re-assigned on a '
               'custom object after construction, e.g. `cop`, is re-derived by from_dict: DESIGN 3.1)', mismatches=bad, branches=br)


def size_sequences(chk, work):
    """(h) round 5: models whose DERIVED sizes differ, one after the other in one interpreter. A routine that keeps a
    list it has grown for an earlier model (a mutable default argument, a module-level buffer, a memo keyed too coarsely)
    hands the next model too many - or too few - slices / levels / rows. Every configuration is generated after a LARGER
    and after a SMALLER one (palindromic order) and must be, bit for bit, the model the same parameters give as the first
    and only model of a fresh interpreter; the last model (shipped parameters again) is simulated and written as well."""
    import json
    from concurrent.futures import ThreadPoolExecutor
    import u1_util as U1
    import v1_util as V
    rng = chk.rng
    quick = chk.tier == 'quick'
    import s1_util as S1
    base = S1.load_epw(U.rp(U.EPW_SGP))
    files = V.size_rural_files(base, work)
    window = (rng.choice([1, 4, 7, 10]), rng.randint(1, 28), 1, 300)
    pad = ['P28', 'P8', 'P4', 'S', 'P4', 'P8', 'P28']             # padding: larger -> smaller -> larger
    seq = ['G30'] + pad + ['G6']
    others = [['B5', 'B1', 'B5'], ['Hhi', 'Hlo', 'Hhi'], ['B1', 'B5', 'B1'], ['Hlo', 'Hhi', 'Hlo']]
    seq += rng.choice(others) if quick else sum(others, []) + ['G30', 'G6', 'S', 'G30']
    seq += ['S']                                                   # simulated
    keys = sorted(set(seq))
    # references: each configuration as the first and only model of a fresh interpreter (started now, collected later)
    ex = ThreadPoolExecutor(max_workers=min(10, len(keys)))
    futs = {k: ex.submit(U1.call_child, os.path.join(work, 'sizeref_' + k), 'v1_util:child_size_run',
                         dict(key=k, epw=files[k], outdir=os.path.join(work, 'sizeref_' + k), outname='ref.epw',
                              simulate=(k == 'S'), window=list(window)), False, 'size') for k in keys}
    got = []
    keep = []
    for i, k in enumerate(seq):
        last = i == len(seq) - 1
        got.append(V.size_run(k, files[k], os.path.join(work, 'sizeseq'), 'm%d.epw' % i, simulate=last, window=window))
    refs = {k: f.result() for k, f in futs.items()}
    ex.shutdown()
    bad = n = 0
    br = {}
    for i, (k, g) in enumerate(zip(seq, got)):
        n += 1
        ref = refs[k]
        rel = 'first' if i == 0 else ('after %s' % seq[i - 1])
        br[k] = br.get(k, 0) + 1
        if isinstance(ref, dict) and 'child_error' in ref:
            bad += 1
            chk.violation('impl-violation', 'purity: a fresh interpreter fails on an accepted parameter set',
                          case={'configuration': V.SIZE_BY_KEY[k][1]}, observed=ref['child_error'][-400:], expected='a model')
            continue
        diff = [f for f in g if f != 'raised' and g[f] != ref.get(f)]
        if 'raised' in g or diff:
            bad += 1
            if bad <= 3:
                chk.violation('impl-violation', 'purity: a model generated after other models of other sizes differs from the same '
                              'parameters in a fresh interpreter (%s)' % (', '.join(diff[:4]) or 'raised'),
                              case={'configuration': V.SIZE_BY_KEY[k][1], 'parameters': V.SIZE_BY_KEY[k][3],
                                    'ground depths of the rural file': V.SIZE_BY_KEY[k][2] or 'shipped (0.5 / 2 / 4 m)',
                                    'window (month, day, nday, dtsim)': list(window), 'position in the sequence': i,
                                    'models generated before it in this interpreter (in order)':
                                        [V.SIZE_BY_KEY[x][1] for x in seq[:i]],
                                    'how': 'harness/props/c05.py size_sequences; v1_util.size_run'},
                              observed={f: g.get(f) for f in (diff or ['raised'])},
                              expected={f: ref.get(f) for f in diff} or 'the model of a fresh interpreter')
    chk.direct('size sequences: larger-then-smaller and smaller-then-larger models in one interpreter vs fresh interpreters', n, len(keys),
               'configurations whose derived sizes differ - soil slices padded below the pavement (pavement 0.62 / 0.1 / 0.3 / '
               '0.5 m: 28 / 8 / 4 / 0 slices; a rural file whose first ground depth is 2 m: 30; six ground depths), stock rows '
               '(1 / 5), district height and extent (buildings 40 m, reference height 300 m, 4 km vs 4 m, 60 m, 250 m) - '
               'generated one after the other in this interpreter in palindromic orders (each after a larger and after a smaller '
               'one; quick: the padding family + one random other family, thorough: all), each compared with the SAME '
               'parameters as the first and only model of a fresh interpreter: slices and depth of road and rural ground, '
               'ground-depth indices, buildings, wall slices, levels of the vertical column, bit-exact digest of everything a '
               'simulation starts from; the last model (shipped parameters after all the others) is also simulated and written: '
               'hourly records and file bytes', mismatches=bad, branches=br)


def run_full(cfg, outdir, name):
    m = U.new_model(outdir=outdir, outname=name, **cfg)
    with core.quiet():
        m.generate()
        m.simulate()
        m.write_epw()
    return (hashlib.sha256(open(m.new_epw_path, 'rb').read()).hexdigest(),
            hashlib.sha256(repr(U.records(m)).encode()).hexdigest())


def run(chk):
    chk.proof(MODULE, THEOREMS)
    if chk.tier == 'thorough':
        chk.leanchecker([MODULE])
    uwg = U.uwg_mod()
    work = chk.work()
    rng = chk.rng

    # (a) frame condition, syntactic half
    hits, nfuncs = static_scan(core.REPO)
    if hits:
        chk.corr_problems.append({'tie': 'frame-scan', 'case': '; '.join(hits[:5]), 'impl': 'writes to '
                                  'class/module-level state inside a function', 'model': 'operations write '
                                  'only their own object'})
    chk.direct('frame-scan(AST)', nfuncs, nfuncs,
               'every function body of uwg/*.py scanned for global statements, assignments to and mutator '
               'calls on module-level / class-level names (none allowed)', mismatches=len(hits),
               samples=hits[:3] or ['no write to shared state in %d function bodies' % nfuncs])

    # (b)+(c) interleavings of two different models: abstraction vs toy world machine, and
    # package-level state digest unchanged by every operation
    nseq = 3 if chk.tier == 'quick' else 25
    cases, bad_glob = [], 0
    g0, nglob = U.package_globals_digest(uwg)
    for s in range(nseq):
        ms = [U.new_model(outdir=work, outname='w%d.epw' % i, nday=1, dtsim=300, bld=STOCK, zone='1A',
                          sensanth=[10, 30][i]) for i in range(2)]
        trs = [Tracker(uwg, 0), Tracker(uwg, 0)]
        texts, trace = [], []
        pend = {0: ['gen', 'sim'], 1: ['gen', 'sim']}
        ops = []
        for _ in range(rng.randint(4, 8)):
            i = rng.randint(0, 1)
            r = rng.random()
            op = ('gen',) if r < 0.3 else ('sim',) if r < 0.55 else ('setg', rng.choice([0, 1000, 333])) \
                if r < 0.75 else ('unsetg',) if r < 0.85 else ('seta', rng.choice([0, 500]))
            ops.append((i, op))
        ops += [(0, ('gen',)), (1, ('gen',)), (0, ('sim',)), (1, ('sim',))]
        for i, op in ops:
            apply_op(ms[i], trs[i], op)
            trace.append(trs[i].obj(ms[i]))
            texts.append(':'.join([str(i)] + [str(x) for x in op]))
            g, _ = U.package_globals_digest(uwg)
            if g != g0:
                bad_glob += 1
                chk.violation('impl-violation', 'frame monitor: package-level state changed by an operation',
                              case={'ops': texts}, observed='digest of module/class-level data changed',
                              expected='unchanged')
                g0 = g
        cases.append(('world n=2 asis=0 ref=[1000;1001] ops=[%s]' % ';'.join(texts), 'ok ' + '|'.join(trace)))
    chk.correspond('two-UWG-objects-interleaved~world-machine', 'C17', cases,
                   rule='random interleavings of set/generate/simulate on two different real UWG objects in one '
                        'interpreter; after every operation the addressed object\'s abstraction must equal the '
                        'Lean world machine (each object owns its library)',
                   classify=lambda l, a: 'ops%d' % l.count(':'))
    chk.direct('frame-monitor(dynamic)', sum(c[0].count(';') + 1 for c in cases), nglob,
               'bit-exact digest of all %d module-level / class-level data objects of the package before and '
               'after every operation of the interleavings' % nglob, mismatches=bad_glob)

    # (d) differential: isolated vs repeated vs interleaved vs other processes / hash seeds
    ncfg = 1 if chk.tier == 'quick' else 5
    bad = 0
    nruns = 0
    for c in range(ncfg):
        cfg = dict(nday=1, dtsim=rng.choice([300, 150, 200]), month=rng.choice([1, 4, 7, 10]),
                   day=rng.randint(1, 28), sensanth=rng.choice([5, 20, 35]),
                   glzr=rng.choice([None, 0.0, 0.5]))
        other = dict(nday=1, dtsim=300, month=7, bldheight=30, zone='5A')
        ref = run_full(cfg, work, 'iso.epw')
        again = run_full(cfg, work, 'iso2.epw')
        # interleaved with a different model in the same interpreter
        a = U.new_model(outdir=work, outname='ia.epw', **cfg)
        b = U.new_model(outdir=work, outname='ib.epw', **other)
        with core.quiet():
            b.generate(); a.generate(); b.simulate(); a.simulate(); b.write_epw(); a.write_epw()
        inter = (hashlib.sha256(open(a.new_epw_path, 'rb').read()).hexdigest(),
                 hashlib.sha256(repr(U.records(a)).encode()).hexdigest())
        outs = {'repeat': again, 'interleaved': inter}
        for hs in (['0', '12345'] if chk.tier == 'quick' else ['0', '1', '12345']):
            env = dict(os.environ, PYTHONHASHSEED=hs, UWG_REPO_=core.REPO, UWG_REPO=core.REPO,
                       HARNESS_=os.path.join(core.VERIF, 'harness'), CFG_=repr(cfg), OUT_=work)
            p = subprocess.run([sys.executable, '-c', CHILD], capture_output=True, text=True, env=env,
                               timeout=600)
            if p.returncode != 0:
                raise core.Infra('child process failed: ' + p.stderr[-400:])
            outs['process(PYTHONHASHSEED=%s)' % hs] = tuple(p.stdout.split())
        nruns += 2 + len(outs)
        for k, v in outs.items():
            if v != ref:
                bad += 1
                chk.violation('impl-violation', 'purity: %s run differs from isolated run' % k,
                              case={'params': cfg, 'other_model': other},
                              observed='sha256(file, records) = %s' % (v,),
                              expected='%s' % (ref,))
    chk.direct('isolated-vs-repeat-vs-interleaved-vs-process', nruns, nruns,
               'full generate;simulate;write_epw of the same parameters: isolated, repeated, interleaved with a '
               'different model, and in fresh processes under different PYTHONHASHSEEDs; written file bytes and '
               'hourly records must be identical', mismatches=bad)
    custom_vector_purity(chk, work)
    import w1_util as W1
    W1.boundary_family(chk, work)
    environment_purity(chk, work)
    host_setting_purity(chk, work)
    circumstance_purity(chk, work)
    size_sequences(chk, work)
    chk.assumptions.append('CPython, pickle and the OS are trusted; the theorem is about the abstract world '
                           'machine, its worth is the frame check (static scan + dynamic monitor)')
