"""Composition A - the morphing pipeline generate(); simulate(); write_epw() as one function.

Model lean/UwgVerif/Model/Morph.lean (`morph` = Sim.window / Sim.simulateFile / Csv.writeEpw), theorems
lean/UwgVerif/Props/Morph.lean, driver Drv/Morph.lean.  Called from props/c01.py (`run_morph`), whose
`chk.proof` audits the theorems listed here through `extra_modules`.

Tie: the REAL `generate(); simulate(); write_epw()` on small synthetic rural EPW files, with the physics
replaced from outside by the toy of harness/simtoy.py (`toy_morph_simulate`), against `morph` evaluated by
Lean with the same toy: the complete written file, byte for byte, or the stage that raised.
Oracles on the real results: the C01 preservation oracle, complete records, row stamps, the wind column,
paired runs (rows after a cut hour changed), and "an exception leaves no file".
"""
import contextlib
import datetime
import hashlib
import io
import os
from fractions import Fraction as F

import core

MODULE = 'UwgVerif.Props.Morph'
THEOREMS = ['Uwg.Morph.morph_preserves', 'Uwg.Morph.morph_causal', 'Uwg.Morph.morph_causal_rows',
            'Uwg.Morph.morph_row_stamp', 'Uwg.Morph.morph_wind', 'Uwg.Morph.morph_fail_stop',
            'Uwg.Morph.morph_timestep_refused', 'Uwg.Morph.morph_total', 'Uwg.Morph.morph_cases']

INOBIS = [0, 31, 59, 90, 120, 151, 181, 212, 243, 273, 304, 334]
DIVISORS = [d for d in range(60, 3601) if 3600 % d == 0]
MODELLED = (6, 8, 9, 12, 14, 15, 20, 21)


def frac(x):
    x = F(x)
    return '%d/%d' % (x.numerator, x.denominator)


def julian0(month, day):
    return INOBIS[month - 1] + day - 1


# ----------------------------------------------------------------------------- synthetic rural files
def model_cell(rng, col):
    """A value for a modelled column, spelt as the toy can fold it exactly (<= 2 decimals)."""
    if col == 6:
        return rng.choice(['%.1f' % rng.uniform(-30, 45), '%.2f' % rng.uniform(-30, 45), '%d' % rng.randint(-20, 40),
                           '-0.5', '0.0', '25.25'])
    if col == 8:
        return '%d' % rng.randint(5, 100)
    if col == 9:
        return '%d' % rng.randint(88000, 103500)
    if col == 12:
        return '%d' % rng.randint(180, 470)
    if col in (14, 15):
        return '%d' % rng.choice([0, 0, rng.randint(0, 950)])
    if col == 20:
        return '%d' % rng.randint(0, 360)
    # wind: below / at / above the minimum wind, ties of the formatter (0.25, 0.35, 2.5), plain values
    return rng.choice(['0.0', '0.3', '0.35', '0.25', '1.0', '0.99', '1.05', '2.5', '%.1f' % rng.uniform(0, 14),
                       '%.2f' % rng.uniform(0, 9), '%d' % rng.randint(0, 12), '12.45'])


def synth_file(rng, base, month, day, days, nsoil3, truncate=True, short_row=None, perturb_after=None,
               seed_rows=None):
    """Header + data rows of a synthetic rural EPW derived from the shipped Singapore table `base`:
    window rows (and a margin) keep all 35 cells with every modelled cell re-drawn, rows far from the window
    are cut to their first 2..9 cells (cheap, and any damage to them would show), header cells get commas
    and quotes.  `perturb_after=h`: start from `seed_rows` and re-draw the modelled cells of the window rows
    after hour h, the rows outside the window and a header cell (the twin of a causality pair)."""
    hdr = [list(r) for r in base[:8]]
    hdr[0][1] = rng.choice(['SINGAPORE', 'Sing "apore", city', 'St. John\'s, NL', 'X'])
    hdr[5] = ['COMMENTS 1', rng.choice(['plain', 'a, b and "c"', '"', ',', hdr[5][1] if len(hdr[5]) > 1 else 'c'])]
    hdr[1] = hdr[1][:rng.randint(3, len(hdr[1]))] + [rng.choice(['', 'x,y', '9', 'q"q'])]
    s = 24 * julian0(month, day)
    n = 24 * days
    total = 8760
    if truncate and s + n <= 8760:
        total = min(8760, s + n + rng.choice([0, 0, 1, 7, 30]))
    if seed_rows is not None:
        rows = [list(r) for r in seed_rows]
        for i in range(len(rows)):
            inside = s <= i < s + n
            if (inside and i - s > perturb_after) or (not inside and len(rows[i]) >= 22 and rng.random() < 0.5):
                for c in MODELLED:
                    rows[i][c] = model_cell(rng, c)
            elif not inside and rng.random() < 0.1:
                rows[i] = rows[i][:5] + ['changed']
    else:
        rows = []
        for i in range(total):
            src = list(base[8 + i])
            if s - 3 <= i < s + n + 3:
                for c in MODELLED:
                    src[c] = model_cell(rng, c)
                if rng.random() < 0.15:
                    src[rng.choice([10, 22, 30, 34])] = rng.choice(['', 'a,b', '9"9', ' 7'])
                rows.append(src)
            else:
                rows.append(src[:rng.choice([2, 3, 4, 5] if abs(i - s) > 200 else [5, 6, 9])])
    win = [i for i in range(s, min(s + n, len(rows)))]
    if not nsoil3 and win:
        # whole-window mean of the dry bulb = a whole number of hundredths (the toy folds round(mean*100))
        tot = sum(int(round(F(rows[i][6]) * 100)) + 27315 for i in win)
        last = win[-1]
        v = int(round(F(rows[last][6]) * 100)) + (-tot) % len(win)
        rows[last][6] = '%s%d.%02d' % ('-' if v < 0 else '', abs(v) // 100, abs(v) % 100)
    if short_row is not None and win:
        k = win[short_row % len(win)]
        rows[k] = rows[k][:rng.choice([0, 5, 7, 21])]
    return hdr, rows


def write_rural(rng, path, hdr, rows):
    from props import c01
    text = c01.raw_text(rng, hdr + rows, rng.choice(['\n', '\n', '\r\n']), last_eol=True)
    with open(path, 'w', newline='') as f:
        f.write(text)
    return hashlib.sha256(open(path, 'rb').read()).hexdigest()


# ----------------------------------------------------------------------------- one real run
class Run(object):
    pass


def real_run(chk, idx, cfg, hdr, rows, tag='', text=None):
    """generate(); simulate() [toy physics]; write_epw() on the file (hdr, rows) - or on the recorded file
    text of a replay. Returns a Run."""
    import simdriver
    import simtoy
    from props import c01
    from uwg import utilities
    rng = chk.rng
    r = Run()
    r.cfg = cfg
    d = os.path.join(chk.work(), 'morph%03d%s' % (idx, tag))
    os.makedirs(d)
    r.rural = os.path.join(d, 'rural.epw')
    if text is None:
        r.hash = write_rural(rng, r.rural, hdr, rows)
    else:
        with open(r.rural, 'w', newline='') as f:
            f.write(text)
        r.hash = hashlib.sha256(open(r.rural, 'rb').read()).hexdigest()
    table = utilities.read_csv(r.rural)
    r.hdr_in, r.rows_in = [list(x) for x in table[:8]], [list(x) for x in table[8:]]
    r.out = os.path.join(d, 'rural_UWG.epw')
    r.stage, r.vals, r.model = None, None, None
    try:
        with core.quiet():
            m = simdriver.build_model(cfg['month'], cfg['day'], cfg['days'], cfg['dt'], epw=r.rural)
    except ZeroDivisionError:
        r.stage = 'zerodiv'
    except IndexError:
        r.stage = 'weather'
    except Exception as e:  # noqa - SimParam refuses the timestep inside generate()
        if 'TIMESTEP' not in str(e):
            raise
        r.stage = 'timestep'
    if r.stage is None:
        r.model = m
        m.epw_precision = cfg['p']
        r.windmin = m.geoParam.windMin
        r.hdr_in, r.rows_in = [list(x) for x in m._header], [list(x) for x in m.epwinput]
        err = simtoy.toy_morph_simulate(m, cfg['s0'], cfg['raise'], cfg['nsoil3'])
        if err:
            r.stage = err
        else:
            r.records_ok = (len(m.UCMData) == 24 * cfg['days'] and all(u is not None for u in m.UCMData) and
                            all(w is not None for w in m.WeatherData))
            if r.records_ok:
                r.vals = [(u.canTemp - 273.15, u.Tdp, u.canRHum, w.wind) for u, w in zip(m.UCMData, m.WeatherData)]
            try:
                with contextlib.redirect_stdout(io.StringIO()):
                    m.write_epw()
                r.out = m.new_epw_path
            except IndexError:
                r.stage = 'write'
    wmin = getattr(r, 'windmin', 1.0)
    r.line = ('morph hdr=%s rows=%s dt=%d M=%d D=%d days=%d p=%d nsoil3=%d raise=%d s0=%d wmin=%s c=%s' % (
        c01.enc_rows(r.hdr_in), c01.enc_rows(r.rows_in), cfg['dt'], cfg['month'], cfg['day'], cfg['days'], cfg['p'],
        1 if cfg['nsoil3'] else 0, cfg['raise'], cfg['s0'], frac(wmin), frac(273.15)))
    if r.stage is None:
        with open(r.out, 'r', newline='') as f:
            r.ans = 'ok ' + c01.enc(f.read())
    else:
        r.ans = 'err ' + r.stage
    return r


def stamp_oracle(r):
    """morph_row_stamp / morph_wind on the real result: the output row that carries record n is stamped
    start + n hours (hour-ending convention), and its wind cell is max(rural wind, windMin) formatted."""
    from props import c01
    cfg = r.cfg
    out = c01.pyparse(r.out)[8:]
    s = 24 * julian0(cfg['month'], cfg['day'])
    t0 = datetime.datetime(2001, cfg['month'], cfg['day'])
    for n in range(24 * cfg['days']):
        row = out[s + n]
        t = t0 + datetime.timedelta(hours=n)
        want = [str(t.month), str(t.day), str(t.hour + 1)]
        if [c.strip() for c in row[1:4]] != want:
            return 'record %d is written to the row stamped %s, not %s (start + %d h)' % (n, row[1:4], want, n)
        v = r.vals[n]
        cells = ['{0:.{1}f}'.format(x, cfg['p']) for x in v]
        if [row[6], row[7], row[8], row[21]] != cells:
            return 'row of hour %d carries %s, record %d is %s' % (n, [row[6], row[7], row[8], row[21]], n, cells)
        w = max(float(r.rows_in[s + n][21]), r.windmin)
        if row[21] != '{0:.{1}f}'.format(w, cfg['p']):
            return 'wind of hour %d written as %s, rural row has %s (minimum wind %s)' % (
                n, row[21], r.rows_in[s + n][21], r.windmin)
    return None


def run_oracles(r):
    """All single-run oracles on a Run; None or a message."""
    from props import c01
    cfg = r.cfg
    if hashlib.sha256(open(r.rural, 'rb').read()).hexdigest() != r.hash:
        return 'rural file was modified'
    if r.stage is not None:
        return 'the pipeline raised (%s) and yet a file was written' % r.stage if os.path.exists(r.out) else None
    if not r.records_ok:
        return 'simulate returned with %d of %d records' % (
            sum(1 for u in r.model.UCMData if u is not None), 24 * cfg['days'])
    s = 24 * julian0(cfg['month'], cfg['day'])
    return c01.oracle_file(r.rural, r.out, s, r.vals, cfg['p'], r.hash) or stamp_oracle(r)


def replay_case(chk, case):
    """Re-evaluate the single-run oracles on the rural file and configuration of a replay file."""
    cfg = case['config']
    r = real_run(chk, 0, cfg, None, None, tag='replay', text=case['rural_file_text'])
    msg = run_oracles(r)
    if msg is None and case.get('twin_file_text'):
        from props import c01
        r2 = real_run(chk, 0, cfg, None, None, tag='replayb', text=case['twin_file_text'])
        s = 24 * julian0(cfg['month'], cfg['day'])
        o1, o2 = c01.pyparse(r.out)[8:], c01.pyparse(r2.out)[8:]
        for n in range(case['cut_hour'] + 1):
            if [o1[s + n][c] for c in (6, 7, 8, 21)] != [o2[s + n][c] for c in (6, 7, 8, 21)]:
                msg = 'hour %d differs between the twin runs (cut hour %d)' % (n, case['cut_hour'])
                break
    return msg


def run_morph(chk):
    """The Morph tie; called from props/c01.py after C01's own ties."""
    from props import c01
    import uwgutil as U
    rng = chk.rng
    big = chk.tier == 'thorough'
    base = c01.pyparse(U.rp(U.EPW_SGP))

    # ---- helper of the driver's `proj`: float(decimal text) as an exact rational
    texts = ['0', '0.0', '0.1', '0.35', '0.25', '2.675', '-0.5', '1', '12.45', '100', '101325', '-17.8', '.5', '5.',
             '+3.2', ' 7.5 ', '0.01', '99.99', '273.15']
    for _ in range(150 if not big else 1500):
        texts.append(rng.choice(['%.1f', '%.2f', '%d', '%.3f', '%.6f']) % rng.uniform(-400, 1100))
    chk.correspond('float(cell)~nearestDouble(parseDec)', 'Morph',
                   [('dbl x=' + c01.enc(t), 'ok ' + frac(float(t))) for t in texts],
                   rule='CPython float(text) as an exact rational vs the decimal reader + round-to-nearest-even '
                        'binary64 conversion the Lean driver uses to read rural cells (normal range)',
                   classify=lambda line, impl: 'negative' if impl.startswith('ok -') else 'non-negative')

    # ---- the pipeline
    windows = [(1, 1, 1), (12, 31, 1), (12, 30, 2), (2, 28, 2), (7, 4, 1), (3, 31, 1), (10, 31, 2), (1, 1, 2),
               (6, 30, 1), (12, 29, 3)]
    plan = []
    for k, (mo, dy, nd) in enumerate(windows if big else windows[:6] + [(1, 31, 2)]):
        plan.append(dict(month=mo, day=dy, days=nd, dt=DIVISORS[(5 * k + rng.randrange(3)) % len(DIVISORS)],
                         p=[1, 0, 2, 4, 1, 3, 6][k % 7], nsoil3=(k % 3 != 2), kind='ok'))
    if big:
        for _ in range(25):
            mo = rng.randint(1, 12)
            nd = rng.choice([1, 1, 2, 3])
            dy = rng.randint(1, [31, 28, 31, 30, 31, 30, 31, 31, 30, 31, 30, 31][mo - 1])
            if julian0(mo, dy) + nd > 365:
                dy = 31 - nd + 1
            plan.append(dict(month=mo, day=dy, days=nd, dt=rng.choice(DIVISORS), p=rng.choice([0, 1, 1, 2, 4, 6]),
                             nsoil3=rng.random() < 0.6, kind='ok'))
    # every divisor of 3600 >= 60 at least once in the thorough tier, a spread in the quick tier
    for dt in (DIVISORS if big else [60, 3600, 225]):
        plan.append(dict(month=rng.choice([1, 5, 12] if big else [1, 3]), day=rng.choice([1, 15, 31]), days=1, dt=dt,
                         p=1, nsoil3=True, kind='ok'))
    plan += [dict(month=1, day=2, days=1, dt=300, p=1, nsoil3=True, kind='raise'),
             dict(month=12 if big else 3, day=31, days=1, dt=100, p=2, nsoil3=False, kind='raise'),
             dict(month=1, day=1, days=1, dt=7, p=1, nsoil3=True, kind='bad-dt'),
             dict(month=6, day=1, days=1, dt=480, p=1, nsoil3=True, kind='bad-dt'),
             dict(month=1, day=1, days=1, dt=0, p=1, nsoil3=True, kind='bad-dt'),
             dict(month=12, day=31, days=2, dt=300, p=1, nsoil3=True, kind='year-crossing'),
             dict(month=12 if big else 1, day=30, days=3, dt=900, p=1, nsoil3=False,
                  kind='year-crossing' if big else 'ok'),
             dict(month=1, day=3, days=1, dt=600, p=1, nsoil3=True, kind='short-row'),
             dict(month=1, day=1, days=0, dt=300, p=1, nsoil3=True, kind='empty-window'),
             dict(month=2, day=1, days=2, dt=300, p=1, nsoil3=True, kind='file-too-short')]
    for cfg in plan:
        cfg['s0'] = rng.randint(0, 999)
        cfg['raise'] = rng.choice([53, 97, 211]) if cfg['kind'] == 'raise' else 0
    pairs, branches, bad, nor = [], {}, 0, 0
    causal_n, causal_bad = 0, 0
    for idx, cfg in enumerate(plan):
        kind = cfg['kind']
        hdr, rows = synth_file(rng, base, cfg['month'], cfg['day'], max(cfg['days'], 1), cfg['nsoil3'],
                               truncate=(idx % 4 != 3) if big else (idx != 4), short_row=(rng.randrange(24) if kind == 'short-row' else None))
        if kind == 'file-too-short':
            rows = rows[:24 * julian0(cfg['month'], cfg['day']) + 30]   # the window runs past the end of the file
        r = real_run(chk, idx, cfg, hdr, rows)
        pairs.append((r.line, r.ans))
        key = kind + ('' if r.stage is None else '->' + r.stage)
        branches[key] = branches.get(key, 0) + 1
        msg = run_oracles(r)
        extra = {}
        if r.stage is None:
            nor += 1
            s = 24 * julian0(cfg['month'], cfg['day'])
            if msg is None and kind == 'ok' and cfg['nsoil3'] and (big or causal_n < 3):
                # causality pair: rows after hour h (and rows outside the window, and the header) re-drawn
                h = rng.randint(0, 24 * cfg['days'] - 2)
                hdr2, rows2 = synth_file(rng, base, cfg['month'], cfg['day'], cfg['days'], True, perturb_after=h,
                                         seed_rows=r.rows_in)
                r2 = real_run(chk, idx, cfg, hdr2, rows2, tag='b')
                causal_n += 1
                pairs.append((r2.line, r2.ans))
                if r2.stage is not None:
                    msg = 'twin run raised %s' % r2.stage
                    causal_bad += 1
                else:
                    o1, o2 = c01.pyparse(r.out)[8:], c01.pyparse(r2.out)[8:]
                    for n in range(h + 1):
                        a, b = [o1[s + n][c] for c in (6, 7, 8, 21)], [o2[s + n][c] for c in (6, 7, 8, 21)]
                        if a != b:
                            msg = ('hour %d written as %s, but as %s when only rural rows after hour %d differ' % (
                                n, a, b, h))
                            causal_bad += 1
                            extra = {'twin_file_text': open(r2.rural, newline='').read(), 'cut_hour': h}
                            break
        if msg:
            bad += 1
            if bad <= 3:
                chk.violation('impl-violation', 'Morph oracle on a real generate/simulate(toy)/write_epw run',
                              case=dict({'replay_kind': 'morph', 'config': {k: v for k, v in cfg.items()},
                                         'rural_file_text': open(r.rural, newline='').read()}, **extra),
                              observed=msg,
                              expected='file equal to the rural file except columns 6,7,8,21 of the window rows, each '
                                       'stamped start + n h, wind = max(rural wind, windMin); no file after an exception')
    chk.correspond('generate;simulate(toy);write_epw~morph', 'Morph', pairs,
                   rule='the REAL generate(); simulate(); write_epw() with the toy physics of simtoy.toy_morph_simulate '
                        '(canyon temperature / dew point / RH derived from an integer code folding the forcing row, '
                        'clock and deep temperature; WeatherData wind kept) on synthetic rural files derived from the '
                        'Singapore EPW (modelled cells re-drawn, far rows cut short, quoted header cells, LF/CRLF) vs '
                        'Lean morph with the same toy: the complete written file byte for byte, or the failing stage; '
                        'windows incl. 31 December and month ends, dt over the divisors of 3600 >= 60, precision 0..6, '
                        'both ground-temperature modes; failing streams: raising physics, refused timesteps (7, 480, '
                        '0), windows past 31 December / past the file, short window row, empty window',
                   nontrivial=lambda line, impl: impl.startswith('ok'),
                   classify=lambda line, impl: 'written' if impl.startswith('ok') else impl)
    chk.direct('Morph-oracle(preservation, stamps, wind, fail-stop)', len(plan), nor,
               'on every real run: C01 preservation oracle on the written file, all 24*days records present, the row '
               'of record n stamped start + n h and carrying record n, wind cell = max(rural wind, windMin) '
               'formatted, rural file unchanged; after an exception no output file exists',
               mismatches=bad - causal_bad, branches=branches)
    chk.direct('Morph-oracle(causality pairs)', causal_n, causal_n,
               'second real run on a twin file whose window rows after a random hour h, rows outside the window and '
               'header cells are re-drawn: written cells 6,7,8,21 of hours 0..h identical', mismatches=causal_bad)
    if nor < 5:
        chk.corr_problems.append({'tie': 'generate;simulate(toy);write_epw~morph', 'case': None,
                                  'impl': 'only %d runs completed' % nor, 'model': None})
    chk.assumptions.append('Morph: the interpretation of the EPW header by _read_epw (latitude, ground temperatures) and '
                           'the numeric reading of cells by Weather (str2fl) enter the model as parameters (table, '
                           'init, proj); the toy instance reads decimal cells with at most two decimals')
