"""C07 - the whole building stock is simulated, or the model refuses.

This module also carries the machinery shared with C08 (optional building overrides): both
properties are statements about `UWG._compute_BEM` (+ `_customize_reference_data`, `generate`) and
share one Lean model (`UwgVerif/Model/Bem.lean`) and one driver (`Drv/C07.lean`).

Ties
  A  synthetic   REAL `_customize_reference_data` + `_compute_BEM` (source run over exact Fractions by
                 fracexec) on a synthetic small library of real BEMDef/Building/Element objects
                 injected as `_refBEM/_refSchedule`, vs Lean `generateBEM`; everything exact.
  B  reallib     the same two methods on the shipped library (attributes converted losslessly to
                 Fractions), all 18 zones, vs Lean; everything exact (entries, floor areas, totals).
  C  generate    the unmodified package, `generate()` end to end for all 18 zones (doubles with
                 dyadic fractions), vs Lean `generateBEM` (identity, fraction and carried attributes
                 of every simulated archetype; totals are doubles and are checked by the oracle).
  S  setters     the `bld` setter and the six override setters, accept/reject, vs Lean.
  X  circumstances  (circumstance_ties; helpers in harness/u2_util.py) the simulated stock / the refusal must not
                 depend on observers (repr / str / ToString at every stage), DEBUG logging, `python -O`, the command
                 line, other models of the process, or on what the caller does with the dictionary / list he handed in.
  V  custom lists  (custom_list_ties; families in harness/v2_util.py) ref_bem_vector / ref_sch_vector in orders that do not
                 pair up, by every hand-over route: refused or realised as given; custom archetypes with documented
                 attributes at values no shipped archetype has (incl. a BEMDef that arrives with a share).
Oracles (the properties themselves, evaluated on the implementation's results, independent of
the Lean model) and a split-stock 1-day simulation complete the check.
"""
import contextlib
import copy
import io
import os
from fractions import Fraction as F

import core
import fracexec
from fracexec import frac_str

MODULE = 'UwgVerif.Props.C07'
THEOREMS = [
    'Uwg.C07.aggregate_spec', 'Uwg.C07.bem_exact', 'Uwg.C07.bem_fractions_sum',
    'Uwg.C07.refuse_or_all', 'Uwg.C07.refuse_or_all_wf', 'Uwg.C07.bem_progress',
    'Uwg.C07.split_stock_totals', 'Uwg.C07.split_stock_generate',
    'Uwg.C07.custom_replaces', 'Uwg.C07.custom_extends', 'Uwg.C07.custom_extends_again',
    'Uwg.C07.customize_keeps_slots',
    'Uwg.C07.custom_replaces_extends',
    'Uwg.C07.zone_index_total', 'Uwg.C07.proxy_zone_table', 'Uwg.C07.accepted_no_value_error',
    'Uwg.C07.era_any_case', 'Uwg.C07.key_text_injective',
    'Uwg.C07.asis_type_case_dropped', 'Uwg.C07.asis_duplicates_collapse',
    'Uwg.C07.asis_unknown_type_empty', 'Uwg.C07.asis_custom_dropped_off_1A',
    'Uwg.C07.fixed_witnesses', 'Uwg.C07.asis_dup_custom_double_counts',
]

REF_BLDTYPE = ('fullservicerestaurant', 'hospital', 'largehotel', 'largeoffice', 'medoffice',
               'midriseapartment', 'outpatient', 'primaryschool', 'quickservicerestaurant',
               'secondaryschool', 'smallhotel', 'smalloffice', 'standaloneretail', 'stripmall',
               'supermarket', 'warehouse')
ERAS = ('pre80', 'pst80', 'new')
REFZ = ('1A', '2A', '2B', '3A', '3B-CA', '3B', '3C', '4A', '4B', '4C', '5A', '5B', '6A', '6B',
        '7', '8')
ZONES18 = ('1A', '1B', '2A', '2B', '3A', '3B-CA', '3B', '3C', '4A', '4B', '4C', '5A', '5B', '5C',
           '6A', '6B', '7', '8')
OVS = ('glzr', 'shgc', 'albwall', 'albroof', 'vegroof', 'flrh')      # protocol names
OV_ATTR = {'glzr': 'glzr', 'shgc': 'shgc', 'albwall': 'albwall', 'albroof': 'albroof',
           'vegroof': 'vegroof', 'flrh': 'flr_h'}                     # UWG attribute names
EPW = os.path.join(core.REPO, 'resources', 'SGP_Singapore.486980_IWEC.epw')
PARAM = os.path.join(core.REPO, 'resources', 'initialize_singapore.uwg')


def proxy(zone):
    """The property's zone map: 1B and 5C use the 1A and 5B archetypes."""
    return {'1B': '1A', '5C': '5B'}.get(zone, zone)


def err_class(e):
    if isinstance(e, AssertionError):
        return 'assert'
    if isinstance(e, ZeroDivisionError):
        return 'zerodiv'
    if isinstance(e, IndexError):
        return 'index'
    if isinstance(e, ValueError):
        return 'value'
    if isinstance(e, AttributeError):
        return 'attr'
    if type(e) is Exception:
        return 'refuse'
    return 'fatal'


@contextlib.contextmanager
def quiet():
    with contextlib.redirect_stdout(io.StringIO()):
        yield


# ------------------------------------------------------------------------------- generators
def rq(rng, lo, hi, den=None):
    den = den or rng.choice([2, 4, 8, 10, 64, 100, 7, 1000])
    return F(rng.randint(int(lo * den), int(hi * den)), den)


def gen_vals(rng, dyadic=False):
    """(glazing_ratio, shgc, wall albedo, roof albedo, roof vegcoverage, floor_height)."""
    d = 64 if dyadic else 1000
    return (rq(rng, 0, 1, d), rq(rng, 0, 1, d), rq(rng, 0, 1, d), rq(rng, 0, 1, d),
            rq(rng, 0, 1, d), rq(rng, 2, 5, 8 if dyadic else 100) or F(3))


def era_text(rng, era):
    mode = rng.random()
    if mode < 0.6:
        return era
    if mode < 0.75:
        return era.upper()
    return ''.join(c.upper() if rng.random() < 0.5 else c for c in era)


def gen_lib(rng, zi_hint=None):
    """Synthetic library spec: dict(nt, nz, cells[i][j][z] = None | (type, era_attr, pid, vals))."""
    nt = rng.choice([2, 3, 3, 4, 4, 6, 16])
    refshaped = rng.random() < 0.8
    names = list(REF_BLDTYPE[:nt]) if refshaped else ['t%s' % chr(65 + i) for i in range(nt)]
    nz = 16 if rng.random() < 0.94 else rng.choice([1, 5, 11, 12])
    cols = {0, rng.randrange(nz)}
    if zi_hint is not None and zi_hint < nz:
        cols.add(zi_hint)
    cells = [[[None] * nz for _ in range(3)] for _ in range(nt)]
    pid = 1
    for i in range(nt):
        for j in range(3):
            for z in sorted(cols):
                if rng.random() < 0.17:
                    continue
                cells[i][j][z] = (names[i], j, pid, gen_vals(rng))
                pid += 1
    return {'nt': nt, 'nz': nz, 'cells': cells, 'era_broken': False}


def break_era(rng, lib, zi):
    """Make one cell of the zone column carry an era attribute different from its slot (cannot
    arise through `_customize_reference_data`; exercises `refBEM[i][builtera_idx]` vs `[i][j]`)."""
    if zi >= lib['nz']:
        return
    cand = [(i, j) for i in range(lib['nt']) for j in range(3) if lib['cells'][i][j][zi]]
    if not cand:
        return
    i, j = rng.choice(cand)
    t, e, p, v = lib['cells'][i][j][zi]
    lib['cells'][i][j][zi] = (t, rng.choice([x for x in range(3) if x != j]), p, v)
    lib['era_broken'] = True


def gen_customs(rng, lib, allow_dup=True, dyadic=False):
    k = rng.choice([0, 0, 0, 1, 1, 2, 2, 3, 4])
    out = []
    for n in range(k):
        r = rng.random()
        if r < 0.45:
            t = REF_BLDTYPE[rng.randrange(min(lib['nt'], 16))]
        elif r < 0.5:
            t = rng.choice(REF_BLDTYPE)              # may lie beyond a small library: IndexError
        else:
            t = rng.choice(['customa', 'customb', 'customc', 'LargeOffice', 'zz9'])
        e = rng.randrange(3)
        if not allow_dup and t not in REF_BLDTYPE and any(c[0] == t and c[1] == e for c in out):
            continue
        out.append((t, e, 1000 + n, gen_vals(rng, dyadic)))
    return out


def expected_column(lib, zone, customs):
    """The property's reading of 'custom archetypes replace or extend the reference set':
    (type, era) -> (pid, vals) available at the proxy-zone column.  Returns (table, flags)."""
    zi = REFZ.index(proxy(zone))
    table, flags = {}, set()
    if lib['era_broken']:
        flags.add('era-broken')
    if zi >= lib['nz']:
        flags.add('short-columns')
        return table, flags
    for i in range(lib['nt']):
        for j in range(3):
            c = lib['cells'][i][j][zi]
            if c:
                if (c[0], c[1]) in table:
                    flags.add('dup-key')
                table[(c[0], c[1])] = (c[2], c[3])
    seen_new = set()
    for (t, e, p, v) in customs:
        if t in REF_BLDTYPE:
            if REF_BLDTYPE.index(t) >= lib['nt']:
                flags.add('custom-out-of-range')
        else:
            if (t, e) in seen_new:
                flags.add('dup-custom')
            seen_new.add((t, e))
        table[(t, e)] = (p, v)
    return table, flags


def lib_nonref(lib):
    """True when some row of the library does not carry REF_BLDTYPE[i] (then a custom with a
    reference name lands in a row of another type: outside the property's reading)."""
    for i in range(lib['nt']):
        for j in range(3):
            for c in lib['cells'][i][j]:
                if c and (i >= 16 or c[0] != REF_BLDTYPE[i]):
                    return True
    return False


def gen_fracs(rng, n, dyadic=False):
    """n fractions; returns (list, kind) with kind in exact|near|reject."""
    D = 64 if dyadic else rng.choice([64, 64, 100, 10, 7, 1000])
    cuts = sorted(rng.randint(0, D) for _ in range(n - 1))
    parts = [b - a for a, b in zip([0] + cuts, cuts + [D])]
    fr = [F(p, D) for p in parts]
    r = rng.random()
    if dyadic or r < 0.86:
        return fr, 'exact'
    if r < 0.93:
        fr[rng.randrange(n)] += rng.choice([F(1, 200), F(-1, 200), F(9, 1000)])
        if all(0 <= f <= 1 for f in fr):
            return fr, 'near'
        return fr, 'reject'
    mode = rng.choice(['short', 'big', 'neg', 'edge'])
    if mode == 'short':
        fr[0] = fr[0] / 2 if fr[0] > F(1, 20) else fr[0] + F(1, 5)
    elif mode == 'big':
        fr[0] = F(3, 2)
    elif mode == 'neg':
        fr[0] = -fr[0] - F(1, 10)
    else:
        fr[0] += F(1, 100)                        # |total - 1| = 1/100 exactly: rejected (strict <)
    return fr, 'reject'


def gen_stock(rng, table, lib, zone, dyadic=False):
    """Mostly realisable stock lists over the keys available at the zone column, plus the
    malformed stream (wrong-case type, unknown type, key of a None cell, duplicates)."""
    avail = sorted(table)
    n = rng.choice([1, 1, 2, 2, 3, 3, 4, 5, 6])
    rows, kinds = [], set()
    malformed = rng.random() < 0.22
    for k in range(n):
        r = rng.random()
        if rows and r < 0.25:
            t, e = rng.choice(rows)[:2]
            e = ERAS.index(e.lower())
            kinds.add('duplicate')
        elif avail and not (malformed and r > 0.6):
            t, e = rng.choice(avail)
        else:
            m = rng.choice(['case', 'unknown', 'nonecell', 'customundef'])
            kinds.add(m)
            if m == 'case' and avail:
                t, e = rng.choice(avail)
                t = t.capitalize() if rng.random() < 0.5 else t.upper()
            elif m == 'unknown':
                t, e = rng.choice(['skyscraper', 'largeofice', 'x']), rng.randrange(3)
            elif m == 'customundef':
                t, e = 'customz', rng.randrange(3)
            else:
                t = rng.choice(REF_BLDTYPE[:max(1, min(lib['nt'], 16))])
                e = rng.randrange(3)
        rows.append((t, era_text(rng, ERAS[e])))
    fr, fk = gen_fracs(rng, n, dyadic)
    kinds.add('frac-' + fk)
    if rng.random() < 0.01:
        rows[0] = (rows[0][0], rng.choice(['pre-80', 'old', 'pst8O']))   # era the setter rejects
        kinds.add('bad-era')
    return [(t, e, f) for (t, e), f in zip(rows, fr)], kinds


NEW_TYPES = ('labtower', 'rowhouse', 'customa')


def era_family(rng, lib, zone, n, dyadic=False, real=False):
    """Stocks and custom vectors built around ONE building type that exists in some eras only, or in
    several eras at once. The DOE types always come in all three eras, so this only arises with
    (a) a NEW custom type supplied for 1, 2 or 3 eras (customs listed in any order, optionally with a
        revised custom of one era, a second new type, a custom that replaces a DOE cell), and
    (b) a synthetic library whose row of a type holds a None cell at the zone column.
    Stock shapes per member: every supplied era / a subset of them / a supplied AND an unsupplied era
    of the type / only an unsupplied era - mixed with other available rows, era text in any case,
    duplicate rows. Unsupplied eras make the stock unrealisable: the whole stock must be refused."""
    out = []
    zi = REFZ.index(proxy(zone))
    partial = []
    if not real and zi < lib['nz']:
        for i in range(lib['nt']):
            have = [j for j in range(3) if lib['cells'][i][j][zi]]
            if 0 < len(have) < 3:
                partial.append((lib['cells'][i][have[0]][zi][0], have))
    for k in range(n):
        customs = []
        if partial and k % 3 == 2:
            t, supplied = rng.choice(partial)
            kind = 'libtype'
        else:
            t = rng.choice(NEW_TYPES)
            supplied = rng.sample(range(3), rng.choice([1, 2, 2, 3]))
            customs = [(t, e, 1000 + i, gen_vals(rng, dyadic)) for i, e in enumerate(supplied)]
            kind = 'newtype%d' % len(supplied)
            r = rng.random()
            if r < 0.2:
                customs.insert(rng.randrange(len(customs) + 1),
                               ('customb', rng.randrange(3), 1100, gen_vals(rng, dyadic)))
            elif r < 0.35:
                customs.append((t, supplied[0], 1200, gen_vals(rng, dyadic)))      # revised: the later one wins
                kind += '+revised'
            elif r < 0.5:
                customs.insert(0, (REF_BLDTYPE[rng.randrange(min(lib['nt'], 16))], rng.randrange(3), 1300,
                                   gen_vals(rng, dyadic)))
        table, flags = expected_column(lib, zone, customs)
        if customs and lib_nonref(lib) and any(c[0] in REF_BLDTYPE for c in customs):
            flags.add('nonref')
        missing = [e for e in range(3) if (t, e) not in table]
        present = [e for e in range(3) if (t, e) in table]
        shape = rng.choice(['all', 'subset', 'supplied+unsupplied', 'supplied+unsupplied', 'unsupplied-only'])
        if not missing and shape in ('supplied+unsupplied', 'unsupplied-only'):
            shape = 'all'
        if not present:                      # (library shorter than the zone index: nothing available at all)
            shape = 'unsupplied-only'
        if shape == 'all':
            rows = [(t, e) for e in present]
        elif shape == 'subset':
            rows = [(t, e) for e in rng.sample(present, rng.randint(1, len(present)))]
        elif shape == 'supplied+unsupplied':
            rows = [(t, rng.choice(present)), (t, rng.choice(missing))]
            if len(present) > 1 and rng.random() < 0.5:
                rows.append((t, present[-1]))
        else:
            rows = [(t, rng.choice(missing))]
        others = [key for key in sorted(table) if key[0] != t]
        for _ in range(rng.choice([0, 1, 1, 2])):
            if others:
                rows.append(rng.choice(others))
        if rng.random() < 0.25:
            rows.append(rng.choice(rows))                                         # duplicate row
        rng.shuffle(rows)
        fr, _fk = gen_fracs(rng, len(rows), True)
        bld = [(tt, era_text(rng, ERAS[e]), f) for (tt, e), f in zip(rows, fr)]
        cl, bd, bh = gen_geom(rng, dyadic)
        out.append({'zone': zone, 'lib': lib, 'customs': customs, 'bld': bld,
                    'ov': gen_overrides(rng, dyadic), 'cl': cl, 'bd': bd, 'bh': bh, 'table': table,
                    'flags': flags, 'kinds': {'era-family', 'era-' + kind, 'era-' + shape}})
    return out


def gen_overrides(rng, dyadic=False, subset=None):
    ov = {}
    for idx, name in enumerate(OVS):
        on = (subset >> idx) & 1 if subset is not None else rng.random() < 0.5
        if not on:
            ov[name] = None
        elif name == 'flrh':
            r = rng.random()
            # 0 is rejected by the setter (tie S); the division path for 0 is still compared, with
            # the setter bypassed (flag flrh0-bypass, no oracle)
            # (tall storeys too: 6.5, 9, 12 m halls - above the height of a low district)
            ov[name] = (F(0) if r < 0.03 else F(1) if r < 0.12 else F(1, 64) if r < 0.16 else
                        rng.choice([F(13, 2), F(9), F(12), F(25)]) if r < 0.3 else
                        rq(rng, 1, 6, 8) or F(3))
        else:
            r = rng.random()
            ov[name] = F(0) if r < 0.3 else F(1) if r < 0.55 else rq(rng, 0, 1, 64 if dyadic else None)
    return ov


def gen_geom(rng, dyadic=False):
    """(charlength, blddensity, bldheight). One case in four is a LOW district (average height 2..6 m:
    single-storey halls), so that an override is also met next to geometry that is smaller than it
    (flr_h above, at and below bldheight)."""
    low = rng.random() < 0.25
    if dyadic:
        return F(1024), F(1, 2), (rng.choice([F(2), F(5, 2), F(4), F(5), F(6)]) if low else F(16))
    return (rng.choice([F(1000), F(500), F(2501, 10)]), rq(rng, 0.1, 0.9, 100) or F(1, 2),
            (rng.choice([F(2), F(5, 2), F(3), F(4), F(9, 2), F(5), F(6)]) if low else
             rq(rng, 4, 60, 10) or F(10)))


def gen_case(rng, subset=None):
    zone = rng.choice(ZONES18 + ('1B', '5C', '1A', '5B', '1B', '5C'))
    zi = REFZ.index(proxy(zone))
    lib = gen_lib(rng, zi)
    customs = gen_customs(rng, lib)
    if not customs and not lib_nonref(lib) and rng.random() < 0.2:
        break_era(rng, lib, zi)
    table, flags = expected_column(lib, zone, customs)
    if customs and lib_nonref(lib) and any(c[0] in REF_BLDTYPE for c in customs):
        flags.add('nonref')
    bld, kinds = gen_stock(rng, table, lib, zone)
    cl, bd, bh = gen_geom(rng)
    return {'zone': zone, 'lib': lib, 'customs': customs, 'bld': bld, 'ov': gen_overrides(rng, subset=subset),
            'cl': cl, 'bd': bd, 'bh': bh, 'table': table, 'flags': flags, 'kinds': kinds}


# ------------------------------------------------------------------------------- protocol text
def cell_text(c):
    if c is None:
        return '-'
    t, e, p, v = c
    return '%s,%d,%d,%s' % (t, e, p, ','.join(frac_str(x) for x in v))


def lib_line(lib):
    flat = [cell_text(c) for row in lib['cells'] for era in row for c in era]
    return 'lib nt=%d nz=%d cells=[%s]' % (lib['nt'], lib['nz'], ';'.join(flat))


def wf_answer(lib, zone):
    """The decidable hypotheses of the theorems, evaluated on the library spec (Python side)."""
    zi = REFZ.index(proxy(zone))
    cells = lib['cells']
    col = [[(row[j][zi] if j < len(row) and zi < len(row[j]) else None) for j in range(3)]
           for row in cells]
    shape = all(len(row) >= 3 and all(zi < len(row[j]) for j in range(3)) for row in cells)
    slot = all(c is None or c[1] == j for r in col for j, c in enumerate(r))
    keys = [(c[0], c[1]) for r in col for c in r if c is not None]
    uniq = len(keys) == len(set(keys))
    reflib = len(cells) == 16 and all(
        c is None or (c[1] == j and c[0] == REF_BLDTYPE[i])
        for i, r in enumerate(col) for j, c in enumerate(r))
    return 'ok shape=%d slot=%d keys=%d reflib=%d' % (shape, slot, uniq, reflib)


def bld_text(bld):
    return '[' + ';'.join('%s,%s,%s' % (t, e, frac_str(f)) for t, e, f in bld) + ']'


def case_line(op, cs, zone=None):
    ov = ' '.join('%s=%s' % (k, 'none' if cs['ov'][k] is None else frac_str(cs['ov'][k]))
                  for k in OVS)
    return '%s zone=%s bld=%s %s cl=%s bd=%s bh=%s customs=[%s]' % (
        op, zone or cs['zone'], bld_text(cs['bld']), ov, frac_str(cs['cl']), frac_str(cs['bd']),
        frac_str(cs['bh']), ';'.join(cell_text(c) for c in cs['customs']))


def result_line(res, full=True):
    if res['err']:
        return 'err ' + res['err']
    ents = []
    for e in res['entries']:
        head = [e['type'], str(e['era']), str(e['pid']), frac_str(e['frac'])]
        if full:
            head.append(frac_str(e['fl_area']))
        ents.append(','.join(head + [frac_str(x) for x in e['vals']]))
    s = 'ok n=%d e=[%s]' % (len(ents), ';'.join(ents))
    if full:
        s += ' tot=[%s]' % ';'.join(frac_str(x) for x in res['totals'])
    return s


# ------------------------------------------------------------------------------- real code
class Kit(object):
    """Classes of the fractionised package (the real source, exact arithmetic)."""

    def __init__(self):
        self.pkg = fracexec.load()
        p = self.pkg
        self.UWG, self.BEMDef, self.Building = p.UWG, p.BEMDef, p.Building
        self.Element, self.Material, self.SchDef = p.Element, p.Material, p.SchDef
        self.week = [[1] * 24 for _ in range(3)]

    def bem(self, c):
        t, e, pid, v = c
        mat = self.Material(F(1), F(10 ** 6), 'm')
        lay = [F(1, 10), F(1, 10)]
        wall = self.Element(v[2], F(9, 10), list(lay), [mat, mat], F(0), F(293), 0, 'w%d' % pid)
        roof = self.Element(v[3], F(9, 10), list(lay), [mat, mat], v[4], F(293), 1, 'r%d' % pid)
        mass = self.Element(F(1, 5), F(9, 10), list(lay), [mat, mat], F(0), F(293), 0, 'm%d' % pid)
        bd = self.Building(v[5], F(1), F(2), F(1, 2), F(1, 10), F(1, 5), F(1, 1000), v[0], F(3),
                           v[1], 'AIR', F(3), F(100), F(4, 5), F(293))
        b = self.BEMDef(bd, mass, wall, roof, t, ERAS[e])
        b.zonetype = 'p%d' % pid
        return b

    def sch(self, c):
        t, e, pid, v = c
        s = self.SchDef(elec=self.week, gas=self.week, light=self.week, occ=self.week,
                        cool=self.week, heat=self.week, swh=self.week, q_elec=F(10), q_gas=F(3),
                        q_light=F(10), n_occ=F(1, 10), vent=F(1, 1000), v_swh=F(1, 5),
                        bldtype=t, builtera=ERAS[e])
        s.zonetype = 'p%d' % pid       # the same marker as the BEMDef of this cell (pairing oracle)
        return s

    def build_lib(self, lib):
        rb = [[[self.bem(c) if c else None for c in era] for era in row] for row in lib['cells']]
        rs = [[[self.sch(c) if c else None for c in era] for era in row] for row in lib['cells']]
        return rb, rs


def pid_of(b, real_pid=None):
    z = b.zonetype
    if isinstance(z, str) and z.startswith('p') and z[1:].isdigit():
        return int(z[1:])
    return real_pid[(b.bldtype, b.builtera, z)]


def read_result(m, real_pid=None, exact=True):
    ents = []
    for b in m.BEM:
        vals = (b.building.glazing_ratio, b.building.shgc, b.wall.albedo, b.roof.albedo,
                b.roof.vegcoverage, b.building.floor_height)
        ents.append({'type': b.bldtype, 'era': ERAS.index(b.builtera), 'pid': pid_of(b, real_pid),
                     'zonetype': b.zonetype, 'frac': F(b.frac), 'fl_area': F(b.fl_area),
                     'vals': tuple(F(x) for x in vals), 'raw': (b.frac,) + vals})
    return {'err': None, 'entries': ents,
            'sch': [(getattr(x, 'bldtype', repr(type(x))), getattr(x, 'builtera', None), getattr(x, 'zonetype', None))
                    for x in m.Sch],   # a changed tree may pair an archetype with no schedule at all (None): a mismatch, not a crash
            'totals': (F(m.r_glaze_total), F(m.SHGC_total), F(m.alb_wall_total)),
            'raw_totals': (m.r_glaze_total, m.SHGC_total, m.alb_wall_total)}


def set_inputs(m, cs):
    """Everything through the real setters. Returns 'err <class>' if a setter rejects."""
    m.bld = cs['bld']
    m.zone = cs['zone'].lower() if len(cs['bld']) % 2 else cs['zone']
    for k in OVS:
        if k == 'flrh' and cs['ov'][k] == 0:
            m._flr_h = cs['ov'][k]                 # not accepted by the setter: bypass
        else:
            setattr(m, OV_ATTR[k], cs['ov'][k])
    m.charlength, m.blddensity, m.bldheight = cs['cl'], cs['bd'], cs['bh']


def run_selection(m, customs_b, customs_s):
    """generate()'s own order: customise when ref_bem_vector is non-empty, then select."""
    m.ref_bem_vector, m.ref_sch_vector = customs_b, customs_s
    try:
        with quiet():
            if m.ref_bem_vector:
                m._customize_reference_data()
            m._compute_BEM()
    except Exception as e:  # noqa: BLE001
        return {'err': err_class(e), 'msg': str(e)[:200]}
    return None


def impl_synthetic(kit, cs):
    m = kit.UWG(EPW)
    set_inputs(m, cs)
    m._refBEM, m._refSchedule = kit.build_lib(cs['lib'])
    cb = [kit.bem(c) for c in cs['customs']]
    csch = [kit.sch(c) for c in cs['customs']]
    r = run_selection(m, cb, csch)
    return r or read_result(m)


# ---- the shipped library
class RealLib(object):
    def __init__(self, plain_uwg):
        self.UWG = plain_uwg.UWG
        ref, _ = self.UWG.load_refDOE()
        self.pid, cells = {}, []
        for i in range(len(ref)):
            row = []
            for j in range(3):
                era = []
                for z in range(len(ref[i][j])):
                    c = ref[i][j][z]
                    if c is None:
                        era.append(None)
                        continue
                    p = i * 48 + j * 16 + z
                    self.pid[(c.bldtype, c.builtera, c.zonetype)] = p
                    era.append((c.bldtype, ERAS.index(c.builtera), p, self.vals(c)))
                row.append(era)
            cells.append(row)
        self.spec = {'nt': len(ref), 'nz': len(ref[0][0]), 'cells': cells, 'era_broken': False}
        self.line = lib_line(self.spec)

    @staticmethod
    def vals(c):
        return tuple(F(x) for x in (c.building.glazing_ratio, c.building.shgc, c.wall.albedo,
                                    c.roof.albedo, c.roof.vegcoverage, c.building.floor_height))

    def load_exact(self):
        """Fresh copy of the shipped library with the six attributes as exact Fractions."""
        ref, sch = self.UWG.load_refDOE()
        for row in ref:
            for era in row:
                for c in era:
                    if c is not None:
                        set_vals(c, self.vals(c))
        return ref, sch


def set_vals(c, v):
    c.building.glazing_ratio, c.building.shgc, c.wall.albedo = v[0], v[1], v[2]
    c.roof.albedo, c.roof.vegcoverage, c.building.floor_height = v[3], v[4], v[5]


def real_customs(ref, sch, customs, as_float=False):
    """Custom BEMDef/SchDef objects made from shipped archetypes (deep copies, re-labelled)."""
    cb, csch = [], []
    for n, (t, e, p, v) in enumerate(customs):
        src = (5 * n + 3) % 16
        b = copy.deepcopy(ref[src][(e + 1) % 3][(7 * n + 2) % 16])
        s = copy.deepcopy(sch[src][(e + 1) % 3][(7 * n + 2) % 16])
        b.bldtype, b.builtera, b.zonetype = t, ERAS[e], 'p%d' % p
        s.bldtype, s.builtera, s.zonetype = t, ERAS[e], 'p%d' % p
        set_vals(b, tuple(float(x) for x in v) if as_float else v)
        cb.append(b)
        csch.append(s)
    return cb, csch


def gen_real_case(rng, rl, zone, dyadic=False, subset=None):
    lib = rl.spec
    customs = gen_customs(rng, lib, dyadic=dyadic) if rng.random() < 0.5 else []
    table, flags = expected_column(lib, zone, customs)
    bld, kinds = gen_stock(rng, table, lib, zone, dyadic=dyadic)
    cl, bd, bh = gen_geom(rng, dyadic)
    return {'zone': zone, 'lib': lib, 'customs': customs, 'bld': bld,
            'ov': gen_overrides(rng, dyadic, subset), 'cl': cl, 'bd': bd, 'bh': bh, 'table': table,
            'flags': flags, 'kinds': kinds}


def impl_reallib(kit, rl, cs):
    m = kit.UWG(EPW)
    set_inputs(m, cs)
    ref, sch = rl.load_exact()
    m._refBEM, m._refSchedule = ref, sch
    cb, csch = real_customs(ref, sch, cs['customs'])
    r = run_selection(m, cb, csch)
    return r or read_result(m, rl.pid)


_WARM = {}


def impl_generate(plain, rl, cs):
    """The unmodified package end to end (doubles). Cases without custom vectors are run on ONE
    long-lived UWG object that has already been generated with the previous cases' stock, zone and
    overrides (generate() must forget them): a multi-step history, not a fresh object per case."""
    m = _WARM.get('m') if not cs['customs'] else None
    if m is None:
        with quiet():
            m = plain.UWG.from_param_file(PARAM, epw_path=EPW)
        if not cs['customs']:
            _WARM['m'] = m
    try:
        m.bld = [(t, e, float(f)) for t, e, f in cs['bld']]
    except AssertionError:
        return None                                    # setter-rejected stock: tie S
    m.zone = cs['zone']
    m.bldheight = float(cs['bh'])
    for k in OVS:
        v = cs['ov'][k]
        if k == 'flrh' and v == 0:
            m._flr_h = 0.0                         # not accepted by the setter: bypass
        else:
            setattr(m, OV_ATTR[k], None if v is None else float(v))
    if cs['customs']:
        ref, sch = plain.UWG.load_refDOE()
        cb, csch = real_customs(ref, sch, cs['customs'], as_float=True)
        m.ref_bem_vector, m.ref_sch_vector = m._check_reference_data(cb, csch)
    try:
        with quiet():
            m.generate()
    except Exception as e:  # noqa: BLE001
        _WARM.pop('m', None)
        return {'err': err_class(e), 'msg': str(e)[:200]}
    return read_result(m, rl.pid)


# ------------------------------------------------------------------------------- oracles
def stock_keys(bld):
    agg = {}
    for t, e, f in bld:
        k = (t, ERAS.index(e.lower()))
        agg[k] = agg.get(k, 0) + f
    return agg


SKIP_FLAGS = {'era-broken', 'short-columns', 'dup-key', 'custom-out-of-range', 'nonref',
              'flrh0-bypass'}


def oracle_c07(cs, res):
    """C07 evaluated on an implementation result. None, or a message."""
    if cs['flags'] & SKIP_FLAGS:
        return None
    agg = stock_keys(cs['bld'])
    table = cs['table']
    missing = sorted(k for k in agg if k not in table)
    if res['err']:
        if missing and res['err'] == 'refuse':
            return None
        if missing:
            return 'unrealisable stock answered with %s instead of the refusal' % res['err']
        return 'realisable stock rejected with %s (%s)' % (res['err'], res.get('msg'))
    if missing:
        return 'rows %s have no archetype at zone %s but %d archetypes were simulated' % (
            missing, cs['zone'], len(res['entries']))
    got = {}
    for e in res['entries']:
        k = (e['type'], e['era'])
        if k in got:
            return 'two simulated archetypes for %s' % (k,)
        got[k] = e
    if set(got) != set(agg):
        return 'simulated keys %s differ from the stock keys %s' % (sorted(got), sorted(agg))
    for k, e in got.items():
        if e['frac'] != agg[k]:
            return 'fraction of %s is %s, stock list says %s' % (k, e['frac'], agg[k])
        if e['pid'] != table[k][0]:
            return 'archetype of %s is object %s (%s), expected object %s' % (
                k, e['pid'], e['zonetype'], table[k][0])
        if e['pid'] < 1000 and cs['lib'].get('real') and e['zonetype'] != proxy(cs['zone']):
            return 'archetype of %s belongs to zone %s, requested %s' % (k, e['zonetype'], cs['zone'])
    tin, tout = sum(f for _, _, f in cs['bld']), sum(e['frac'] for e in res['entries'])
    if tin != tout:
        return 'simulated fractions sum to %s, stock list sums to %s' % (tout, tin)
    # "each has the requested type and era": an archetype is a BEMDef AND the schedule set it is driven
    # with - simulate() pairs BEM[k] with Sch[k]. Library cells and customs carry one marker in both.
    sch = res.get('sch')
    if sch is not None:
        if len(sch) != len(res['entries']):
            return '%d schedule sets for %d simulated archetypes' % (len(sch), len(res['entries']))
        for k, (e, s_) in enumerate(zip(res['entries'], sch)):
            if s_ != (e['type'], ERAS[e['era']], e['zonetype']):
                return ('BEM[%d] = %s/%s (object %s) is paired with Sch[%d] = the schedule set of %s/%s '
                        '(object %s)' % (k, e['type'], ERAS[e['era']], e['zonetype'], k, s_[0], s_[1], s_[2]))
    return None


def oracle_c08(cs, res, exact=True):
    """C08 evaluated on an implementation result. None, or a message."""
    if cs['flags'] & SKIP_FLAGS or res['err']:
        return None
    table = cs['table']
    for e in res['entries']:
        ref = table.get((e['type'], e['era']))
        for idx, name in enumerate(OVS):
            v = cs['ov'][name]
            if v is not None and e['vals'][idx] != v:
                return 'override %s=%s not carried by %s/%s: has %s (%.6g)' % (
                    name, v, e['type'], ERAS[e['era']], e['vals'][idx], e['vals'][idx])
            if v is None and ref is not None and e['vals'][idx] != ref[1][idx]:
                return 'unset %s: %s/%s carries %s, reference value is %s' % (
                    name, e['type'], ERAS[e['era']], e['vals'][idx], ref[1][idx])
    if exact:
        for which, idx in (('r_glaze_total', 0), ('SHGC_total', 1), ('alb_wall_total', 2)):
            want = sum(e['frac'] * e['vals'][idx] for e in res['entries'])
            if res['totals'][idx] != want:
                return '%s is %s, sum of frac*value over the simulated buildings is %s' % (
                    which, res['totals'][idx], want)
        hfl = F(61, 20) if cs['ov']['flrh'] is None else cs['ov']['flrh']
        area = cs['cl'] ** 2 * cs['bd'] * cs['bh'] / hfl
        for e in res['entries']:
            if e['fl_area'] != e['frac'] * area:
                return 'fl_area of %s is %s, expected frac*L^2*density*height/h_floor = %s' % (
                    e['type'], e['fl_area'], e['frac'] * area)
    else:
        # doubles: the same operations in the same order must give the same bits
        for which, idx in (('r_glaze_total', 0), ('SHGC_total', 1), ('alb_wall_total', 2)):
            acc = 0.
            for e in res['entries']:
                acc += e['raw'][0] * e['raw'][1 + idx]
            if acc != res['raw_totals'][idx]:
                return '%s is %r, sum of frac*value over the simulated buildings is %r' % (
                    which, res['raw_totals'][idx], acc)
    return None


def spec_json(cs):
    """Everything needed to re-run the case (bin/check <ID> --replay <file>)."""
    def cell(c):
        return None if c is None else [c[0], c[1], c[2], [str(x) for x in c[3]]]
    lib = cs['lib']
    return {'tie': cs.get('tie', 'A'), 'zone': cs['zone'],
            'bld': [[t, e, str(f)] for t, e, f in cs['bld']],
            'ov': {k: (None if v is None else str(v)) for k, v in cs['ov'].items()},
            'customs': [cell(c) for c in cs['customs']],
            'geom': [str(cs['cl']), str(cs['bd']), str(cs['bh'])],
            'lib': 'shipped' if lib.get('real') else
                   {'nt': lib['nt'], 'nz': lib['nz'], 'era_broken': lib['era_broken'],
                    'cells': [[[cell(c) for c in era] for era in row] for row in lib['cells']]}}


def spec_case(spec, rl):
    def cell(c):
        return None if c is None else (c[0], c[1], c[2], tuple(F(x) for x in c[3]))
    if spec['lib'] == 'shipped':
        lib = rl.spec
    else:
        lib = dict(spec['lib'])
        lib['cells'] = [[[cell(c) for c in era] for era in row] for row in lib['cells']]
    customs = [cell(c) for c in spec['customs']]
    table, flags = expected_column(lib, spec['zone'], customs)
    if customs and lib_nonref(lib) and any(c[0] in REF_BLDTYPE for c in customs):
        flags.add('nonref')
    cl, bd, bh = (F(x) for x in spec['geom'])
    return {'tie': spec['tie'], 'zone': spec['zone'], 'lib': lib, 'customs': customs,
            'bld': [(t, e, F(f)) for t, e, f in spec['bld']],
            'ov': {k: (None if v is None else F(v)) for k, v in spec['ov'].items()},
            'cl': cl, 'bd': bd, 'bh': bh, 'table': table, 'flags': flags, 'kinds': {'replay'}}


def case_json(cs):
    return {'spec': spec_json(cs),
            'zone': cs['zone'], 'bld': [(t, e, str(f)) for t, e, f in cs['bld']],
            'overrides': {k: (None if v is None else str(v)) for k, v in cs['ov'].items()},
            'customs': [(t, ERAS[e], p) for t, e, p, _ in cs['customs']],
            'library': 'shipped' if cs['lib'].get('real') else
                       'synthetic %dx3x%d' % (cs['lib']['nt'], cs['lib']['nz']),
            'geometry': [str(cs['cl']), str(cs['bd']), str(cs['bh'])],
            'flags': sorted(cs['flags']), 'kinds': sorted(cs['kinds'])}


def classify_case(cs, res):
    if res['err']:
        return 'err-' + res['err'] + ('-eras' if 'era-family' in cs['kinds'] else '')
    tags = []
    if cs['customs']:
        tags.append('custom')
    if 'duplicate' in cs['kinds']:
        tags.append('dup')
    if cs['zone'] in ('1B', '5C'):
        tags.append('proxyzone')
    if cs['flags'] & SKIP_FLAGS:
        tags.append('nonwf')
    if 'era-family' in cs['kinds']:
        tags.append('eras')
    return 'ok' + ('-' + '-'.join(tags) if tags else '')


# ------------------------------------------------------------------------------- the ties
class Session(object):
    """Runs the ties once; C07 and C08 read the oracle verdicts they own."""

    def __init__(self, chk, focus):
        self.chk, self.focus = chk, focus
        self.kit = Kit()
        core.repo_python_path()
        import uwg as plain
        self.plain = plain
        self.rl = RealLib(plain)
        self.rl.spec['real'] = True
        self.bad07, self.bad08 = [], []
        self.n07 = self.n08 = 0
        self.subsets, self.boundary = set(), {}
        self.notes = set()

    def judge(self, cs, res, exact=True):
        if cs['ov']['flrh'] == 0:
            cs['flags'] = set(cs['flags']) | {'flrh0-bypass'}
        if not res['err']:
            self.n07 += 1
            self.n08 += 1
            self.subsets.add(tuple(cs['ov'][k] is not None for k in OVS))
            for k in OVS:
                if cs['ov'][k] is not None and cs['ov'][k] in (0, 1):
                    self.boundary[(k, int(cs['ov'][k]))] = self.boundary.get((k, int(cs['ov'][k])), 0) + 1
        m7 = oracle_c07(cs, res)
        if m7:
            self.bad07.append((cs, m7))
        m8 = oracle_c08(cs, res, exact)
        if m8:
            self.bad08.append((cs, m8))

    def tie_setters(self, cases):
        chk, kit = self.chk, self.kit
        pairs = []
        for cs in cases:
            m = kit.UWG(EPW)
            try:
                m.bld = cs['bld']
                ans = 'ok'
            except Exception as e:  # noqa: BLE001
                ans = 'err ' + err_class(e)
            pairs.append(('setbld bld=%s' % bld_text(cs['bld']), ans))
        rng = chk.rng
        for kind, attrs in (('01', ['glzr', 'shgc', 'albwall', 'albroof', 'vegroof']), ('pos', ['flr_h'])):
            for a in attrs:
                vals = [None, F(0), F(1), F(1, 2), F(-1, 1000), F(1001, 1000), F(2), F(-3), F(10 ** 6)]
                vals += [rq(rng, -1, 2, 64) for _ in range(6)]
                # a hair inside and a hair outside the limits of the range (1e-9 .. 1e-300 away from 0 and 1)
                import t2_util as T
                inside, outside = T.near_limit_fractions()
                vals += (inside + outside) if kind == '01' else inside[:7] + outside[:6]
                for v in vals:
                    m = kit.UWG(EPW)
                    stored = None
                    try:
                        setattr(m, a, v)
                        stored = getattr(m, a)
                        ans = 'ok' if stored == v else 'err fatal'
                    except Exception as e:  # noqa: BLE001
                        ans = 'err ' + err_class(e)
                    want = (v is None or (0 < v if kind == 'pos' else 0 <= v <= 1))
                    if ((ans == 'ok') != want or ans == 'err fatal') and self.focus == 'C08':
                        self.nset_bad = getattr(self, 'nset_bad', 0) + 1
                    if ((ans == 'ok') != want or ans == 'err fatal') and self.focus == 'C08' and self.nset_bad <= 2:
                        chk.violation('impl-violation', 'override setter %s' % a,
                                      case={'attribute': a, 'value': str(v), 'value_as_float': '%r' % float(v)},
                                      observed=ans if ans != 'err fatal' else
                                      'accepted, but the override then reads %s (%r)' % (stored, float(stored)),
                                      expected='accepted and stored unchanged' if want else
                                      'rejected with AssertionError (floor height must be > 0, '
                                      'ratios within [0, 1])')
                    pairs.append(('setov kind=%s v=%s' % (kind, 'none' if v is None else frac_str(v)),
                                  ans))
        chk.correspond(
            'setters~bldSetter/ovSetter', 'C07', pairs,
            rule='real `bld` setter (fractionised source) on every generated stock list and the six '
                 'override setters on None, 0, 1, interior, just-outside and far-outside values, and on values '
                 'a hair inside / outside the limits (10^-9 .. 10^-300 and 2^-60 away from 0 and from 1; the '
                 'value read back must be the value assigned) vs '
                 'Lean `bldSetter`/`ovSetter01`/`ovSetterPos`; accept/reject must agree; '
                 'non-trivial = accepted',
            classify=lambda line, impl: line.split(' ')[0] + ('-ok' if impl == 'ok' else '-reject'))

    def tie_synthetic(self, cases):
        chk, kit = self.chk, self.kit
        pairs, tags = [], {}
        for cs in cases:
            try:
                m = kit.UWG(EPW)
                m.bld = cs['bld']
            except AssertionError:
                continue                                   # setter-rejected stock: tie S
            cs['tie'] = 'A'
            res = impl_synthetic(kit, cs)
            self.judge(cs, res)
            pairs.append((lib_line(cs['lib']), 'ok lib rows=%d' % cs['lib']['nt']))
            wl = 'wf zone=%s' % cs['zone']
            pairs.append((wl, wf_answer(cs['lib'], cs['zone'])))
            tags[wl] = 'wf'
            line = case_line('bem', cs)
            pairs.append((line, result_line(res)))
            tags[line] = classify_case(cs, res)
        chk.correspond(
            '_customize+_compute_BEM~generateBEM(synthetic)', 'C07', pairs,
            rule='REAL _customize_reference_data + _compute_BEM (source run over exact Fractions) on '
                 'a synthetic library of real BEMDef/Building/Element objects (None cells, customs '
                 'that replace / extend / collide, libraries shorter than the zone index, cells whose '
                 'era attribute disagrees with the slot; the era family: ONE type present in some eras '
                 'only - a new custom type supplied for 1, 2 or 3 eras in any listing order, with a revised '
                 'custom / a second new type / a replaced DOE cell beside it, or a library row with a None '
                 'cell - and stocks naming all / some of its supplied eras, a supplied AND an unsupplied '
                 'era, only an unsupplied era; low districts: bldheight 2 .. 6 m with flr_h up to 25 m) '
                 'vs Lean generateBEM: error class, or '
                 '[wf lines: the decidable hypotheses ShapeOK/SlotOK/KeysUnique/RefLib of the '
                 'theorems evaluated by Lean and by the harness on the same library] '
                 '(type, era, object identity, fraction, floor area, six attributes) of every '
                 'simulated archetype in list order and the three totals, exact rationals; '
                 'non-trivial = non-error selection',
            nontrivial=lambda line, impl: line.startswith('bem') and impl.startswith('ok'),
            classify=lambda line, impl: tags.get(line, 'lib'))

    def tie_reallib(self, cases):
        chk, kit, rl = self.chk, self.kit, self.rl
        pairs, tags = [(rl.line, 'ok lib rows=%d' % rl.spec['nt'])], {}
        for z in ZONES18:
            # the shipped library satisfies the hypotheses of T1-T3 at every zone column
            ans = wf_answer(rl.spec, z)
            pairs.append(('wf zone=%s' % z, ans))
            tags['wf zone=%s' % z] = 'wf'
            if ans != 'ok shape=1 slot=1 keys=1 reflib=1':
                chk.violation('impl-violation', 'shipped library well-formedness',
                              case={'zone': z}, observed=ans,
                              expected='16 rows, row i holds REF_BLDTYPE[i], era attribute = slot')
        for cs in cases:
            try:
                m = kit.UWG(EPW)
                m.bld = cs['bld']
            except AssertionError:
                continue
            cs['tie'] = 'B'
            res = impl_reallib(kit, rl, cs)
            self.judge(cs, res)
            line = case_line('bem', cs)
            pairs.append((line, result_line(res)))
            tags[line] = cs['zone'] + ':' + classify_case(cs, res)
        chk.correspond(
            '_customize+_compute_BEM~generateBEM(shipped library)', 'C07', pairs,
            rule='the same two real methods on the shipped 16x3x16 library (six attributes converted '
                 'losslessly to Fractions), every one of the 18 zones, customs made from shipped '
                 'archetypes (incl. the era family of new custom types, one member per zone), vs Lean '
                 'generateBEM on the same library; exact as above; the oracle also demands that Sch[k] is '
                 'the schedule set of BEM[k] (library cells and customs carry one marker in both halves); seventh round (harness/x2_util.derived_names): stocks holding, next to realisable rows, an UNKNOWN type made of the text of a realisable one with the same era - suffix (office / largeoffice), prefix, infix, concatenation, doubled letter -, next to custom types too, and a custom type asked for an era it was not supplied for: all must be refused',
            nontrivial=lambda line, impl: line.startswith('bem') and impl.startswith('ok'),
            classify=lambda line, impl: tags.get(line, 'lib').split(':')[-1])
        chk.assumptions.append('the shipped library satisfies RefLib/SlotOK/KeysUnique/ShapeOK at all '
                               '18 zones (checked on every run by Lean on the exported library and '
                               'by the harness)')
        return sorted({t.split(':')[0] for t in tags.values()} & set(ZONES18))

    def tie_generate(self, cases):
        chk, rl = self.chk, self.rl
        pairs, tags = [(rl.line, 'ok lib rows=%d' % rl.spec['nt'])], {}
        seq = []
        for i, cs in enumerate(cases):
            seq.append(cs)
            if i % 4 == 1 and not cs['customs'] and any(v is not None for v in cs['ov'].values()):
                # the same stock again with every override unset, on the same long-lived object:
                # an unset override must leave the reference values untouched
                clone = dict(cs)
                clone['ov'] = {k: None for k in cs['ov']}
                seq.append(clone)
        for cs in seq:
            cs = dict(cs)
            cs['tie'] = 'C'
            res = impl_generate(self.plain, rl, cs)
            if res is None:
                continue
            self.judge(cs, res, exact=False)
            line = case_line('sel', cs)
            pairs.append((line, result_line(res, full=False)))
            tags[line] = classify_case(cs, res)
        chk.correspond(
            'generate()~generateBEM(shipped library)', 'C07', pairs,
            rule='unmodified package: setters + generate() on ONE long-lived object re-generated case after case '
                 '(fresh object only for cases with custom vectors): (reload, customise with '
                 'deep copies, read EPW, select) for every zone, dyadic fractions and overrides as '
                 'doubles, vs Lean generateBEM: (type, era, object identity via bldtype/builtera/'
                 'zonetype, fraction, six carried attributes) of BEM in order, exact values of the '
                 'doubles; totals are doubles and judged by the oracle (same operations, same bits); '
                 'bldheight is assigned too (16 m, or a low district of 2 .. 6 m); era family as in tie A; seventh round (harness/x2_util.derived_names): stocks holding, next to realisable rows, an UNKNOWN type made of the text of a realisable one with the same era - suffix (office / largeoffice), prefix, infix, concatenation, doubled letter -, next to custom types too, and a custom type asked for an era it was not supplied for: all must be refused',
            nontrivial=lambda line, impl: line.startswith('sel') and impl.startswith('ok'),
            classify=lambda line, impl: tags.get(line, 'lib'))


def corpus_cases(rl):
    """Witnesses of the defects this property had before the repair; always run first."""
    def mk(zone, bld, ov=None, customs=()):
        o = {k: None for k in OVS}
        o.update(ov or {})
        table, flags = expected_column(rl.spec, zone, list(customs))
        return {'zone': zone, 'lib': rl.spec, 'customs': list(customs), 'bld': bld, 'ov': o,
                'cl': F(1000), 'bd': F(1, 2), 'bh': F(10), 'table': table, 'flags': flags,
                'kinds': {'corpus'}}
    v = (F(1, 4), F(1, 2), F(1, 8), F(3, 8), F(0), F(3))
    v2 = (F(3, 4), F(1, 8), F(5, 8), F(1, 2), F(1, 4), F(4))
    return [
        mk('1A', [('LargeOffice', 'pst80', F(3, 8)), ('midriseapartment', 'pst80', F(5, 8))]),
        mk('1A', [('largeoffice', 'pst80', F(1, 2)), ('largeoffice', 'PST80', F(1, 2))]),
        mk('5C', [('largeoffice', 'pst80', F(1, 4)), ('hospital', 'New', F(1, 2)),
                  ('largeoffice', 'pst80', F(1, 4))]),
        mk('1B', [('warehouse', 'pre80', F(1))]),
        mk('4A', [('skyscraper', 'new', F(1))]),
        mk('7', [('customa', 'new', F(1, 2)), ('midriseapartment', 'pre80', F(1, 2))],
           customs=[('customa', 2, 1000, v), ('midriseapartment', 0, 1001, v)]),
        mk('1A', [('customa', 'new', F(1))], customs=[('customa', 2, 1000, v)]),
        mk('4A', [('customa', 'pst80', F(1))],
           customs=[('customa', 1, 1000, v), ('customa', 1, 1001, v2)]),
        mk('5C', [('customa', 'pst80', F(1, 2)), ('customa', 'New', F(1, 4)), ('customb', 'new', F(1, 4))],
           customs=[('customa', 1, 1000, v), ('customb', 2, 1001, v2), ('customa', 2, 1002, v),
                    ('customa', 1, 1003, v2)]),
        mk('3B-CA', [('largeoffice', 'pst80', F(1))],
           ov={'glzr': F(0), 'shgc': F(0), 'albwall': F(0), 'albroof': F(0), 'vegroof': F(0)}),
        mk('8', [('smalloffice', 'new', F(1, 2)), ('stripmall', 'pre80', F(1, 2))],
           ov={'glzr': F(1), 'shgc': F(1), 'albwall': F(1), 'albroof': F(1), 'vegroof': F(1),
               'flrh': F(4)}),
    ]


def split_stock_runs(chk, plain):
    """C07, last clause: one archetype written as several identical entries with the same total
    fraction gives the same urban weather (1-day simulations, hourly canyon temperature)."""
    pairs = [
        ([('largeoffice', 'pst80', 0.4), ('midriseapartment', 'pst80', 0.6)],
         [('largeoffice', 'pst80', 0.25), ('midriseapartment', 'pst80', 0.6),
          ('largeoffice', 'PST80', 0.15)], '1A'),
        ([('hospital', 'new', 1.0)],
         [('hospital', 'new', 0.1), ('hospital', 'New', 0.2), ('hospital', 'NEW', 0.3),
          ('hospital', 'new', 0.4)], '5C'),
        ([('smalloffice', 'pre80', 0.5), ('warehouse', 'new', 0.5)],
         [('warehouse', 'new', 0.125), ('smalloffice', 'pre80', 0.5), ('warehouse', 'new', 0.375)],
         '1B'),
    ]
    if chk.tier == 'thorough':
        pairs.append(([('largehotel', 'pst80', 0.3), ('supermarket', 'pre80', 0.7)],
                      [('largehotel', 'pst80', 0.1), ('supermarket', 'pre80', 0.35),
                       ('largehotel', 'pst80', 0.2), ('supermarket', 'Pre80', 0.35)], '6A'))
    bad, worst = 0, 0.0
    for single, split, zone in pairs:
        temps = []
        for bld in (single, split):
            with quiet():
                m = plain.UWG.from_param_file(PARAM, epw_path=EPW, new_epw_dir=chk.work())
            m.nday, m.bld, m.zone = 1, bld, zone
            with quiet():
                m.generate()
                m.simulate()
            temps.append([u.canTemp for u in m.UCMData])
        diff = max(abs(a - b) for a, b in zip(*temps)) if len(temps[0]) == len(temps[1]) else 1e9
        worst = max(worst, diff)
        if not (diff <= 1e-9) or len(temps[0]) != 24:
            bad += 1
            chk.violation('impl-violation', 'split-stock simulation',
                          case={'single': single, 'split': split, 'zone': zone},
                          observed='hourly canyon temperatures differ by up to %.3e K' % diff,
                          expected='identical urban weather up to rounding (1e-9 K)')
    chk.direct('split-stock 1-day simulation', len(pairs), len(pairs),
               'generate()+simulate() for one day (Singapore files) with a stock list and with the '
               'same stock written as several rows per archetype (mixed era case); 24 hourly canyon '
               'temperatures compared to 1e-9 K', mismatches=bad)
    chk.measurements['split_stock_max_abs_diff_K'] = worst


# ------------------------------------------------------------------------------- identity structure
SHARE_PATTERNS = [
    ('separate objects', None),
    ('one wall Element in both', ('wall',)),
    ('one roof and one mass Element in both', ('roof', 'mass')),
    ('one envelope (wall, roof, mass) in both', ('wall', 'roof', 'mass')),
    ('one Building in both', ('building',)),
    ('everything but the labels in both', ('building', 'wall', 'roof', 'mass')),
]


def identity_cases(rng, quick):
    """custom vectors as a caller writes them: (label, spec, extra DOE rows, zone)"""
    import s2_util as S
    cases = []
    for label, roles in SHARE_PATTERNS:
        for kind in ('new', 'doe'):
            if kind == 'new':
                spec = S.spec_shared(roles or (), types=('rowhouse', 'rowhouseretrofit'),
                                     era=rng.choice(ERAS), src=((5, 2, 0), (5, 1, 0)))
            else:                  # customs that REPLACE two DOE archetypes and share a construction
                spec = S.spec_shared(roles or (), types=('largeoffice', 'hospital'), era=rng.choice(ERAS),
                                     src=((3, 1, 0), (1, 1, 0)))
            if roles is None:
                spec[1].pop('share')
            cases.append(('two %s customs, %s' % ('new-type' if kind == 'new' else 'DOE-type', label), spec,
                          [('midriseapartment', 'pst80')] if rng.random() < 0.6 else [],
                          rng.choice(ZONES18)))
    # three customs around one wall; first + revised custom that share their envelope
    spec = S.spec_new_types(3)
    spec[1]['share'] = (0, 'wall')
    spec[2]['share'] = (0, 'wall', 'mass')
    cases.append(('three new-type customs around one wall Element', spec, [('smalloffice', 'new')], '4A'))
    spec = S.spec_first_revised() + S.spec_shared(('wall', 'roof', 'mass'))
    spec[1]['share'] = (0, 'wall', 'roof', 'mass')
    spec[3]['share'] = (2, 'wall', 'roof', 'mass')
    cases.append(('first + revised custom of one type and era sharing the envelope, two more sharing theirs',
                  spec, [], '5C'))
    return cases


def identity_ties(chk, plain):
    """C07 'the simulated archetypes correspond one-to-one to the rows': the entries of BEM must be SEPARATE
    archetypes - `urbflux` advances wall, roof and mass of every entry once per time step, so an Element (or
    Building) that two entries have in common is advanced twice per step and each of the two buildings sees the
    other's surface state. Checked on the identity structure (`is`) of what generate() puts into BEM against the
    objects the caller supplied and the objects the shipped library holds, on step counts of live runs, and on
    twin simulations (one construction object used twice vs equal separate copies)."""
    import s2_util as S
    import uwgutil as U
    rng = chk.rng
    quick = chk.tier == 'quick'
    work = chk.work()
    nbad = ncase = 0
    findings = []
    branches = {}

    def bad(what, case, observed, expected):
        nonlocal nbad
        nbad += 1
        if nbad <= 3:
            chk.violation('impl-violation', what, case=case, observed=observed, expected=expected)

    def kwargs_model(bv, sv, bld, zone, nday=1):
        return plain.UWG.from_param_args(
            10.0, 0.5, 0.8, 0.1, 0.1, zone, month=7, day=1, nday=nday, dtsim=300, bld=bld,
            epw_path=EPW, new_epw_dir=work, new_epw_name='ident.epw', ref_bem_vector=bv, ref_sch_vector=sv)

    # ---- (1) the shipped library: every type with two / three of its eras in one stock
    pristine, _ = plain.UWG.load_refDOE()
    lib_stocks = []
    for t in REF_BLDTYPE:
        for eras in ([('pre80', 'new')] if quick else [('pre80', 'new'), ('pre80', 'pst80', 'new'), ('pst80', 'new')]):
            lib_stocks.append(([(t, e) for e in eras], rng.choice(ZONES18)))
    lib_stocks += [([('standaloneretail', 'new'), ('stripmall', 'pst80')], '8'),
                   ([('supermarket', 'new'), ('warehouse', 'pre80')], '8'),
                   ([('largeoffice', 'pst80'), ('midriseapartment', 'pst80'), ('hospital', 'new')], '1B')]
    prev = None
    for keys, zone in lib_stocks:
        n = len(keys)
        bld = [(t, e, 1.0 / n if i < n - 1 else 1.0 - (n - 1) * (1.0 / n)) for i, (t, e) in enumerate(keys)]
        with quiet():
            m = plain.UWG.from_param_file(PARAM, epw_path=EPW, new_epw_dir=work)
        m.bld, m.zone, m.nday = bld, zone, 1
        with quiet():
            m.generate()
        ncase += 1
        case = {'bld': bld, 'zone': zone, 'customs': None}
        got = S.identity_structure(m.BEM)
        zi = REFZ.index(proxy(zone))
        cells = [(REF_BLDTYPE.index(b.bldtype), ERAS.index(b.builtera), zi) for b in m.BEM]
        lib = S.identity_structure([pristine[i][j][k] for i, j, k in cells])
        extra = [g for g in got if g not in lib]
        if extra:
            bad('identity structure of BEM after generate() (shipped library)', case,
                'simulated archetypes are not separate: %s' % '; '.join(extra[:4]),
                'no stateful object in common between two entries of BEM (the shipped library itself holds '
                'separate objects at these cells)')
        elif got:
            findings.append((case, got))
            branches['library-aliased'] = branches.get('library-aliased', 0) + 1
        else:
            branches['library-separate'] = branches.get('library-separate', 0) + 1
        if prev is not None:
            cross = S.identity_structure(m.BEM, others=prev.BEM)
            if cross:
                bad('identity structure of BEM after generate() (two models)', case,
                    'archetypes of two models are one object: %s' % '; '.join(cross[:3]),
                    'every model owns its archetypes')
        prev = m

    # ---- (2) custom vectors handed over as objects (keyword route), with and without common sub-objects
    sims = []
    for label, spec, extra_rows, zone in identity_cases(rng, quick):
        bv, sv = S.custom_vector(plain, spec)
        bld = S.bld_for(spec, extra=extra_rows)
        case = {'customs': [{k: v for k, v in sp.items()} for sp in spec], 'pattern': label, 'bld': bld,
                'zone': zone}
        given_structure = S.identity_structure(bv, names=['given[%d]' % i for i in range(len(bv))])
        given_dicts = [b.to_dict() for b in bv]
        try:
            m = kwargs_model(bv, sv, bld, zone)
            with quiet():
                m.generate()
        except Exception as e:  # noqa: BLE001
            bad('generate() with a custom vector', case, '%s: %s' % (type(e).__name__, str(e)[:200]),
                'the stock is realisable: every row names a custom or a DOE archetype')
            continue
        ncase += 1
        branches['custom:' + label.split(',')[-1].strip()] = branches.get('custom:' + label.split(',')[-1].strip(), 0) + 1
        got = S.identity_structure(m.BEM)
        if got:
            bad('identity structure of BEM after generate() (custom vector)', case,
                'simulated archetypes are not separate, they share: %s' % '; '.join(got[:6]),
                'every row of the stock is simulated as an archetype of its own (the caller\'s objects share: %s)'
                % ('; '.join(given_structure[:6]) or 'nothing'))
        cross = S.identity_structure(m.BEM, others=bv)
        if cross:
            bad('identity structure of BEM after generate() (caller\'s objects)', case,
                'BEM holds the caller\'s own objects: %s' % '; '.join(cross[:4]),
                'copies (simulating must not alter the custom BEMDefs the caller keeps)')
        # every simulated custom carries exactly the values of the custom the caller gave (last one wins)
        want = {}
        for n, sp in enumerate(spec):
            want[(sp['type'], sp['era'])] = n
        for b in m.BEM:
            n = want.get((b.bldtype, b.builtera))
            if n is None:
                continue
            if b.zonetype != 'c%d' % n or b.to_dict() != given_dicts[n]:
                bad('custom archetype carried into BEM', case,
                    '%s %s is simulated with marker %r / values differing from custom %d'
                    % (b.bldtype, b.builtera, b.zonetype, n),
                    'the (last) custom given for this type and era, value for value')
        if len(sims) < (3 if quick else 8) and ('wall' in label or 'Building' in label or 'envelope' in label):
            sims.append((label, spec, bld, zone, m, bv, sv, given_structure, given_dicts))

    # ---- (3) live runs: every wall / roof advanced once per step; shared description == separate description
    nsim = 0
    for label, spec, bld, zone, m, bv, sv, given_structure, given_dicts in sims:
        case = {'customs': spec, 'pattern': label, 'bld': bld, 'zone': zone}
        with S.Patch() as p:
            sc = S.StepCounter(p)
            with quiet():
                m.simulate()
        nsim += 1
        for j, b in enumerate(m.BEM):
            for role in ('wall', 'roof'):
                c = sc.surf.get(id(getattr(b, role)), 0)
                if c != sc.steps:
                    bad('every simulated archetype is advanced once per time step', case,
                        'the %s of BEM[%d] (%s %s) was advanced %d times in %d steps' % (
                            role, j, b.bldtype, b.builtera, c, sc.steps),
                        'one SurfFlux call per step')
        # the caller's objects: same structure, same values as before generate + simulate
        if S.identity_structure(bv, names=['given[%d]' % i for i in range(len(bv))]) != given_structure or \
                [b.to_dict() for b in bv] != given_dicts:
            bad('the caller\'s custom objects after generate + simulate', case, 'changed', 'unchanged')
        # twin: the same customs written with separate, equal objects
        bv2, sv2 = S.custom_vector(plain, spec)
        bv2 = [copy.deepcopy(b) for b in bv2]            # one deepcopy per entry: no object in common any more
        if S.identity_structure(bv2):
            raise core.Infra('twin construction still shares objects')
        m2 = kwargs_model(bv2, sv2, bld, zone)
        with quiet():
            m2.generate()
            m2.simulate()
        nsim += 1
        r1, r2 = U.records(m), U.records(m2)
        if r1 != r2:
            d = max((abs(float(a[0]) - float(b[0])) for a, b in zip(r1, r2) if a and b), default=float('nan'))
            bad('equivalent descriptions of one stock give the same urban weather', case,
                'customs written around one shared object vs equal separate objects: hourly records differ '
                '(canyon temperature by up to %.3e K)' % d,
                'bit-identical hourly records (the values of every parameter are equal)')

    # ---- (4) library stocks with aliased cells: advanced how often?  (finding, recorded - not a verdict)
    alias_steps = None
    if findings:
        case, got = findings[0]
        with quiet():
            m = plain.UWG.from_param_file(PARAM, epw_path=EPW, new_epw_dir=work)
        m.bld, m.zone, m.nday = case['bld'], case['zone'], 1
        with S.Patch() as p:
            sc = S.StepCounter(p)
            with quiet():
                m.generate()
                m.simulate()
        nsim += 1
        alias_steps = {'stock': case['bld'], 'zone': case['zone'], 'steps': sc.steps,
                       'wall_advanced': [sc.surf.get(id(b.wall), 0) for b in m.BEM]}
    chk.direct('identity-structure(BEM after generate; live step counts; shared-vs-separate twins)', ncase + nsim,
               ncase + nsim,
               'unmodified package. Explored: (1) for each of the 16 DOE types a stock of two (thorough: also '
               'three) of its eras, random zone of the 18, plus mixed stocks: no stateful object (BEMDef, '
               'Building, Element, their lists) may be common to two entries of BEM unless the pristine pickle '
               'holds the same object at both cells (that is recorded as a finding, see notes), none common to '
               'the BEM of two models; (2) custom vectors given as objects through from_param_args: two new-type '
               'and two DOE-type customs x {separate, one wall, roof+mass, whole envelope, one Building, '
               'everything} in common, three customs around one wall, first+revised custom sharing an envelope: '
               'entries of BEM pairwise separate, separate from the caller\'s objects, equal to the caller\'s '
               'custom value for value (to_dict), last custom of a type+era wins; (3) 1-day simulations: every '
               'wall and roof advanced exactly once per step, caller\'s objects unchanged, and the same customs '
               'written around one shared object vs equal separate objects give bit-identical hourly records',
               mismatches=nbad, branches=branches)
    if findings:
        chk.measurements['library_stocks_with_aliased_archetypes'] = [
            {'stock': c['bld'], 'zone': c['zone'], 'shared': g[:6]} for c, g in findings[:6]]
        chk.measurements['aliased_stock_step_count'] = alias_steps
        chk.notes.append(
            'FINDING (unchanged tree, recorded - not a verdict): in uwg/refdata/readDOE.pkl all 48 stripmall cells '
            'hold ONE wall and ONE mass Element (the objects of standaloneretail/new/zone 8) and all 48 warehouse '
            'cells ONE wall and ONE mass Element (those of supermarket/new/zone 8; warehouse pst80/new also the '
            'roof of warehouse/pre80/zone 8): readDOE.py does not recognise the construction names "Steel-frame", '
            '"Metal building wall", "Metal building roof" of BLD14/BLD16 and re-uses the objects of the previous '
            'iteration. %d of %d library stocks explored here therefore simulate two rows with one wall state '
            '(e.g. %s: %s); urbflux advances that wall once per row (%s)' % (
                len(findings), len(lib_stocks), findings[0][0]['bld'], '; '.join(findings[0][1][:2]), alias_steps))


# ------------------------------------------------------------------------------- archetype = BEMDef + schedules
def era_schedule_runs(chk, plain):
    """C07 'each has the requested type and era ... custom archetypes replace or extend the reference set',
    for the half of an archetype that the BEM list does not show: the schedule set `simulate()` drives it with
    (Sch[k] for BEM[k]). Customs of ONE type in several eras, each era with its own set points and loads,
    through the unmodified package:
      * after generate(): Sch[k] is, value for value, the schedule set supplied for (type, era) of BEM[k]
        (the shipped one for DOE rows);
      * twins: the same archetypes supplied under one type name (several eras) and under separate type names
        describe the same city: bit-identical hourly records of 1-day runs."""
    import t2_util as T
    import uwgutil as U
    rng = chk.rng
    quick = chk.tier == 'quick'
    work = chk.work()
    members = T.era_schedule_members(rng, quick)
    nbad = ncase = nsim = 0
    branches = {}

    def bad(what, case, observed, expected):
        nonlocal nbad
        nbad += 1
        if nbad <= 3:
            chk.violation('impl-violation', what, case=case, observed=observed, expected=expected)

    def model(bv, sv, bld, zone):
        return plain.UWG.from_param_args(
            10.0, 0.5, 0.8, 0.1, 0.1, zone, month=1, day=2, nday=1, dtsim=300, bld=bld, epw_path=EPW,
            new_epw_dir=work, new_epw_name='erasch.epw', ref_bem_vector=bv, ref_sch_vector=sv)

    pristine_sch = plain.UWG.load_refDOE()[1]
    for mem in members:
        case = {'customs (type, era, cooling set point C, q_elec W/m2, listing order)': mem['describe'],
                'bld': mem['bld'], 'zone': mem['zone']}
        branches[mem['kind']] = branches.get(mem['kind'], 0) + 1
        results = []
        for names in (mem['one_type'], mem['separate_types']):
            bv, sv = T.era_customs(plain, mem, names)
            bld = [(names[i], e, f) for (i, e, f) in mem['rows']] + list(mem['doe_rows'])
            want = {(b.bldtype, b.builtera): U.fingerprint(s_) for b, s_ in zip(bv, sv)}   # (later custom wins)
            try:
                m = model(bv, sv, bld, mem['zone'])
                with quiet():
                    m.generate()
            except Exception as e:  # noqa: BLE001
                bad('generate() with customs of one type in several eras', case,
                    '%s: %s' % (type(e).__name__, str(e)[:200]), 'the stock is realisable')
                results.append(None)
                continue
            ncase += 1
            zi = REFZ.index(proxy(mem['zone']))
            if len(m.Sch) != len(m.BEM):
                bad('one schedule set per simulated archetype', case,
                    '%d schedule sets for %d archetypes' % (len(m.Sch), len(m.BEM)), 'equal length')
            for k, (b, s_) in enumerate(zip(m.BEM, m.Sch)):
                key = (b.bldtype, b.builtera)
                if key in want:
                    exp = want[key]
                else:
                    exp = U.fingerprint(pristine_sch[REF_BLDTYPE.index(b.bldtype)][ERAS.index(b.builtera)][zi])
                if U.fingerprint(s_) != exp:
                    bad('schedule set simulated with an archetype (Sch[k] of BEM[k])', case,
                        'BEM[%d] = %s/%s is driven by the schedule set of %s/%s: cooling set point %r C, q_elec %r '
                        'W/m2' % (k, b.bldtype, b.builtera, s_.bldtype, s_.builtera, s_.cool[0][12], s_.q_elec),
                        'the schedule set supplied for %s/%s (value for value)' % key)
                    break
            if mem['simulate']:
                with quiet():
                    m.simulate()
                nsim += 1
                results.append(U.records(m))
        if mem['simulate'] and len(results) == 2 and None not in results and results[0] != results[1]:
            d = max((abs(float(a[0]) - float(b[0])) for a, b in zip(*results) if a and b), default=float('nan'))
            bad('the same archetypes under one type name (several eras) and under separate type names', case,
                'hourly records differ (canyon temperature by up to %.3e K)' % d,
                'bit-identical hourly records: both describe the same buildings, schedules and fractions')
    chk.direct('archetype=BEMDef+schedule-set(customs of one type in several eras)', ncase + nsim, ncase + nsim,
               'unmodified package, keyword route. Explored: a new custom type (and a DOE type that customs '
               'replace) supplied for 2 or 3 eras, every era with its own cooling / heating set points, plug load '
               'and occupancy, customs listed in era order, reversed and rotated, stock naming all or some of the '
               'supplied eras next to DOE rows, several zones: after generate() Sch[k] must equal (deep digest) '
               'the schedule set supplied for the type and era of BEM[k] - the shipped one for DOE rows; twins '
               '(%d one-day simulations): the same BEMDef/SchDef pairs under ONE type name vs under separate type '
               'names give bit-identical hourly records' % nsim, mismatches=nbad, branches=branches)


# ------------------------------------------------------------------------------- circumstances (fourth round)
def circumstance_members(quick):
    """(label, model description for harness/u2_util.new_from_spec, realisable?)"""
    lab = [{'type': 'labtower', 'era': 'new', 'src': [3, 2, 0], 'bem': {'building.heateff': 0.7, 'roof.albedo': 0.55},
            'sch': {'q_elec': 60.0, 'cool': {'const': 21.0}}}]
    doe = [{'type': 'largeoffice', 'era': 'pst80', 'src': [3, 1, 0], 'bem': {'wall.albedo': 0.35},
            'sch': {'q_elec': 43.04, 'cool': {'const': 18.0}}}]

    def mk(bld, zone, customs=None, extra=()):
        return {'attrs': [['nday', 1], ['dtsim', 300], ['bld', bld], ['zone', zone]] + list(extra), 'customs': customs}
    mem = [
        ('two DOE rows, smaller share first', mk([['largeoffice', 'pst80', 0.4], ['midriseapartment', 'pst80', 0.6]], '1A'), True),
        ('three DOE rows, shares 0.3 / 0.2 / 0.5 in library order', mk([['hospital', 'new', 0.3], ['largeoffice', 'pst80', 0.2],
                                                                       ['midriseapartment', 'pst80', 0.5]], '4A'), True),
        ('rows given largest first, era in capitals, one archetype in two rows, proxy zone', mk(
            [['warehouse', 'NEW', 0.125], ['smalloffice', 'Pre80', 0.5], ['warehouse', 'new', 0.375]], '1B'), True),
        ('custom new type (small share) beside a DOE row', mk([['labtower', 'New', 0.25], ['midriseapartment', 'pst80', 0.75]],
                                                             '5C', lab), True),
        ('custom replacing a DOE archetype, equal shares', mk([['largeoffice', 'pst80', 0.5], ['secondaryschool', 'pre80', 0.5]],
                                                             '1A', doe), True),
        ('unknown building type in the second row', mk([['largeoffice', 'pst80', 0.6], ['parkinggarage', 'new', 0.4]], '1A'), False),
        ('custom type asked for in an era for which no custom was given', mk(
            [['midriseapartment', 'pst80', 0.5], ['labtower', 'pre80', 0.5]], '3C', lab), False),
        ('DOE type written in capitals', mk([['LargeOffice', 'pst80', 0.5], ['hospital', 'new', 0.5]], '2A'), False),
    ]
    if quick:
        mem = [m for k, m in enumerate(mem) if k != 1]
    return mem


def live_oracle(plain, m, ms, pristine):
    """C07 on a generated live model, independent of anything kept in the process: BEM keys and shares = the stock;
    BEM[k] carries the reference values of its own library cell (or custom); Sch[k] is - value for value - the
    schedule set of the type and era of BEM[k] in the PRISTINE pickle (or the custom given)."""
    import u2_util as W
    import uwgutil as U
    attrs = dict((a, v) for a, v in ms['attrs'])
    agg = {}
    for t, e, f in attrs['bld']:
        agg[(t, e.lower())] = agg.get((t, e.lower()), 0.) + f
    zi = REFZ.index(proxy(attrs['zone']))
    cust = {}
    if ms.get('customs'):
        bv, sv = W.make_customs(plain, ms['customs'])
        for b, s_ in zip(bv, sv):
            cust[(b.bldtype, b.builtera)] = (b, s_)
    got = {}
    for b in m.BEM:
        if (b.bldtype, b.builtera) in got:
            return 'two simulated archetypes for %s %s' % (b.bldtype, b.builtera)
        got[(b.bldtype, b.builtera)] = b.frac
    if got != agg:
        return 'simulated archetypes and shares %s, the stock asks for %s' % (sorted(got.items()), sorted(agg.items()))
    if len(m.Sch) != len(m.BEM):
        return '%d schedule sets for %d archetypes' % (len(m.Sch), len(m.BEM))
    for k, (b, s_) in enumerate(zip(m.BEM, m.Sch)):
        key = (b.bldtype, b.builtera)
        if key in cust:
            rb, rs = cust[key]
        else:
            i, j = REF_BLDTYPE.index(b.bldtype), ERAS.index(b.builtera)
            rb, rs = pristine[0][i][j][zi], pristine[1][i][j][zi]
        if (s_.bldtype, s_.builtera) != key or W.sch_values(s_) != W.sch_values(rs):
            return ('BEM[%d] = %s %s (share %r) is paired with Sch[%d] = schedule set of %s %s (q_elec %r W/m2, cooling set '
                    'point at noon %r C); the schedule set of %s %s has q_elec %r, set point %r - no row of the stock asks '
                    'for that building' % (k, b.bldtype, b.builtera, b.frac, k, s_.bldtype, s_.builtera, s_.q_elec,
                                           s_.cool[0][12], b.bldtype, b.builtera, rs.q_elec, rs.cool[0][12]))
        have = (b.building.glazing_ratio, b.building.shgc, b.wall.albedo, b.roof.albedo, b.roof.vegcoverage,
                b.building.floor_height, b.building.cop, b.building.heateff)
        want = (rb.building.glazing_ratio, rb.building.shgc, rb.wall.albedo, rb.roof.albedo, rb.roof.vegcoverage,
                rb.building.floor_height, rb.building.cop, rb.building.heateff)
        if have != want:
            return 'BEM[%d] = %s %s carries (glazing, shgc, wall / roof albedo, roof vegetation, floor height, cop, heating efficiency) = %r, ' \
                   'its archetype has %r' % (k, b.bldtype, b.builtera, have, want)
    return None


def circumstance_start(chk):
    """members + the fresh-interpreter scenarios (python and python -O) of circumstance_ties, started now: they are
    independent processes and run while the other ties of the check use this one"""
    import concurrent.futures
    import u2_util as W
    quick = chk.tier == 'quick'
    work = chk.work()
    mem = circumstance_members(quick)

    def spec_for(ms, tag):
        d = dict(ms)
        d['out'] = [os.path.join(work, 'cc_' + tag), 'o.epw']
        return d

    def ops_ok(nm, write=True):
        # (write_epw re-formats all 8760 rows - 0.4 s: only the members that are compared with a command-line file write)
        return [['new', 'M', nm], ['gen', 'M'], ['obs', 'M', 'gen'], ['sim', 'M']] + ([['write', 'M']] if write else []) + \
            [['rec', 'M', 'run']]
    names = {lab_: k for k, (lab_, _, _) in enumerate(mem)}
    kA, kB = names['custom replacing a DOE archetype, equal shares'], names['two DOE rows, smaller share first']
    kL = names['custom new type (small share) beside a DOE row']
    to_cli = [k for k, (_, _, ok) in enumerate(mem) if not ok or not quick or k in (kB, kA, kL)]
    writes = lambda k: (not mem[k][2]) or k in to_cli       # noqa: E731  (unrealisable ones never get that far)
    jobs = []
    for k, (label, ms, ok) in enumerate(mem):
        for opt in (False, True):
            tag = 'm%d%s' % (k, '-O' if opt else '')
            jobs.append((tag, {'ops': ops_ok(spec_for(ms, tag), writes(k))}, opt))
    pool = concurrent.futures.ThreadPoolExecutor(max_workers=1)
    return {'mem': mem, 'spec_for': spec_for, 'ops_ok': ops_ok, 'k': (kA, kB, kL), 'to_cli': to_cli, 'writes': writes,
            'pool': pool, 'fut': pool.submit(W.children, jobs, work, 5 if quick else 8)}


def circumstance_ties(chk, plain, early=None):
    """The six circumstances of harness/generic.py applied to C07: the stock that is simulated (and the refusal of an
    unrealisable one) must not depend on who looks at the model, the logging level, `python -O`, the route, other
    models of the process, or what the caller does with the data he handed in."""
    import concurrent.futures
    import json
    import generic as G
    import u2_util as W
    import uwgutil as U
    quick = chk.tier == 'quick'
    work = chk.work()
    early = early or circumstance_start(chk)
    mem, spec_for, ops_ok, to_cli, writes, pool, fut = (early[k_] for k_ in (
        'mem', 'spec_for', 'ops_ok', 'to_cli', 'writes', 'pool', 'fut'))
    kA, kB, kL = early['k']
    nbad, n, br, shown = 0, 0, {}, {}

    def bad(circ, what, case, observed, expected):
        nonlocal nbad
        nbad += 1
        shown[circ] = shown.get(circ, 0) + 1
        if shown[circ] <= 2 and nbad <= 8:
            chk.violation('impl-violation', '%s [%s]' % (what, circ), case=case, observed=observed, expected=expected)

    def count(circ):
        nonlocal n
        n += 1
        br[circ] = br.get(circ, 0) + 1
    pristine = plain.UWG.load_refDOE()
    base = {}
    cl0 = W.class_digest()
    for k, (label, ms, ok) in enumerate(mem):
        try:
            case = {'stock': dict(ms['attrs'])['bld'], 'zone': dict(ms['attrs'])['zone'], 'custom_reference_buildings':
                    ms.get('customs'), 'member': label}
            # plain run, nobody looks (reference of this process)
            doc = W.run_scenario({'ops': ops_ok(spec_for(ms, 'p%d' % k), writes(k))})
            base[k] = doc
            count('plain')
            refused = doc['log'][1] != 'ok'
            if ok and refused:
                bad('plain', 'realisable stock', case, 'generate() %s' % doc['log'][1], 'every row has an archetype: simulated')
                continue
            if not ok and not refused:
                bad('plain', 'unrealisable stock', case, 'generate() returned; simulated archetypes %s' % [
                    b[:4] for b in doc['obs']['gen']['bem']], 'refused as a whole')
            # (1) + (2) somebody looks, DEBUG logging
            count('observers + DEBUG logging')
            with G.debug_logging():
                uwg = plain
                m = W.new_from_spec(uwg, spec_for(ms, 'l%d' % k))
                lst = m.bld                                     # (the caller's own list, see (6))
                snap = G.snapshot(lst)
                G.poke(m)
                err = None
                try:
                    with quiet():
                        m.generate()
                except Exception as e:  # noqa: BLE001
                    err = type(e).__name__
                G.poke(m)
                if not ok:
                    err2 = None
                    try:
                        with quiet():
                            m.generate()
                    except Exception as e:  # noqa: BLE001
                        err2 = type(e).__name__
                    if err is None or err2 is None:
                        bad('observers', 'unrealisable stock while somebody looks', case,
                            'generate() %s, again after repr(): %s' % (err or 'returned', err2 or 'returned'), 'refused both times')
                    continue
                if err:
                    bad('observers', 'realisable stock while somebody looks', case, 'generate() raised %s' % err, 'simulated')
                    continue
                msg = live_oracle(plain, m, ms, pristine)
                if msg:
                    bad('observers', 'the simulated stock after repr() / str() / ToString() of the generated model', case, msg,
                        'looking at a model changes nothing: every archetype is driven by its own schedule set')
                order = [b[:2] for b in W.bem_summary(m)]
                if order != [b[:2] for b in doc['obs']['gen']['bem']]:
                    bad('observers', 'order of the simulated archetypes after repr()', case,
                        'BEM order %s; never looked at: %s' % (order, [b[:2] for b in doc['obs']['gen']['bem']]), 'the same')
                undo = G.poke_during(m)
                try:
                    with quiet():
                        m.simulate()
                finally:
                    undo()
                G.poke(m)
                if k == 0:
                    with quiet():
                        m.write_epw()
            got = {'records': W.records_of(m), 'file': G.file_hash(m.new_epw_path) if k == 0 else doc['obs']['run']['file']}
            w = G.where_differs(doc['obs']['run'], got)
            if w:
                r0, r1 = doc['obs']['run']['records'], got['records']
                d = G.first_diff(r0, r1)
                bad('observers', 'urban weather of a model that was looked at (after construction, after generate(), every 41st '
                    'step, after simulate(); DEBUG logging)', case,
                    'hourly records / written file differ from the same stock never looked at: first differing hour %s: canyon '
                    'temperature %s vs %s' % (d and d[0], d and d[2] and d[2][0], d and d[1] and d[1][0]), 'bit-identical')
            # (6) the list the caller handed in
            if not G.plain_equal(snap, lst):
                bad('caller-owned data', 'the stock list the caller handed in', case, G.where_differs(snap, lst), 'left as it was')
        except Exception as e_:  # noqa: BLE001 - code under test raising where the unchanged tree does not
            bad('plain / observers', 'a call raised', {'member': label, 'model': ms}, '%s: %s' % (type(e_).__name__, str(e_)[:200]), 'the calls return')
    if W.class_digest() != cl0:
        bad('other models', 'module- and class-level data of the package', {'operations': 'the runs above'},
            'digest changed', 'unchanged by operations on models')
    # ---- (5) who else lives in the process: absolute oracle on B after A was generated / simulated, and the reverse
    for first, second in ((kA, kB), (kL, kB), (kB, kA)):
        try:
            count('other models')
            msA, msB = mem[first][1], mem[second][1]
            a = W.new_from_spec(plain, spec_for(dict(msA, attrs=msA['attrs'] + [['glzr', 0.9], ['albroof', 0.7], ['autosize', True]]), 'oa'))
            b = W.new_from_spec(plain, spec_for(msB, 'ob'))
            with quiet():
                a.generate()
                b.generate()
            case = {'first_model (also glzr 0.9, albroof 0.7, autosize)': msA, 'second_model': msB,
                    'sequence': 'first.generate(); second.generate(); first.simulate(); second.simulate()'}
            msg = live_oracle(plain, b, msB, pristine)
            cross = __import__('s2_util').identity_structure(b.BEM, others=a.BEM)
            if msg or cross:
                bad('other models', 'the stock of a model generated after another model', case,
                    msg or 'the two models simulate one object: %s' % cross[:3],
                    'archetypes and schedule sets of the second model come from the pristine library / its own customs')
                continue
            with quiet():
                a.simulate()
                b.simulate()
            if W.records_of(b) != base[second]['obs']['run']['records']:
                d = G.first_diff(base[second]['obs']['run']['records'], W.records_of(b))
                bad('other models', 'urban weather of a model simulated beside another model', case,
                    'hourly records differ from the same model alone (first differing hour %s)' % (d and d[0]), 'bit-identical')
        except Exception as e_:  # noqa: BLE001 - code under test raising where the unchanged tree does not
            bad('other models', 'a call raised', {'first': mem[first][0], 'second': mem[second][0]}, '%s: %s' % (type(e_).__name__, str(e_)[:200]), 'the calls return')
    # ---- (6) + (4) dictionary / JSON / command line, the dictionary used twice
    cli_jobs = []
    for k, (label, ms, ok) in enumerate(mem):
        if k not in to_cli:
            continue
        src = W.new_from_spec(plain, spec_for(ms, 'd%d' % k))
        d = src.to_dict(include_refDOE=True)
        text = json.dumps(d)
        snap = G.snapshot(d)
        case = {'stock': dict(ms['attrs'])['bld'], 'zone': dict(ms['attrs'])['zone'], 'custom_reference_buildings':
                ms.get('customs'), 'member': label, 'route': 'to_dict(include_refDOE=True) of a keyword-built model, the '
                'SAME dictionary object given to from_dict twice'}
        count('caller-owned data')
        outs = []
        for use in (1, 2):
            try:
                with quiet():
                    m2 = plain.UWG.from_dict(d, epw_path=EPW, new_epw_dir=work, new_epw_name='ccd.epw')
                    m2.generate()
                outs.append(live_oracle(plain, m2, ms, pristine) or 'ok')
            except Exception as e:  # noqa: BLE001
                outs.append('raised ' + type(e).__name__)
            w = G.where_differs(snap, d)
            if w:
                bad('caller-owned data', 'from_dict + generate leave the caller\'s dictionary as it was', case,
                    'after use %d: %s' % (use, w), 'unchanged')
                break
        want = 'ok' if ok else 'raised'
        if any(not o.startswith(want) for o in outs):
            bad('caller-owned data', 'a stock described by a dictionary that is used twice', case,
                'first use: %s; second use: %s' % tuple((outs + ['-'])[:2]),
                'both uses: %s' % ('the whole stock simulated' if ok else 'refused'))
        od = os.path.join(work, 'cc_cli%d' % k)
        os.makedirs(od, exist_ok=True)
        jp = os.path.join(od, 'model.json')
        with open(jp, 'w') as f:
            f.write(text)
        for opt in ((False, True) if not ok else (False,)):
            cli_jobs.append((k, opt, od, ['simulate', 'model', jp, EPW, '--new-epw-dir', od, '--new-epw-name',
                                          'o%d.epw' % opt]))
    with concurrent.futures.ThreadPoolExecutor(max_workers=6) as ex:
        cli_out = list(ex.map(lambda j: G.cli(j[3], optimize=j[1]), cli_jobs))
    for (k, opt, od, args), (rc, so, se) in zip(cli_jobs, cli_out):
        label, ms, ok = mem[k]
        count('command line' + (' -O' if opt else ''))
        fp = os.path.join(od, 'o%d.epw' % opt)
        case = {'stock': dict(ms['attrs'])['bld'], 'zone': dict(ms['attrs'])['zone'], 'custom_reference_buildings':
                ms.get('customs'), 'member': label,
                'command': 'python %s-m uwg simulate model <JSON text of the model> <Singapore epw>' % ('-O ' if opt else '')}
        if ok:
            if rc != 0 or not os.path.exists(fp) or G.file_hash(fp) != base[k]['obs']['run']['file']:
                bad('command line', 'the stock simulated through the command line', case,
                    'exit status %s, weather file %s' % (rc, 'differs from the library route' if os.path.exists(fp) else 'missing'),
                    'exit status 0 and the file the library calls write')
        elif rc == 0 or os.path.exists(fp):
            bad('command line', 'unrealisable stock through the command line', case,
                'exit status %s, weather file written: %s' % (rc, os.path.exists(fp)),
                'refused: non-zero exit status and no weather file')
    # ---- (3) python -O and plain python in fresh processes: the same verdict and the same simulated stock
    outs = fut.result()
    pool.shutdown()
    for k, (label, ms, ok) in enumerate(mem):
        for opt in (False, True):
            tag = 'm%d%s' % (k, '-O' if opt else '')
            mode = 'python -O' if opt else 'python'
            count(mode + ' (fresh process)')
            rc, doc, err = outs[tag]
            case = {'stock': dict(ms['attrs'])['bld'], 'zone': dict(ms['attrs'])['zone'], 'custom_reference_buildings':
                    ms.get('customs'), 'member': label, 'interpreter': mode + ', fresh process'}
            if doc is None:
                bad(mode, 'scenario in a fresh interpreter', case, 'did not finish: rc=%s %s' % (rc, err[-200:]), 'runs')
                continue
            if not ok:
                if doc['log'][1] == 'ok':
                    bad(mode, 'unrealisable stock', case,
                        'generate() returned under %s; simulated archetypes (type, era, zone, share): %s - shares sum to %r; '
                        'simulate() %s, write_epw() %s' % (mode, [b[:4] for b in doc['obs']['gen']['bem']],
                                                          sum(float(b[3]) for b in doc['obs']['gen']['bem']),
                                                          doc['log'][3], doc['log'][4]),
                        'the stock is refused as a whole (it is in a plain interpreter), never simulated partially')
                continue
            if doc['log'] != base[k]['log']:
                bad(mode, 'realisable stock', case, 'calls: %s' % doc['log'], 'calls: %s' % base[k]['log'])
                continue
            w = W.diff_docs(base[k], doc)
            if w:
                bad(mode, 'the simulated stock / urban weather in a fresh %s process' % mode, case, w,
                    'the observables of the plain in-process run: archetypes, schedule sets, state digest, records, file')
            if doc['class_level_changes']:
                bad(mode, 'module- and class-level data of the package', case,
                    'changed at operation(s) %s' % doc['class_level_changes'][:3], 'unchanged by operations on a model')
    chk.direct('circumstances(observers, DEBUG logging, python -O, command line, other models, caller-owned data)', n, n,
               'members: %s. For each: (plain) generate; simulate; write_epw judged by the C07 oracle evaluated against the '
               'PRISTINE pickle (keys and shares = the stock, values of BEM[k] = its archetype, Sch[k] = value for value '
               'the schedule set of the type and era of BEM[k]); (1, 2) the same under DEBUG logging while repr / str / '
               'ToString of the model and of every reachable uwg object is taken after construction, after generate(), '
               'every 41st step and after simulate(): same oracle after the look, same BEM order, bit-identical records '
               'and file; unrealisable stocks refused before and after a look; (3) the same scenario in fresh `python` and '
               '`python -O` processes: same calls returning / raising, same archetypes, schedule sets, state digest, records '
               'and file as the plain run - an unrealisable stock is refused under -O too; (4) `python -m uwg simulate model` '
               'on the JSON text: file of the library route, unrealisable stocks end with a non-zero status and no file, '
               'also under -O; (5) a model generated after / simulated beside ANOTHER model (custom replacing one of its DOE '
               'archetypes with own schedules, custom new type; overrides and autosize on the other model): absolute oracle, '
               'no object in common, records of the model alone; class-level data digest constant; (6) the stock list handed '
               'in is left as it was; to_dict(include_refDOE) given to from_dict TWICE as one object: dictionary unchanged, '
               'both uses simulate the whole stock (or both refuse)' % '; '.join(m_[0] for m_ in mem),
               mismatches=nbad, branches=br)


def derived_unknown_cases(rng, rl, count, dyadic=False):
    """Seventh round (family harness/x2_util.derived_names): stocks that hold, next to one or two realisable rows, a row whose
    type is UNKNOWN but made of the text of a realisable one - a suffix ('office' next to 'largeoffice'), a prefix, an infix,
    a concatenation, the name with a letter doubled - with the SAME era as the row it derives from; also next to a custom
    type ('lab' next to a custom 'biolab') and a custom type asked for an era it was not supplied for. All unrealisable:
    the refusal is demanded (oracle_c07), whatever text the unknown name shares with the keys that were found."""
    import x2_util as X
    out = []
    v = (F(1, 4), F(1, 2), F(1, 8), F(3, 8), F(0), F(3))
    for k in range(count):
        zone = rng.choice(ZONES18)
        cs = gen_real_case(rng, rl, zone, dyadic=dyadic)
        kind = ('doe', 'doe', 'doe', 'custom', 'custom-era')[k % 5]
        customs = []
        if kind != 'doe':
            e0 = rng.randrange(3)
            customs = [(rng.choice(['biolab', 'datacentre', 'rowhouse']), e0, 1000, v)]
        table, flags = expected_column(rl.spec, zone, customs)
        if flags & SKIP_FLAGS or not table:
            continue
        if kind == 'doe':
            base = rng.sample(sorted(table), min(len(table), rng.choice([1, 2])))
        else:
            base = [(customs[0][0], customs[0][1])] + rng.sample(sorted(table), 1)
        taken = set(t for t, _ in table) | set(REF_BLDTYPE)
        rows = [(t, era_text(rng, ERAS[e])) for t, e in base]
        if kind == 'custom-era':
            t, e = base[0]
            rows.append((t, era_text(rng, ERAS[(e + 1 + rng.randrange(2)) % 3])))
            how = 'custom type %s asked for an era it was not supplied for' % t
        else:
            name, how = X.derived_names([t for t, _ in base], taken, rng, 6)[k // 5 % 6 if kind == 'doe' else 0]
            src = next((b for b in base if b[0] in how), base[0])
            rows.append((name, era_text(rng, ERAS[src[1]])))
        if rng.random() < 0.5:
            rows.reverse()
        fr, fk = gen_fracs(rng, len(rows), dyadic)
        cs.update(customs=customs, bld=[(t, e, f) for (t, e), f in zip(rows, fr)], table=table, flags=flags,
                  kinds={'derived-unknown:' + how.split(' of ')[0].split(' ')[0], 'frac-' + fk})
        out.append(cs)
    return out


def build_cases(chk, rl, focus):
    rng = chk.rng
    quick = chk.tier == 'quick'
    nA = 420 if quick else 4000
    synth = [gen_case(rng) for _ in range(nA)]
    if focus == 'C08':
        synth += [gen_case(rng, subset=s) for s in range(64) for _ in range(2 if quick else 8)]
    real = corpus_cases(rl)
    per_zone = 4 if quick else 30
    for z in ZONES18:
        for _ in range(per_zone):
            real.append(gen_real_case(rng, rl, z))
    if focus == 'C08':
        for s in range(64):
            real.append(gen_real_case(rng, rl, rng.choice(ZONES18), subset=s))
    if not quick:
        # every (type, era, zone) single-row stock
        for z in ZONES18:
            for t in REF_BLDTYPE:
                for e in ERAS:
                    cs = gen_real_case(rng, rl, z)
                    cs['customs'], cs['bld'] = [], [(t, era_text(rng, e), F(1))]
                    cs['table'], cs['flags'] = expected_column(rl.spec, z, [])
                    real.append(cs)
    gen = corpus_cases(rl)                      # all corpus fractions and values are dyadic
    for z in ZONES18:
        for _ in range(2 if quick else 10):
            gen.append(gen_real_case(rng, rl, z, dyadic=True))
    # one building type in some eras only / in several eras at once (see era_family)
    for _ in range(16 if quick else 200):
        zone = rng.choice(ZONES18)
        synth += era_family(rng, gen_lib(rng, REFZ.index(proxy(zone))), zone, 3)
    if focus == 'C07' or not quick:
        for z in ZONES18:
            real += era_family(rng, rl.spec, z, 1 if quick else 8, real=True)
        for z in rng.sample(ZONES18, 10) if quick else ZONES18 * 3:
            gen += era_family(rng, rl.spec, z, 1, dyadic=True, real=True)
    if focus == 'C07':
        real += derived_unknown_cases(rng, rl, 15 if quick else 150)
        gen += derived_unknown_cases(rng, rl, 10 if quick else 60, dyadic=True)
    return synth, real, gen


def report(chk, ses, which):
    bad = sorted(ses.bad07 if which == 'C07' else ses.bad08,
                 key=lambda b: (0 if b[0]['lib'].get('real') else 1, len(b[0]['bld'])))
    n = ses.n07 if which == 'C07' else ses.n08
    chk.extra_cov['override_subsets_exercised'] = len(ses.subsets)
    chk.extra_cov['boundary_override_values'] = {'%s=%d' % k: v for k, v in sorted(ses.boundary.items())}
    for cs, msg in bad[:3]:
        chk.violation('impl-violation', '%s oracle on _compute_BEM / generate' % which,
                      case=case_json(cs), observed=msg,
                      expected='C07: one simulated archetype per distinct (type, era) with the summed '
                               'fraction, taken from the requested zone, or a refusal'
                      if which == 'C07' else
                      'C08: every set override carried by every simulated building and used in the '
                      'stock averages; unset overrides leave reference values')
    chk.direct('%s-oracle(real results)' % which, n, n,
               'the property evaluated directly on every successful real selection of ties A, B, C '
               '(independent of the Lean model)', mismatches=len(bad))
    for note in sorted(ses.notes):
        chk.notes.append(note)


def replay(chk, path, focus='C07'):
    """Re-run one recorded failing input on the working tree; exit 1 if it still fails."""
    import json
    v = json.load(open(path))
    case = v.get('case') or {}
    core.repo_python_path()
    import uwg as plain
    msg = None
    if 'single' in case:                                   # split-stock simulation
        temps = []
        for bld in (case['single'], case['split']):
            with quiet():
                m = plain.UWG.from_param_file(PARAM, epw_path=EPW, new_epw_dir=chk.work())
            m.nday, m.bld, m.zone = 1, [tuple(r) for r in bld], case['zone']
            with quiet():
                m.generate()
                m.simulate()
            temps.append([u.canTemp for u in m.UCMData])
        diff = max(abs(a - b) for a, b in zip(*temps))
        if not diff <= 1e-9:
            msg = 'hourly canyon temperatures differ by up to %.3e K' % diff
    elif 'attribute' in case:                            # an override setter
        m = Kit().UWG(EPW)
        v = None if case['value'] == 'None' else F(case['value'])
        try:
            setattr(m, case['attribute'], v)
            ans = 'ok'
        except Exception as e:  # noqa: BLE001
            ans = 'err ' + err_class(e)
        want = v is None or (0 < v if case['attribute'] == 'flr_h' else 0 <= v <= 1)
        if (ans == 'ok') != want:
            msg = 'setter %s answers %s for %s' % (case['attribute'], ans, v)
    elif 'spec' in case:
        rl = RealLib(plain)
        rl.spec['real'] = True
        cs = spec_case(case['spec'], rl)
        kit = Kit()
        try:
            kit.UWG(EPW).bld = cs['bld']
        except AssertionError:
            print('replay: the stock list is rejected by the bld setter', flush=True)
            return 0
        if cs['tie'] == 'C':
            res = impl_generate(plain, rl, cs)
        elif cs['tie'] == 'B':
            res = impl_reallib(kit, rl, cs)
        else:
            res = impl_synthetic(kit, cs)
        msg = oracle_c07(cs, res) if focus == 'C07' else oracle_c08(cs, res, cs['tie'] != 'C')
    elif 'custom_archetype' in case or 'ref_bem_vector (type, era, marker)' in case:
        # fifth-round families (fixed member lists): re-run them
        if focus == 'C08':
            from props import c08
            c08.custom_attribute_cities(chk, plain)
        else:
            custom_list_ties(chk, plain)
        if chk.violations:
            msg = chk.violations[0]['observed']
    elif any(k.startswith('customs') for k in case) and 'zone' in case:
        # live ties (identity structure / schedule pairing): their members are fixed lists, re-run them
        if 'pattern' in case:
            identity_ties(chk, plain)
        else:
            era_schedule_runs(chk, plain)
        if chk.violations:
            msg = chk.violations[0]['observed']
    else:
        print('replay: %s records no concrete input (%s)' % (path, v.get('theorem_or_tie')), flush=True)
        return 1
    if msg:
        print('replay: still failing: %s' % msg, flush=True)
        print('VIOLATION property=%s replay=%s' % (focus, path), flush=True)
        return 1
    print('replay: the recorded input no longer violates %s' % focus, flush=True)
    return 0


# ------------------------------------------------------------------------------- fifth round (harness/v2_util.py)
def custom_list_ties(chk, plain):
    """(1) lists whose ORDER carries meaning: ref_bem_vector and ref_sch_vector are paired position by position, and
    the rows that new types get in the two reference matrices are numbered by first appearance in EACH list - a
    validation that compares the lists as sorted multisets accepts what cannot be realised as given;
    (2) custom archetypes whose documented attributes have values that no shipped archetype has (pitched roof, green
    facade, water film, a BEMDef that arrives with a share from an earlier model)."""
    import v2_util as V
    n, bad, br = V.pairing_ties(chk, plain)
    chk.direct('custom-lists-order(ref_bem_vector vs ref_sch_vector: refused or realised as given)', n, n, V.PAIRING_RULE,
               mismatches=bad, branches=br)
    n, bad, br = V.attribute_cities(chk, plain, 'C07')
    chk.direct('stock-with-custom-archetypes(documented Element / BEMDef attributes at non-default values)', n, n,
               V.ATTRIBUTE_RULE + ': one simulated archetype per distinct (type, era) of the stock with the summed share (a share '
               'the BEMDef brought along does not count), shares summing to one, BEM[k] with the plant of the archetype '
               'supplied and Sch[k] - value for value - the schedule set supplied for its type and era', mismatches=bad,
               branches=br)


def long_list_ties(chk, plain):
    """Sixth round (family in harness/w2_util.py): every stock above has at most a dozen rows, so a rule that depends on the
    LENGTH of the list (a tolerance that grows with the number of rows, a cap on the rows, a loop bound) is the identity
    there. Long lists with rounded shares: accepted iff the total is within the documented 0.01 of one; simulated fractions
    sum to one."""
    import w2_util as W
    n, bad, br = W.long_stock_lists(chk, plain)
    chk.direct('long-stock-lists(11..120 rows, rounded shares: acceptance independent of the length; simulated fractions sum to one)',
               n, n, W.LONG_RULE, mismatches=bad, branches=br)


def run(chk, focus='C07', module=MODULE, theorems=THEOREMS):
    early = circumstance_start(chk) if focus == 'C07' else None
    chk.proof(module, theorems)
    if chk.tier == 'thorough':
        chk.leanchecker([module])
    ses = Session(chk, focus)
    synth, real, gen = build_cases(chk, ses.rl, focus)
    ses.tie_setters(synth + real + gen)
    ses.tie_synthetic(synth)
    zones = ses.tie_reallib(real)
    ses.tie_generate(gen)
    chk.extra_cov['zones_exercised'] = zones
    if focus == 'C07':
        split_stock_runs(chk, ses.plain)
        identity_ties(chk, ses.plain)
        era_schedule_runs(chk, ses.plain)
        custom_list_ties(chk, ses.plain)
        long_list_ties(chk, ses.plain)
        circumstance_ties(chk, ses.plain, early)
    report(chk, ses, focus)
    chk.assumptions.append(
        '_compute_BEM/_customize_reference_data are exercised through fracexec (exact rationals) '
        'in ties A and B and as shipped (doubles) in tie C; the model keys the stock dictionary by '
        '(type, era index) instead of the concatenated text (injective: key_text_injective); '
        'BEMDef.builtera is one of the three reference texts (enforced by its setter); object '
        'identity is observed through (bldtype, builtera, zonetype)')
