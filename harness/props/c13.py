"""C13 - canyon short-wave and long-wave exchange never creates energy.

Ties (exact, real source re-executed over Fractions vs the Lean model `Model/Canyon.lean`):
  * UCMDef.__init__ (geometry part)      ~ ucmGeometry     (stub roots, and true roots on
                                                            Pythagorean geometries)
  * SolarCalcs.solarcalcs                ~ solarcalcs      (`solarangles` replaced by a stand-in
                                                            that sets zenith/tanzen/critOrient
                                                            from the case: independent of C12)
  * infracalcs                           ~ infracalcs
Oracles evaluated directly on the real code's results: T1 view factors, T2 beam budget / exact
split, T4 non-negativity and the no-sun branch, T5/T6 long-wave, T7 absorbed <= entering; plus a
float-level pass over the plain `uwg` package (real libm, real `solarangles`).

Known finding C13-reflection-closure (known_findings.json, never written here): the coded
reflection closure creates energy in deep canyons. It is reported as KNOWN-FINDING only if
solarcalcs still equals the Lean `Closure.impl` model exactly AND every input with
absorbed > entering has cR > 1 (Lean `cR`, theorem absorbed_le_entering_iff_cR). If the code
equals `Closure.spec` instead, the check passes silently. Anything else is a violation.
"""
import json
import math
import os
import sys
import types
from fractions import Fraction as F

import core
import fracexec
from fracexec import frac_str, frac_list

MODULE = 'UwgVerif.Props.C13'
THEOREMS = ['Uwg.C13.' + n for n in (
    'geometry_positive', 'vf_reciprocity', 'vf_bounds', 'vf_closure', 'vf_of_ucm',
    'beam_budget', 'beam_identity', 'beam_exact', 'entering_eq_beam_dif', 'entering_le_incoming',
    'fr_pos', 'received_nonneg', 'tree_heat_nonneg', 'solarcalcs_sunlit', 'no_sun_zero',
    'lw_antisymmetric', 'lw_budget', 'lw_equilibrium',
    'absorbed_linear', 'cR_cB_meaning', 'absorbed_le_entering_iff', 'cB_le_one',
    'absorbed_le_entering_iff_cR', 'asis_creates_energy', 'asis_cR_gt_one',
    'asis_witness_geometry', 'spec_fixed_point', 'spec_balance', 'absorbed_le_entering_spec',
    'solar_absorbed_le_incoming_spec', 'real_root', 'vf_real', 'geometry_positive_real',
    'krRaw_real_bounds', 'received_nonneg_real')]
FINDING_ID = 'C13-reflection-closure'
NS = types.SimpleNamespace
PI_STUB = F(355, 113)
SIGMA = F('5.67e-8')
HALF = F(1, 2)

PYTH = [(2, 1), (3, 1), (3, 2), (4, 1), (4, 3), (5, 1), (5, 2), (7, 1), (10, 1), (19, 1), (20, 1),
        (40, 1), (6, 5), (11, 10), (5, 4), (8, 1), (13, 1), (30, 1)]
ROOTS = [F(1, 2), F(1, 3), F(2, 3), F(1, 4), F(3, 4), F(2, 5), F(3, 5), F(1, 5), F(4, 5),
         F(7, 10), F(9, 10), F(1, 10)]


# ------------------------------------------------------------------------------- helpers
def rq(rng, lo, hi, den=None):
    den = den or rng.choice([1, 2, 4, 5, 10, 20, 100])
    return F(rng.randint(int(math.floor(lo * den)), int(math.ceil(hi * den))), den)


def frac_root(x):
    """Exact rational square root, or None."""
    x = F(x)
    if x < 0:
        return None
    rn, rd = math.isqrt(x.numerator), math.isqrt(x.denominator)
    if rn * rn == x.numerator and rd * rd == x.denominator:
        return F(rn, rd)
    return None


class ExactRoots(object):
    """Temporarily make the fractionised package take TRUE roots (where the argument is a
    rational square) instead of the stub: both the names `sqrt`/`pow` imported into UCMDef.py and
    the shared stub namespace (so `math.sqrt`, `x ** 0.5` are covered as well)."""

    def __init__(self, pkg, on=True):
        self.on = on
        self.mod = sys.modules.get(pkg.__name__ + '.UCMDef')

    def __enter__(self):
        if not self.on:
            return self
        S = fracexec.StubMath
        self.saved = (S.__dict__['sqrt'], S.__dict__['pow'], S.__dict__['rpow'])
        self.saved_mod = {k: getattr(self.mod, k) for k in ('sqrt', 'pow') if hasattr(self.mod, k)}
        stub_sqrt, stub_rpow = S.sqrt, S.rpow

        def sqrt(x):
            r = frac_root(x) if F(x) >= 0 else None
            return r if r is not None else stub_sqrt(x)

        def rpow(a, b):
            if F(b) == HALF:
                r = frac_root(a)
                if r is not None:
                    return r
            return stub_rpow(a, b)

        def pow_(a, b):
            if isinstance(b, int) or (isinstance(b, F) and b.denominator == 1):
                return fracexec.POW_(a, b)
            return rpow(a, b)

        S.sqrt, S.rpow, S.pow = staticmethod(sqrt), staticmethod(rpow), staticmethod(pow_)
        for k, f in (('sqrt', sqrt), ('pow', pow_)):
            if k in self.saved_mod:
                setattr(self.mod, k, f)
        return self

    def __exit__(self, *exc):
        if not self.on:
            return False
        S = fracexec.StubMath
        S.sqrt, S.pow, S.rpow = self.saved
        for k, f in self.saved_mod.items():
            setattr(self.mod, k, f)
        return False


def err_of(e):
    if isinstance(e, ZeroDivisionError):
        return 'err zerodiv'
    if isinstance(e, ValueError):
        return 'err value'
    if isinstance(e, AssertionError):
        return 'err assert'
    if isinstance(e, IndexError):
        return 'err index'
    if isinstance(e, AttributeError):
        return 'err attr'
    return 'err fatal'


def case_json(cs):
    out = {}
    for k, v in cs.items():
        if isinstance(v, F):
            out[k] = str(v)
        elif isinstance(v, dict):
            out[k] = case_json(v)
        else:
            out[k] = v
    return out


INT_KEYS = ('month', 'vs', 've', 'nbem')


def case_from_json(d):
    out = {}
    for k, v in d.items():
        if isinstance(v, dict):
            out[k] = case_from_json(v)
        elif k in INT_KEYS:
            out[k] = int(v)
        elif isinstance(v, str) and k not in ('op', 'kind', 'sun_kind', 'geo_kind', 'level'):
            try:
                out[k] = F(v)
            except ValueError:
                out[k] = v
        else:
            out[k] = v
    return out


# ------------------------------------------------------------------------------- geometry
def pyth_aspect(m, n, flip=False):
    a, s = F(m * m - n * n, 2 * m * n), F(m * m + n * n, 2 * m * n)
    if flip:                      # (2mn, m^2-n^2, m^2+n^2) is Pythagorean as well
        a, s = F(2 * m * n, m * m - n * n), F(m * m + n * n, m * m - n * n)
    return a, s


def gen_geom(rng, kind=None, mn=None):
    kind = kind or rng.choice(['stub', 'stub', 'pyth', 'pyth', 'pyth'])
    tree = rq(rng, 0, 0.5, 20)
    veg = rq(rng, 0, 1, 10)
    if kind == 'pyth':
        m, n = mn or rng.choice(PYTH)
        a, s = pyth_aspect(m, n, flip=rng.random() < 0.3)
        r = rng.choice(ROOTS)
        h = rq(rng, 3, 80, 2) or F(10)
        # canAspect = verToHor / (4 r (1-r))  for density r^2
        return dict(op='ucm', kind='pyth', h=h, dens=r * r, vth=4 * a * r * (1 - r), tree=tree,
                    veg=veg, root=s, sq=r)
    h = rq(rng, 3, 80, 2) or F(10)
    dens = rq(rng, 0.05, 0.9, 100) or F(1, 2)
    vth = rq(rng, 0.1, 4, 20) or F(4, 5)
    return dict(op='ucm', kind='stub', h=h, dens=dens, vth=vth, tree=tree, veg=veg)


def edge_geoms():
    base = dict(op='ucm', kind='edge', h=F(10), dens=F(1, 2), vth=F(4, 5), tree=F(1, 10), veg=F(1, 5))
    out = []
    for k, v in [('dens', F(1)), ('vth', F(0)), ('dens', F(-1, 4)), ('h', F(0)), ('dens', F(-1)),
                 ('tree', F(9, 10)), ('tree', F(0)), ('dens', F(0))]:
        c = dict(base)
        c[k] = v
        out.append(c)
    return out


def geom_line(cs):
    s = 'ucm h=%s dens=%s vth=%s tree=%s veg=%s' % tuple(
        frac_str(cs[k]) for k in ('h', 'dens', 'vth', 'tree', 'veg'))
    if cs['kind'] == 'pyth':
        s += ' root=%s sq=%s' % (frac_str(cs['root']), frac_str(cs['sq']))
    return s


def mk_road(pkg, ralb, veg):
    if ralb >= 0:
        Mat = pkg.material.Material
        return pkg.element.Element(ralb, F(9, 10), [HALF], [Mat(F(1), F(10 ** 6), 'm')], veg,
                                   F(293), 1, 'road')
    return NS(albedo=ralb, vegcoverage=veg, emissivity=F(9, 10), solRec=None)


def impl_ucm(pkg, cs, ralb=F(1, 10), walb=F(1, 5)):
    """The REAL UCMDef.__init__ over exact rationals (true roots on Pythagorean cases)."""
    road = mk_road(pkg, ralb, cs['veg'])
    par = NS(windMin=F(1))
    with ExactRoots(pkg, on=cs['kind'] == 'pyth'):
        return pkg.UCMDef(cs['h'], cs['dens'], cs['vth'], cs['tree'], F(0), F(0), F(293),
                          F(1, 100), F(2), par, F(1, 4), HALF, walb, road)


GEOM_ATTRS = ('vegcover', 'roadShad', 'bldWidth', 'canWidth', 'canAspect', 'roadConf', 'wallConf',
              'facArea', 'roadArea', 'roofArea')


def ucm_answer(pkg, cs):
    try:
        u = impl_ucm(pkg, cs)
    except Exception as e:          # noqa
        return None, err_of(e)
    return u, 'ok ' + frac_list([getattr(u, k) for k in GEOM_ATTRS])


def oracle_geom(cs, u):
    """T0/T1 on the object the real constructor built."""
    a, rc, wc = u.canAspect, u.roadConf, u.wallConf
    if 2 * a * wc != 1 - rc:
        return 'reciprocity fails: 2*a*wallConf = %s but 1 - roadConf = %s' % (
            float(2 * a * wc), float(1 - rc))
    if cs['kind'] == 'pyth':        # true roots: admissible geometry => positive canyon, bounds
        if not (u.canWidth > 0 and a > 0 and cs['h'] == a * u.canWidth):
            return 'canyon width/aspect not positive: w=%s a=%s' % (u.canWidth, a)
        if not (0 < rc < 1):
            return 'roadConf %s outside (0,1)' % float(rc)
        if not (0 < wc < HALF):
            return 'wallConf %s outside (0,1/2)' % float(wc)
        if rc + (1 - rc) != 1 or wc + wc + (1 - 2 * wc) != 1 or 1 - 2 * wc < 0:
            return 'view factors do not close'
    return None


# ------------------------------------------------------------------------------- solar
def gen_solar(rng, geom=None, sun_kind=None, albedos=None):
    """A solarcalcs case. `geom` (a ucm case) -> the UCM is a real UCMDef object."""
    c = dict(op='solar')
    if geom is not None:
        c['geom'] = geom
        c['geo_kind'] = geom['kind']
    else:
        c['geo_kind'] = 'free'
        c['a'] = rq(rng, 0.05, 12, 20) or F(1)
        c['rc'] = rq(rng, 0, 1, 20)
        c['wc'] = rq(rng, 0.01, 0.5, 100) or F(1, 4)
        c['tree'] = rq(rng, 0, 0.5, 20)
        c['rveg'] = rq(rng, 0, 1, 10)
        c['vegc'] = rq(rng, 0, 0.8, 20)
    ralb, walb = albedos or (rq(rng, 0, 1, 20), rq(rng, 0, 1, 20))
    c.update(ralb=ralb, walb=walb, valb=rq(rng, 0, 1, 20), tfl=rq(rng, 0, 1, 10),
             gfl=rq(rng, 0, 1, 10), month=rng.randint(1, 12), nbem=rng.choice([1, 1, 2, 3]))
    c['vs'], c['ve'] = ((rng.randint(1, 5), rng.randint(8, 12)) if rng.random() < 0.7 else
                        (rng.randint(1, 12), rng.randint(1, 12)))
    c['sun_kind'] = sun_kind or rng.choice(['overhead', 'consistent', 'consistent', 'consistent',
                                            'random', 'random', 'nosun'])
    # identity structure of the archetype list: entries may own the SAME wall / roof object (the shipped
    # library holds one wall Element for all eras of `stripmall` and of `warehouse`)
    c['alias'] = rng.choice(ALIASES) if c['nbem'] >= 2 and rng.random() < 0.6 else 'none'
    return c


ALIASES = ('wall', 'roof', 'wall+roof', 'wall:last-two', 'entry')


def fill_sun(rng, c, a):
    """Sun position and irradiance (needs the aspect for the consistent critical orientation)."""
    k = c['sun_kind']
    dd = rng.choice([(rq(rng, 1, 1000, 1) or F(500), rq(rng, 1, 400, 1) or F(100)),
                     (F(0), rq(rng, 1, 400, 1) or F(50)), (rq(rng, 1, 1000, 1) or F(300), F(0))])
    c['dir'], c['dif'] = dd
    if k == 'overhead':
        c['zen'], c['tz'], c['crit'] = F(rng.choice([0, 0, 1])) / 10, F(1, 10 ** 6), PI_STUB / 2
    elif k == 'consistent':
        # under the stub table asin is the identity: crit = min(|1/tz|/a, 1) gives 0 <= krRaw <= 1
        tz = rng.choice([F(1, 20), F(1, 5), F(1, 2), F(1), F(2), F(5), F(20), F(300)])
        c['tz'] = tz
        c['zen'] = rq(rng, 0, 1.3, 10)
        c['crit'] = min(abs(1 / tz) / a, F(1)) if a > 0 else F(1)
    elif k == 'random':
        c['tz'] = rng.choice([-1, 1, 1]) * (rq(rng, 0.01, 30, 100) or F(1))
        c['zen'] = rq(rng, 0, 3, 10)
        c['crit'] = rq(rng, 0, 1.6, 20)
    else:                           # nosun
        c['dir'], c['dif'] = rng.choice([(F(0), F(0)), (F(0), F(0)), (F(-5), F(3)), (F(2), F(-2))])
        c['tz'], c['zen'], c['crit'] = F(1), HALF, HALF
    return c


def edge_solars():
    base = dict(op='solar', geo_kind='free', a=F(4, 3), rc=F(1, 3), wc=F(1, 4), tree=F(1, 10),
                rveg=F(1, 5), vegc=F(3, 20), ralb=F(1, 10), walb=F(1, 5), valb=F(1, 4), tfl=HALF,
                gfl=HALF, month=6, vs=4, ve=10, nbem=1, sun_kind='edge', dir=F(500), dif=F(100),
                zen=F(1, 10), tz=F(1), crit=F(3, 4))
    out = []
    for upd in [dict(a=F(0)),                                   # 1./canAspect
                dict(ralb=F(0), rveg=F(0), walb=F(2)),          # fr = 0 in both closures
                dict(ralb=F(-1, 2), walb=F(3, 2)),              # out-of-range albedos
                dict(month=1), dict(month=12), dict(month=4), dict(month=10),
                dict(vs=10, ve=4), dict(nbem=0), dict(tz=F(-3)), dict(zen=F(2)),
                dict(a=F(1, 10), tz=F(40), crit=F(1, 4)),       # Kw clamp
                dict(dir=F(0), dif=F(0)), dict(nbem=2, alias='wall'), dict(nbem=3, alias='wall+roof'),
                dict(nbem=2, alias='entry'), dict(nbem=3, alias='wall:last-two', month=1),
                dict(nbem=2, alias='wall', dir=F(0), dif=F(0))]:
        c = dict(base)
        c.update(upd)
        out.append(c)
    return out


def build_solar(pkg, c, ucm_class=None):
    """Instantiate the objects solarcalcs works on. Returns (sc, geo) with geo = (a, rc, wc, tree,
    rveg, vegc) as the routine will read them."""
    if 'geom' in c:
        g = c['geom']
        u = impl_ucm(pkg, g, ralb=c['ralb'], walb=c['walb'])
    else:
        u = NS(canAspect=c['a'], roadConf=c['rc'], wallConf=c['wc'], alb_wall=c['walb'],
               treeCoverage=c['tree'], vegcover=c['vegc'], road=mk_road(pkg, c['ralb'], c['rveg']))
    geo = (u.canAspect, u.roadConf, u.wallConf, u.treeCoverage, u.road.vegcoverage, u.vegcover)
    bem = [NS(roof=NS(solRec=None), wall=NS(solRec=None)) for _ in range(c['nbem'])]
    al = c.get('alias', 'none')
    if al != 'none' and len(bem) >= 2:
        if al == 'entry':                       # one archetype object listed twice
            bem[-1] = bem[0]
        elif al == 'wall:last-two':
            bem[-1].wall = bem[-2].wall
        else:
            for b in bem[1:]:
                if 'wall' in al:
                    b.wall = bem[0].wall
                if 'roof' in al:
                    b.roof = bem[0].roof
    par = NS(vegStart=c['vs'], vegEnd=c['ve'], vegAlbedo=c['valb'], treeFLat=c['tfl'],
             grassFLat=c['gfl'])
    sc = pkg.SolarCalcs(u, bem, NS(month=c['month']), NS(), NS(dir=None, dif=None), par,
                        NS(solRec=None))
    return sc, geo


def solar_line(c, geo, cl='impl'):
    a, rc, wc, tree, rveg, vegc = geo
    return ('solar cl=%s sun=%s geo=%s month=%d vs=%d ve=%d sfc=%s' % (
        cl, frac_list([c['dir'], c['dif'], c['zen'], c['tz'], c['crit']]), frac_list([a, rc, wc]),
        c['month'], c['vs'], c['ve'],
        frac_list([c['ralb'], rveg, c['valb'], c['walb'], tree, vegc, c['tfl'], c['gfl']])))


CORE9 = ('road', 'rural', 'roof', 'wall', 'SolRecRoof', 'SolRecRoad', 'SolRecWall', 'treeSens',
         'treeLat')


def run_solar(sc, c, reused=False):
    """Call the REAL solarcalcs with `solarangles` replaced by the case's sun position.
    Returns (answer_line, obs dict or None)."""
    def angles():
        sc.zenith, sc.tanzen, sc.critOrient = c['zen'], c['tz'], c['crit']
    sc.solarangles = angles
    sc.forc.dir, sc.forc.dif = c['dir'], c['dif']
    try:
        rural, U, B = sc.solarcalcs()
    except Exception as e:          # noqa
        return err_of(e), None
    roofs = [b.roof.solRec for b in B]
    walls = [b.wall.solRec for b in B]
    if any(x != roofs[0] for x in roofs) or any(x != walls[0] for x in walls):
        return 'bem-differ', None
    # with no archetype the wall value is not assigned by the routine: report the model's own
    # formula value as unobservable -> use the marker the driver cannot produce only if needed
    o = dict(road=U.road.solRec, rural=rural.solRec, roof=roofs[0] if roofs else None,
             wall=walls[0] if walls else None, SolRecRoof=U.SolRecRoof, SolRecRoad=U.SolRecRoad,
             SolRecWall=U.SolRecWall, treeSens=U.treeSensHeat, treeLat=U.treeLatHeat)
    o['sun'] = hasattr(sc, 'horSol')
    if reused:      # (horSol, Kw_term, ... of an EARLIER sunlit call stay on the object: branch taken = the object's own dir + dif)
        o['sun'] = o['sun'] and (sc.dir + sc.dif) > 0
    if o['sun']:
        o.update(horSol=sc.horSol, kw=sc.Kw_term, kr=sc.Kr_term, bldSol=sc.bldSol,
                 roadSol=sc.roadSol, mr=sc.mr, mw=sc.mw)
    return None, o


def solar_answer(o):
    vals = [o[k] for k in CORE9]
    if o['sun']:
        vals += [o[k] for k in ('horSol', 'kw', 'kr', 'bldSol', 'roadSol', 'mr', 'mw')]
    return 'ok %s %s' % ('sun' if o['sun'] else 'nosun', frac_list(vals))


def alb_road_used(c, rveg):
    """Road albedo the closure uses (documented convention of `absorbed`)."""
    if c['month'] < c['vs'] or c['month'] > c['ve']:
        return c['ralb']
    return c['ralb'] * (1 - rveg) + c['valb'] * rveg


def admissible(c, geo):
    a, rc, wc, tree, rveg, vegc = geo
    return (c['dir'] >= 0 and c['dif'] >= 0 and 0 <= rc <= 1 and 0 < wc and 2 * wc <= 1 and
            0 <= c['ralb'] <= 1 and 0 <= c['valb'] <= 1 and 0 <= rveg <= 1 and 0 <= c['walb'] <= 1)


def oracle_solar(c, geo, o):
    """T2, T4 on the result of the real solarcalcs. Returns None or a message."""
    a, rc, wc, tree, rveg, vegc = geo
    nosun_expected = c['dir'] + c['dif'] <= 0
    if nosun_expected:
        bad = [k for k in CORE9 if o[k] is not None and o[k] != 0]
        if bad or o['sun']:
            return 'no sun reported (dir+dif=%s) but %s non-zero / sunlit branch ran' % (
                c['dir'] + c['dif'], bad)
        return None
    if not o['sun']:
        return None
    kr, kw, hor = o['kr'], o['kw'], o['horSol']
    if kr + 2 * a * kw > 1:
        return 'beam budget: Kr + 2a*Kw = %s > 1' % float(kr + 2 * a * kw)
    if not (0 <= kw <= 1):
        return 'Kw_term %s outside [0,1]' % float(kw)
    if hor < 0:
        return 'horSol negative'
    if o['roadSol'] != hor * kr + rc * c['dif'] or o['bldSol'] != hor * kw + wc * c['dif']:
        return 'first-incidence amounts are not the beam split plus sky view'
    # every surface receives exactly the irradiance prescribed for its kind: first incidence plus the
    # reflections the closure assigns to it, once - whatever the identity structure of the archetype list
    if o['wall'] is not None and o['wall'] != o['bldSol'] + (1 - 2 * wc) * o['mw'] + wc * o['mr']:
        return 'walls receive %s W/m2 but the canyon wall irradiance bldSol + (1-2 wallConf) mw + wallConf mr ' \
               'is %s (archetype list aliasing: %s)' % (
                   float(o['wall']), float(o['bldSol'] + (1 - 2 * wc) * o['mw'] + wc * o['mr']),
                   c.get('alias', 'none'))
    if o['road'] != o['roadSol'] + (1 - rc) * o['mw']:
        return 'road receives %s W/m2, prescribed roadSol + (1 - roadConf) mw = %s' % (
            float(o['road']), float(o['roadSol'] + (1 - rc) * o['mw']))
    if o['roof'] is not None and (o['roof'] != hor + c['dif'] or o['rural'] != hor + c['dif']):
        return 'roofs / rural site receive %s / %s W/m2, prescribed horSol + dif = %s' % (
            float(o['roof']), float(o['rural']), float(hor + c['dif']))
    if c['sun_kind'] in ('overhead', 'consistent') and a > 0:
        # by construction 0 <= krRaw <= 1 under the stub table (theorem beam_exact)
        if kr < 0:
            return 'Kr_term negative (%s) for a sun above the horizon' % float(kr)
        if kw < 1 and kr + 2 * a * kw != 1:
            return 'beam not split exactly: Kr + 2a*Kw = %s with Kw < 1' % float(kr + 2 * a * kw)
    if admissible(c, geo) and (kr >= 0 or hor == 0):
        for k in ('road', 'rural', 'roof', 'wall', 'SolRecRoof', 'SolRecRoad', 'SolRecWall'):
            if o[k] is not None and o[k] < 0:
                return 'received solar %s = %s < 0' % (k, float(o[k]))
        if 0 <= tree <= vegc and 0 <= c['tfl'] <= 1 and 0 <= c['gfl'] <= 1:
            if o['treeSens'] < 0 or o['treeLat'] < 0:
                return 'vegetation heat negative'
    return None


def energy(c, geo, o):
    """(absorbed, entering) per unit road width, or None when the statement does not apply."""
    a, rc, wc, tree, rveg, vegc = geo
    if not o['sun'] or o['wall'] is None or not admissible(c, geo):
        return None
    if not (a > 0 and 2 * a * wc == 1 - rc and o['kr'] >= 0):
        return None
    ar = alb_road_used(c, rveg)
    absorbed = (1 - ar) * o['road'] + (1 - c['walb']) * 2 * a * o['wall']
    entering = o['horSol'] * (o['kr'] + 2 * a * o['kw']) + c['dif'] * (rc + 2 * a * wc)
    return absorbed, entering, ar


# ------------------------------------------------------------------------------- infra
def gen_infra(rng, kind=None, geom_u=None):
    kind = kind or rng.choice(['random', 'random', 'equil', 'recip'])
    c = dict(op='infra', kind=kind)
    if geom_u is not None:
        c.update(a=geom_u.canAspect, rc=geom_u.roadConf, wc=geom_u.wallConf, shad=geom_u.roadShad,
                 w=geom_u.canWidth, h=geom_u.bldHeight)
    else:
        m, n = rng.choice(PYTH)
        a, s = pyth_aspect(m, n)
        w = rq(rng, 2, 40, 2) or F(10)
        c.update(a=a, rc=s - a, wc=HALF * (a + 1 - s) / a, shad=rq(rng, 0, 1, 20), w=w, h=a * w)
        if kind == 'random':
            c.update(rc=rq(rng, 0, 1, 50), wc=rq(rng, 0, 0.5, 50))
    c.update(er=rq(rng, 0.5, 1, 100), ew=rq(rng, 0.5, 1, 100), tr=rq(rng, 250, 330, 10),
             tw=rq(rng, 250, 330, 10), infra=rq(rng, 150, 500, 1))
    if kind == 'equil':
        c['tw'] = c['tr']
        c['infra'] = SIGMA * c['tr'] ** 4
    return c


def infra_line(c):
    return 'infra v=' + frac_list([c[k] for k in ('rc', 'wc', 'shad', 'infra', 'er', 'ew', 'tr', 'tw')])


def call_infra(fn, c, er=None, ew=None):
    u = NS(roadConf=c['rc'], wallConf=c['wc'], roadShad=c['shad'])
    return fn(u, NS(infra=c['infra']), c['er'] if er is None else er, c['ew'] if ew is None else ew,
              c['tr'], c['tw'])


def oracle_infra(fn, c, res, tol=None):
    """T5 (area-weighted antisymmetry of the exchange terms, isolated by switching off the other
    surface's emissivity), T6 (equilibrium)."""
    zero = 0
    road, wall = res
    if c['kind'] == 'equil':
        if (abs(road) > tol or abs(wall) > tol) if tol else (road != 0 or wall != 0):
            return 'fluxes at equilibrium with the sky are (%s, %s), not 0' % (float(road), float(wall))
    if 2 * c['a'] * c['wc'] == 1 - c['rc'] or tol:
        road_sky = call_infra(fn, c, ew=zero * c['ew'])[0]
        wall_sky = call_infra(fn, c, er=zero * c['er'])[1]
        x = c['w'] * (road - road_sky) + 2 * c['h'] * (wall - wall_sky)
        scale = abs(c['w'] * (road - road_sky)) + 1
        if (abs(x) > tol * scale) if tol else (x != 0):
            return 'w*(road<-wall) + 2h*(wall<-road) = %s, not 0' % float(x)
    return None


# ------------------------------------------------------------------------------- float level
def float_pass(chk, n_geo):
    """Plain `uwg` package, real libm, real solarangles. Tolerance 1e-9. Returns
    (n, problems, creation, stats)."""
    import uwg
    TOL = 1e-9
    rng = chk.rng
    inobis = [0, 31, 59, 90, 120, 151, 181, 212, 243, 273, 304, 334]
    geos = [(10., .5, .8), (30., .3, 2.), (60., .25, 6.), (5., .1, .2), (100., .4, 12.),
            (20., .6, 3.), (40., .2, 5.), (8., .7, 1.2), (150., .3, 13.), (80., .5, 9.),
            # round 8: very deep canyons (aspect 100, 125, 350) - dense districts with a high facade ratio
            (10., .99, 2.0), (20., .99, 2.5), (30., .98, 14.)]
    while len(geos) < n_geo:
        geos.append((rng.uniform(3, 120), rng.uniform(0.05, 0.85), rng.uniform(0.1, 14)))
    sites = [(1.37, 103.98, 8), (42., -71., -5), (-33.9, 151.2, 10), (64., -21.9, 0), (0., 0., 0),
             (25.3, 55.3, 4), (-54.8, -68.3, -3)]
    albs = [(.1, .2), (.3, .3), (.5, .5), (0., 0.), (1., 1.), (.08, .25), (.9, .1)]
    problems, creation = [], []
    stats = dict(max_ratio=0.0, max_ratio_at=None, max_ratio_aspect_le_3=0.0, max_budget=-1.0,
                 max_split_err=0.0, min_received=0.0, n_sun=0, n_nosun=0, n_below_horizon=0)
    n = 0

    def prob(msg, case):
        if len(problems) < 5:
            problems.append((msg, case))

    for gi, (h, dens, vth) in enumerate(geos):
        for ralb, walb in albs:
            road = uwg.Element(ralb, 0.9, [0.5], [uwg.Material(1., 1e6, 'm')], 0.2, 293., 1, 'road')
            u = uwg.UCMDef(h, dens, vth, 0.1, 0., 0., 293., 0.01, 2., NS(windMin=1.), 0.25, 0.5,
                           walb, road)
            a, rc, wc = u.canAspect, u.roadConf, u.wallConf
            gcase = dict(level='float', op='ucm', h=h, dens=dens, vth=vth)
            if not (u.canWidth > 0 and a > 0):
                prob('canyon width/aspect not positive', gcase)
            if abs(2 * a * wc - (1 - rc)) > TOL or not (0 < rc < 1 and 0 < wc < 0.5):
                prob('view factors: 2a*wallConf=%r, 1-roadConf=%r, roadConf=%r, wallConf=%r' % (
                    2 * a * wc, 1 - rc, rc, wc), gcase)
            # long-wave
            for _ in range(3):
                c = dict(kind=rng.choice(['recip', 'equil']), a=a, rc=rc, wc=wc, shad=u.roadShad,
                         w=u.canWidth, h=h, er=rng.uniform(.5, 1), ew=rng.uniform(.5, 1),
                         tr=rng.uniform(250, 330), tw=rng.uniform(250, 330), infra=rng.uniform(150, 500))
                if c['kind'] == 'equil':
                    c['tw'] = c['tr']
                    c['infra'] = 5.67e-8 * c['tr'] ** 4.
                msg = oracle_infra(uwg.infracalcs, c, call_infra(uwg.infracalcs, c), tol=TOL)
                n += 1
                if msg:
                    prob(msg, dict(level='float', op='infra', **c))
            for lat, lon, gmt in sites:
                for month, day in [(1, 1), (3, 21), (6, 21), (9, 15), (12, 31)]:
                    for hr in range(0, 24, 1 if gi < 4 else 3):
                        dir_, dif = rng.choice([(800., 100.), (0., 50.), (500., 0.), (0., 0.),
                                                (rng.uniform(0, 1000), rng.uniform(0, 400))])
                        bem = [NS(roof=NS(solRec=None), wall=NS(solRec=None))]
                        st = NS(month=month, day=day, secDay=hr * 3600 + 1800, inobis=inobis)
                        par = NS(vegStart=4, vegEnd=10, vegAlbedo=.25, treeFLat=.5, grassFLat=.5)
                        sc = uwg.SolarCalcs(u, bem, st, NS(lon=lon, lat=lat, gmt=gmt),
                                            NS(dir=dir_, dif=dif), par, NS(solRec=None))
                        case = dict(level='float', op='solar', h=h, dens=dens, vth=vth, ralb=ralb,
                                    walb=walb, lat=lat, lon=lon, gmt=gmt, month=month, day=day,
                                    hour=hr, dir=dir_, dif=dif)
                        rural, U, B = sc.solarcalcs()
                        n += 1
                        rec = [U.road.solRec, rural.solRec, B[0].roof.solRec, B[0].wall.solRec,
                               U.SolRecRoof, U.SolRecRoad, U.SolRecWall]
                        if dir_ + dif <= 0:
                            stats['n_nosun'] += 1
                            if any(x != 0 for x in rec + [U.treeSensHeat, U.treeLatHeat]):
                                prob('no sun reported but received %r' % (rec,), case)
                            continue
                        stats['n_sun'] += 1
                        kr, kw = sc.Kr_term, sc.Kw_term
                        stats['max_budget'] = max(stats['max_budget'], kr + 2 * a * kw - 1)
                        stats['min_received'] = min([stats['min_received']] + rec)
                        if kr + 2 * a * kw > 1 + TOL or not (-TOL <= kw <= 1 + TOL):
                            prob('beam budget: Kr=%r Kw=%r a=%r' % (kr, kw, a), case)
                        if min(rec) < -TOL:
                            prob('received solar negative: %r' % (rec,), case)
                        if sc.horSol > 0:
                            if kr < -TOL:
                                prob('Kr_term=%r < 0 with the sun above the horizon' % kr, case)
                            if kw < 1:
                                e = abs(kr + 2 * a * kw - 1)
                                stats['max_split_err'] = max(stats['max_split_err'], e)
                                if e > TOL:
                                    prob('beam not split exactly: Kr+2aKw=%r' % (kr + 2 * a * kw), case)
                        else:
                            stats['n_below_horizon'] += 1
                        ar = ralb if (month < 4 or month > 10) else ralb * (1 - .2) + .25 * .2
                        ab = (1 - ar) * U.road.solRec + (1 - walb) * 2 * a * B[0].wall.solRec
                        en = sc.horSol * (kr + 2 * a * kw) + dif * (rc + 2 * a * wc)
                        if en > 0 and (kr >= 0 or sc.horSol == 0):
                            r = ab / en
                            if r > stats['max_ratio']:
                                stats['max_ratio'], stats['max_ratio_at'] = r, dict(
                                    aspect=a, ralb=ar, walb=walb, zenith=sc.zenith)
                            if a <= 3:
                                stats['max_ratio_aspect_le_3'] = max(stats['max_ratio_aspect_le_3'], r)
                            if r > 1 + TOL:
                                creation.append(dict(case=case, geo=(a, rc, wc), ar=ar, walb=walb,
                                                     ratio=r))
    return n, problems, creation, stats


# ------------------------------------------------------------------------------- stock averages of the canyon
def canyon_albedo_consistency(chk, violation):
    """What the reflection model of the canyon is given must be what the surfaces absorb with: after a real
    generate() with every optional override (set / unset / 0 / 1) and several stocks, the stock averages handed
    to UCMDef (alb_wall, r_glaze, SHGC -> facAbsor) equal the area-weighted values of the buildings that are
    simulated, and the road albedo of the canyon is the road element's."""
    import s2_util as S
    rng = chk.rng
    quick = chk.tier == 'quick'
    stocks = [[('largeoffice', 'pst80', 0.4), ('midriseapartment', 'pst80', 0.6)],
              [('warehouse', 'pre80', 1.0)],
              [('hospital', 'new', 0.2), ('smalloffice', 'pre80', 0.3), ('stripmall', 'pst80', 0.5)]]
    vals = {'albwall': [None, 0.0, 0.02, 0.5, 0.91, 1.0], 'glzr': [None, 0.0, 0.35, 0.9], 'shgc': [None, 0.1, 0.8, 1.0],
            'albroof': [None, 0.05, 0.7], 'vegroof': [None, 0.0, 0.6], 'flr_h': [None, 2.8, 6.5]}
    n = bad = 0
    br = {}
    for i in range(10 if quick else 60):
        bld = stocks[i % len(stocks)]
        ov = {k: rng.choice(v) for k, v in vals.items()}
        if i < 6:
            ov['albwall'] = vals['albwall'][i]
        case = {'level': 'generate', 'stock': bld, 'overrides': ov, 'zone': '5A'}
        m = S.live_model(bld, zone='5A', epw=TORONTO, month=6, outdir=chk.work())
        for k, v in ov.items():
            setattr(m, k, v)
        with core.quiet():
            m.generate()
        n += 1
        br['albwall=%s' % ('unset' if ov['albwall'] is None else 'set')] = br.get(
            'albwall=%s' % ('unset' if ov['albwall'] is None else 'set'), 0) + 1
        fr = [b.frac for b in m.BEM]
        aw = sum(f * b.wall.albedo for f, b in zip(fr, m.BEM))
        rg = sum(f * b.building.glazing_ratio for f, b in zip(fr, m.BEM))
        sh = sum(f * b.building.shgc for f, b in zip(fr, m.BEM))
        msgs = []
        if abs(m.UCM.alb_wall - aw) > 1e-12:
            msgs.append('canyon reflects with wall albedo %r, the walls absorb with %r (area-weighted)' % (
                m.UCM.alb_wall, aw))
        fa = (1 - rg) * (1 - aw) + rg * (1 - 0.75 * sh)
        if abs(m.UCM.facAbsor - fa) > 1e-12:
            msgs.append('facade absorptivity %r, buildings give %r' % (m.UCM.facAbsor, fa))
        if ov['albwall'] is not None and any(b.wall.albedo != ov['albwall'] for b in m.BEM):
            msgs.append('albwall override %r not on every wall' % ov['albwall'])
        if m.UCM.road is not None and hasattr(m.UCM, 'road') and m.UCM.road.albedo != m.albroad:
            msgs.append('canyon road albedo %r != albroad %r' % (m.UCM.road.albedo, m.albroad))
        if msgs:
            bad += 1
            if bad <= 2:
                violation('stock averages of the canyon disagree with the simulated buildings', case,
                          ' | '.join(msgs), 'UCM.alb_wall = sum frac_j wall_j.albedo; facAbsor from the same buildings')
    chk.direct('canyon-stock-averages(real generate, overrides)', n, n,
               'real generate() over 3 stocks x optional overrides (albwall incl. 0, 1 and unset; glzr, shgc, albroof, '
               'vegroof, flr_h): the wall albedo / glazing ratio / SHGC the canyon reflection model is constructed '
               'with equal the area-weighted values of the buildings that are simulated (1e-12); an albwall override '
               'is on every wall', mismatches=bad, branches=br)


# ------------------------------------------------------------------------------- nearly equal surface temperatures
NEAR_STEPS = [F(m) / F(10) ** k for k in range(3, 13) for m in (1, 3, 8)]      # 1e-3 .. 8e-13 K


def near_infra_cases(rng, n, geom_us):
    """road and wall surface temperatures 1e-3 .. 1e-12 K from each other (either sign), the situation of every
    evening / morning crossing of the two temperatures in a run; consistent (reciprocal) geometry, so that the
    exact antisymmetry oracle applies."""
    out = []
    for i in range(n):
        c = gen_infra(rng, 'recip', geom_u=rng.choice(geom_us) if geom_us and i % 2 else None)
        c['kind'] = 'near'
        d = NEAR_STEPS[i % len(NEAR_STEPS)] * rng.choice([1, -1])
        if i % 7 == 6:
            d = d + F(rng.randint(1, 999), 10 ** 15)
        c['tw'] = c['tr'] + d
        out.append(c)
    return out


def near_float_pass(chk, violation):
    """float level, real package, real UCMDef geometry: the exchange terms isolated by putting the sky in
    equilibrium with the RECEIVING surface (its own sky term is then exactly 0.0) and compared RELATIVE to the
    exchange itself - an absolute tolerance is blind below 1e-3 K of temperature difference."""
    import uwg
    rng = chk.rng
    quick = chk.tier == 'quick'
    geos = [(10., .5, .8), (30., .55, 2.), (60., .25, 6.), (5., .1, .2), (100., .4, 12.), (20., .6, 3.)]
    temps = [250., 273.15, 280., 293.15, 300.61460903871216, 330.]
    if not quick:
        geos += [(rng.uniform(3, 120), rng.uniform(0.05, 0.85), rng.uniform(0.1, 14)) for _ in range(20)]
        temps += [rng.uniform(240, 340) for _ in range(10)]
    n = bad = 0
    worst = 0.0
    br = {}
    for h, dens, vth in geos:
        road = uwg.Element(.1, 0.9, [0.5], [uwg.Material(1., 1e6, 'm')], 0.2, 293., 1, 'road')
        u = uwg.UCMDef(h, dens, vth, 0.1, 0., 0., 293., 0.01, 2., NS(windMin=1.), 0.25, 0.5, .2, road)
        for tr in temps:
            for k in range(3, 13):
                for mant in ((1., -8.) if quick else (1., -1., 3., -8.)):
                    dT = mant * 10. ** -k
                    tw = tr + dT
                    if tw == tr:
                        continue
                    er, ew = rng.uniform(.5, 1), rng.uniform(.5, 1)
                    r = uwg.infracalcs(u, NS(infra=5.67e-8 * tr ** 4.), er, ew, tr, tw)[0]
                    w = uwg.infracalcs(u, NS(infra=5.67e-8 * tw ** 4.), er, ew, tr, tw)[1]
                    n += 1
                    br['1e-%d' % k] = br.get('1e-%d' % k, 0) + 1
                    gain_r, gain_w = u.canWidth * r, 2 * h * w
                    size = max(abs(gain_r), abs(gain_w))
                    rel = abs(gain_r + gain_w) / size if size > 0 else (0.0 if gain_r == gain_w == 0 else float('inf'))
                    worst = max(worst, rel)
                    msg = None
                    if rel > 1e-12:
                        msg = 'road gains %.12e W/m, walls gain %.12e W/m: sum / size = %.3e' % (gain_r, gain_w, rel)
                    elif (r > 0) != (tw > tr) or (w > 0) != (tr > tw):
                        msg = 'heat flows towards the warmer surface: road %r, wall %r W/m2' % (r, w)
                    if msg:
                        bad += 1
                        if bad <= 2:
                            violation('road<->wall long-wave exchange at nearly equal surface temperatures',
                                      {'level': 'float', 'op': 'infra', 'bldHeight': h, 'bldDensity': dens, 'verToHor': vth,
                                       'T_road': tr, 'T_wall_minus_T_road': tw - tr, 'e_road': er, 'e_wall': ew,
                                       'sky': 'in equilibrium with the receiving surface'}, msg,
                                      'canWidth * (road <- walls) + 2 bldHeight * (walls <- road) = 0 relative to the '
                                      'exchange (1e-12; rounding gives ~2e-16); heat flows from warm to cold')
    chk.direct('longwave-exchange-near-equal-temperatures(float, real UCMDef + infracalcs)', n, n,
               'road and wall surface temperatures 1e-3 .. 1e-12 K apart (both signs, mantissas 1 / 3 / 8; 6 base '
               'temperatures 250..330 K incl. one taken from a run; 6 canyon geometries): the two exchange terms, each '
               'isolated by a sky in equilibrium with the receiving surface, are equal and opposite when weighted by '
               'road width and 2 x height, RELATIVE to the exchange (1e-12), and have the sign of the temperature '
               'difference', mismatches=bad, branches=br)
    chk.measurements['near_equal_temperatures_worst_relative_imbalance'] = float('%.3g' % worst)


def custom_stock_consistency(chk, violation):
    """canyon-stock-averages on stocks with user-defined archetypes: NEW types (rows after the 16 DOE types) and
    customs REPLACING a DOE type, their wall darker / lighter than the override, alone or mixed with DOE rows."""
    import s2_util as S
    import uwgutil as UU
    rng = chk.rng
    quick = chk.tier == 'quick'
    uwg = UU.uwg_mod()
    new3 = S.spec_new_types(3)
    repl = dict(type='largeoffice', era='pst80', src=(3, 1, 0))
    members = [
        ('one new type + one DOE row', [new3[0]], [('midriseapartment', 'pst80')]),
        ('new types only', new3[:2], []),
        ('custom replacing a DOE type + one DOE row', [repl], [('warehouse', 'pre80')]),
        ('new type + replacing custom + DOE row', [new3[1], repl], [('hospital', 'new')]),
        ('three new types + DOE row', new3, [('smalloffice', 'pre80')]),
    ]
    vals = {'albwall': [0.45, None, 0.02, 0.91, 0.0, 1.0], 'glzr': [None, 0.0, 0.35, 0.9], 'shgc': [None, 0.1, 0.8, 1.0],
            'albroof': [None, 0.05, 0.7], 'vegroof': [None, 0.0, 0.6], 'flr_h': [None, 2.8, 6.5]}
    n = bad = 0
    br = {}
    for i in range(len(members) * (2 if quick else 8)):
        label, spec, extra = members[i % len(members)]
        ov = {k: rng.choice(v) for k, v in vals.items()}
        if i < len(members):
            ov.update(albwall=0.45, glzr=0.35 if i % 2 else None, shgc=0.8 if i % 3 == 0 else None)
        own = [rng.choice([0.03, 0.08, 0.2, 0.6]) for _ in spec]
        bv, sv = S.custom_vector(uwg, spec)
        for b, a in zip(bv, own):
            b.wall.albedo = a
            b.building.glazing_ratio = rng.choice([0.1, 0.25, 0.5])
            b.building.shgc = rng.choice([0.25, 0.4, 0.6])
        bld = S.bld_for(spec, extra)
        case = {'level': 'generate', 'stock': bld, 'custom_archetypes': [
            {'type': sp['type'], 'era': sp['era'], 'wall_albedo': a, 'glazing_ratio': b.building.glazing_ratio,
             'shgc': b.building.shgc} for sp, a, b in zip(spec, own, bv)],
            'overrides': ov, 'zone': '5A', 'what': label}
        m = S.live_model(bld, zone='5A', epw=TORONTO, month=6, outdir=chk.work())
        m.ref_bem_vector, m.ref_sch_vector = m._check_reference_data(bv, sv)
        for k, v in ov.items():
            setattr(m, k, v)
        with core.quiet():
            m.generate()
        n += 1
        br[label] = br.get(label, 0) + 1
        fr = [b.frac for b in m.BEM]
        aw = sum(f * b.wall.albedo for f, b in zip(fr, m.BEM))
        rg = sum(f * b.building.glazing_ratio for f, b in zip(fr, m.BEM))
        sh = sum(f * b.building.shgc for f, b in zip(fr, m.BEM))
        msgs = []
        if len(m.BEM) != len(bld):
            msgs.append('%d archetypes simulated for %d stock rows' % (len(m.BEM), len(bld)))
        if abs(m.UCM.alb_wall - aw) > 1e-12:
            msgs.append('canyon reflects with wall albedo %r, the walls absorb with %r (area-weighted; walls: %r)' % (
                m.UCM.alb_wall, aw, [(b.bldtype, b.wall.albedo) for b in m.BEM]))
        fa = (1 - rg) * (1 - aw) + rg * (1 - 0.75 * sh)
        if abs(m.UCM.facAbsor - fa) > 1e-12:
            msgs.append('facade absorptivity %r, buildings give %r' % (m.UCM.facAbsor, fa))
        for key, get in (('albwall', lambda b: b.wall.albedo), ('glzr', lambda b: b.building.glazing_ratio),
                         ('shgc', lambda b: b.building.shgc)):
            if ov[key] is not None and any(get(b) != ov[key] for b in m.BEM):
                msgs.append('%s override %r not on every simulated building: %r' % (
                    key, ov[key], [(b.bldtype, get(b)) for b in m.BEM]))
        if msgs:
            bad += 1
            if bad <= 2:
                violation('stock averages of the canyon disagree with the simulated buildings (user-defined archetypes)',
                          case, ' | '.join(msgs[:3]),
                          'UCM.alb_wall = sum frac_j wall_j.albedo; facAbsor from the same buildings; a given override on '
                          'every simulated building (DOE or user-defined)')
    chk.direct('canyon-stock-averages(user-defined archetypes: new types and customs replacing DOE types)', n, n,
               'real generate() on stocks with archetypes handed over in ref_bem_vector: NEW type names (rows after the '
               '16 DOE types; 1-3 of them, alone or beside a DOE row) and customs REPLACING a DOE type, own wall albedo '
               '0.03-0.6 (darker and lighter than the override), own glazing ratio / SHGC; x optional overrides (albwall '
               '0.45 / unset / 0 / 1 ..., glzr, shgc, albroof, vegroof, flr_h): the wall albedo the canyon reflection '
               'model is constructed with and the facade absorptivity equal the area-weighted values of the buildings '
               'that are simulated (1e-12); a given albwall / glzr / shgc is on every simulated building',
               mismatches=bad, branches=br)


# ------------------------------------------------------------------------------- live simulations
TORONTO = 'tests/epw/CAN_ON_Toronto.716240_CWEC.epw'
SINGAPORE = 'resources/SGP_Singapore.486980_IWEC.epw'


def live_stock_runs(chk, violation):
    """The short-wave and long-wave clauses on the canyon AS SIMULATED: real generate() + simulate() of one day
    with building stocks whose archetypes are separate objects and with stocks whose archetypes own the same
    wall / mass / roof Element in the shipped library (two or three eras of `stripmall` or `warehouse`; at zone 8
    also standaloneretail/new + stripmall and supermarket/new + warehouse). Monitors wrapped around every
    solarcalcs() and urbflux() call of the run (harness/s2_util.py)."""
    import s2_util as S
    rng = chk.rng
    quick = chk.tier == 'quick'
    work = chk.work()
    runs = [
        ('separate archetypes', [('largeoffice', 'pst80', 0.4), ('midriseapartment', 'pst80', 0.6)], '1A',
         SINGAPORE, 7),
        ('two eras of warehouse', [('warehouse', 'pre80', 0.5), ('warehouse', 'new', 0.5)], '1A', SINGAPORE,
         rng.choice([1, 4, 7, 10])),
        ('two eras of stripmall', [('stripmall', 'pre80', 0.3), ('stripmall', 'new', 0.7)], '5A', TORONTO,
         rng.choice([1, 2, 12])),
        ('standaloneretail/new + stripmall at zone 8', [('standaloneretail', 'new', 0.25),
                                                        ('stripmall', 'pst80', 0.75)], '8', TORONTO, 10),
    ]
    if not quick:
        runs += [
            ('three eras of stripmall', [('stripmall', 'pre80', 0.25), ('stripmall', 'pst80', 0.25),
                                         ('stripmall', 'new', 0.5)], '8', SINGAPORE, 3),
            ('warehouse pst80 + new (roof shared as well)', [('warehouse', 'pst80', 0.6), ('warehouse', 'new', 0.4)],
             '3B-CA', TORONTO, 6),
            ('supermarket/new + warehouse at zone 8', [('supermarket', 'new', 0.5), ('warehouse', 'pre80', 0.5)],
             '8', SINGAPORE, 9),
            ('separate archetypes, cold', [('smalloffice', 'new', 0.3), ('hospital', 'pre80', 0.7)], '6A',
             TORONTO, 1),
            ('aliased + separate', [('warehouse', 'pre80', 0.2), ('largeoffice', 'new', 0.5),
                                    ('warehouse', 'new', 0.3)], '4A', TORONTO, 4),
        ]
        for _ in range(6):
            t = rng.choice(['stripmall', 'warehouse'])
            e1, e2 = rng.sample(['pre80', 'pst80', 'new'], 2)
            f = rng.choice([0.1, 0.25, 0.5, 0.8])
            runs.append(('two eras of %s' % t, [(t, e1, f), (t, e2, 1 - f)],
                         rng.choice(['1A', '2B', '3C', '4B', '5C', '6B', '7', '8']),
                         rng.choice([TORONTO, SINGAPORE]), rng.randint(1, 12)))
    nbad = nsteps = 0
    meas = []
    aliased = []
    for label, bld, zone, epw, month in runs:
        case = {'level': 'live', 'op': 'simulate', 'stock': bld, 'zone': zone, 'epw': epw, 'month': month, 'day': 1,
                'nday': 1, 'dtsim': 300, 'what': label}
        m = S.live_model(bld, zone=zone, epw=epw, month=month, outdir=work)
        with core.quiet():
            m.generate()
        shared = S.identity_structure(m.BEM)
        with S.Patch() as p:
            sm = S.SolarMonitor(p)
            im = S.InfraMonitor(p)
            try:
                with core.quiet():
                    m.simulate()
            except Exception as e:                               # noqa: BLE001
                chk.notes.append('live run %s ended with %s: %s (the model\'s own fail-stop: a note, not a '
                                 'verdict)' % (label, type(e).__name__, str(e)[:120]))
        nsteps += sm.n_sun + sm.n_nosun + im.n
        for kind, mon in (('short-wave', sm), ('long-wave', im)):
            if mon.problems:
                nbad += 1
                first = [x for x in mon.problems if x][:3]
                violation('%s exchange of the canyon as simulated (%s)' % (kind, label), case,
                          '%d problem(s) in %d steps: %s' % (len(mon.problems), mon.n_sun + mon.n_nosun
                                                             if kind == 'short-wave' else mon.n, ' | '.join(first)),
                          'walls, roofs and road receive exactly the prescribed irradiance (zero without sun)'
                          if kind == 'short-wave' else
                          'one long-wave evaluation per archetype and one for the road against the stock-average '
                          'wall temperature; road<->wall exchange equal and opposite when weighted by the areas; '
                          'zero at equilibrium with the sky')
        meas.append({'stock': label, 'zone': zone, 'month': month, 'sunlit_steps': sm.n_sun,
                     'dark_steps': sm.n_nosun, 'urbflux_steps': im.n, 'equilibrium_replays': im.n_eq,
                     'max_exchange_imbalance_as_simulated_W_m2': round(im.worst, 4),
                     'max_exchange_imbalance_one_time_level_W_m2': float('%.3g' % im.worst_sync),
                     'max_road_net_longwave_at_equilibrium_W_m2': float('%.3g' % im.worst_eq),
                     'steps_with_a_wall_advanced_more_than_once': im.multi,
                     'objects_shared_by_archetypes': shared[:4]})
        if im.multi:
            aliased.append((label, bld, zone, shared[:2], im.multi, im.n))
    chk.direct('live-canyon-exchange(real generate+simulate; separate and aliased archetypes)', nsteps, nsteps,
               '1-day runs (dt 300 s, Singapore / Toronto, several months) of stocks with separate archetypes and of '
               'stocks whose archetypes own one wall / mass / roof Element in the shipped library (two / three eras '
               'of stripmall or warehouse, cross-type pairs at zone 8; thorough: random eras, fractions, zones). '
               'After every solarcalcs(): wall of every entry == bldSol + (1-2 wallConf) mw + wallConf mr, road, '
               'roof and rural likewise, bit for bit, zero without sun. Around every urbflux(): one infracalcs '
               'evaluation per entry + one for the road; the road evaluated against sum_j frac_j T_wall_j over all '
               'entries (bit-exact, T_wall_j a temperature that wall took after an update of this step); '
               'area-weighted road<->wall exchange within 25 W/m2 as simulated (one wall update of lag) and within '
               '0.5 W/m2 at one time level; the step replayed every 48 steps with road, walls, air and sky at one '
               'temperature: road net long-wave within 2 W/m2 of zero, first wall exactly zero',
               mismatches=nbad, branches={r[0]: 1 for r in runs})
    chk.measurements['live_canyon_exchange'] = meas
    if aliased:
        chk.notes.append(
            'FINDING (unchanged tree, recorded - not a verdict): with a stock of two eras of stripmall / warehouse '
            'the archetypes own ONE wall Element (shipped library, see C07/C19 notes): urbflux advances that wall '
            'once per stock row (%s: more than one update per step in %d of %d steps), each row\'s long-wave is '
            'evaluated at the intermediate state and the stock-average wall temperature mixes those states. The '
            'C13 clauses still hold on such runs (irradiance exact; exchange imbalance as measured in '
            'measurements.live_canyon_exchange)' % (aliased[0][0], aliased[0][4], aliased[0][5]))


# ------------------------------------------------------------------------------- round 4: circumstances
def kernel_circumstances(chk, pkg, violation):
    """[1][2][6] on the kernel objects themselves (exact rationals): SolarCalcs / UCMDef / Element / archetype
    stand-ins rendered between two solarcalcs() calls on one object; the inputs of the routines left alone."""
    import generic as G
    import u3_util as U3
    rng = chk.rng
    quick = chk.tier == 'quick'
    dg0 = U3.class_digest('uwgfrac')[0]
    n = nbad = 0
    br = {}
    looks = [('repr', lambda o: [repr(x) for x in U3.kernel_objects(o)]),
             ('str', lambda o: [str(x) for x in U3.kernel_objects(o)]),
             ('every renderer of every reachable object', U3.render),
             ('DEBUG logging + render', None)]

    def sequence(c1, c2, look):
        sc, geo = build_solar(pkg, c1)
        out = []
        for c in (c1, c2):
            if look:
                look(sc)
            err, o = run_solar(sc, c)
            out.append(err or solar_answer(o) if (err or o['roof'] is not None) else 'ok nobem')
        if look:
            look(sc)
        return out, sc, geo

    for i in range(40 if quick else 400):
        geom = gen_geom(rng, 'pyth') if rng.random() < 0.7 else None
        c1 = gen_solar(rng, geom=geom, sun_kind=rng.choice(['consistent', 'overhead', 'random']))
        sc0, geo = build_solar(pkg, c1)
        fill_sun(rng, c1, geo[0])
        c2 = dict(c1, sun_kind=rng.choice(['consistent', 'nosun', 'random']))
        fill_sun(rng, c2, geo[0])
        lname, look = looks[i % len(looks)]
        ref, sc_ref, _ = sequence(c1, c2, None)
        if look is None:
            with G.debug_logging():
                got, sc, _ = sequence(c1, c2, U3.render)
        else:
            got, sc, _ = sequence(c1, c2, look)
        n += 1
        br[lname] = br.get(lname, 0) + 1
        msgs = []
        if got != ref:
            k = 0 if got[0] != ref[0] else 1
            msgs.append('solarcalcs call %d on an object somebody looked at gives %s, unobserved %s' % (k + 1, got[k][:160], ref[k][:160]))
        w = U3.where(U3.state(sc_ref), U3.state(sc))
        if w and not msgs:
            msgs.append('state after the observed sequence differs from the unobserved one: ' + w)
        # [6] the inputs of solarcalcs are left alone, its results are the objects handed in; twice = once
        sc, geo = build_solar(pkg, c1)
        par0, st0, rsm0 = U3.state(sc.parameter), U3.state(sc.simTime), U3.state(sc.RSM)
        bem_ids = [id(b) for b in sc.BEM]
        bem_list = sc.BEM
        err1, o1 = run_solar(sc, c1)
        err2, o2 = run_solar(sc, c1)
        if (err1, o1) != (err2, o2):
            msgs.append('the same solarcalcs call twice on one object gives two results')
        if not (U3.same(par0, U3.state(sc.parameter)) and U3.same(st0, U3.state(sc.simTime)) and U3.same(rsm0, U3.state(sc.RSM))):
            msgs.append('solarcalcs wrote into its parameter / clock / site inputs: %s' % (
                U3.where(par0, U3.state(sc.parameter)) or U3.where(st0, U3.state(sc.simTime)) or U3.where(rsm0, U3.state(sc.RSM))))
        if sc.BEM is not bem_list or [id(b) for b in sc.BEM] != bem_ids:
            msgs.append('solarcalcs re-ordered / replaced the archetype list it was given')
        if msgs:
            nbad += 1
            violation('kernel objects under circumstances that must not matter (%s)' % lname,
                      dict(case_json(c1), observer=lname, second_sun=case_json({k: c2[k] for k in ('dir', 'dif', 'zen', 'tz', 'crit')})),
                      ' | '.join(msgs[:3]), 'rendering is not a computation; inputs are left alone; same call, same result')
    # infracalcs / UCMDef.__init__: inputs left alone
    for _ in range(20 if quick else 200):
        c = gen_infra(rng)
        u = NS(roadConf=c['rc'], wallConf=c['wc'], roadShad=c['shad'])
        fo = NS(infra=c['infra'])
        su, sf = U3.state(u), U3.state(fo)
        r1 = pkg.infracalcs(u, fo, c['er'], c['ew'], c['tr'], c['tw'])
        U3.render(u)
        r2 = pkg.infracalcs(u, fo, c['er'], c['ew'], c['tr'], c['tw'])
        n += 1
        br['infracalcs'] = br.get('infracalcs', 0) + 1
        if tuple(r1) != tuple(r2) or not U3.same(su, U3.state(u)) or not U3.same(sf, U3.state(fo)):
            nbad += 1
            violation('infracalcs is not a function of its arguments', case_json(c), '%s then %s' % (r1, r2), 'pure')
        g = gen_geom(rng)
        road = mk_road(pkg, F(1, 10), g['veg'])
        sr = U3.state(road)
        try:
            with ExactRoots(pkg, on=g['kind'] == 'pyth'):
                u1 = pkg.UCMDef(g['h'], g['dens'], g['vth'], g['tree'], F(0), F(0), F(293), F(1, 100), F(2), NS(windMin=F(1)),
                                F(1, 4), HALF, F(1, 5), road)
                U3.render(u1)
                u2 = pkg.UCMDef(g['h'], g['dens'], g['vth'], g['tree'], F(0), F(0), F(293), F(1, 100), F(2), NS(windMin=F(1)),
                                F(1, 4), HALF, F(1, 5), road)
        except Exception:  # noqa: BLE001 - degenerate geometry (covered by the geometry tie)
            continue
        n += 1
        br['UCMDef'] = br.get('UCMDef', 0) + 1
        if [getattr(u1, k) for k in GEOM_ATTRS] != [getattr(u2, k) for k in GEOM_ATTRS] or not U3.same(sr, U3.state(road)):
            nbad += 1
            violation('UCMDef.__init__ depends on an earlier construction / changes the road it is given', case_json(g),
                      U3.where(sr, U3.state(road)) or 'second construction differs', 'same geometry, road left alone')
    if U3.class_digest('uwgfrac')[0] != dg0:
        nbad += 1
        violation('class-level data changed by the canyon kernels', {'package': 'fractionised'}, 'digest differs', 'constants')
    chk.direct('kernel-objects-under-circumstances(solarcalcs, infracalcs, UCMDef)', n, n,
               'circumstances [1][2][6] on the kernel objects (exact rationals): two solarcalcs() calls on ONE SolarCalcs '
               'object (second sun different, incl. the no-sun branch) with the SolarCalcs / UCMDef / road Element / '
               'archetype objects rendered (repr, str, every renderer incl. ToString / to_dict / copies, DEBUG logging) '
               'before, between and after: answers and final state equal the unobserved sequence; the same call twice '
               'gives one result; parameter / clock / site inputs, the archetype list and its order, the road handed to '
               'UCMDef and the arguments of infracalcs are left alone; class-level data unchanged',
               mismatches=nbad, branches=br)


# ------------------------------------------------------------------------------- round 5: one SolarCalcs object, many calls
# `SolarCalcs` is exported (`from uwg import SolarCalcs`); simulate() builds a new one every step, a caller stepping the
# model himself need not. C13 speaks about every solarcalcs() call: what a surface receives is a function of the sun,
# the geometry and the albedos AT THAT CALL - also for the second and third call on one object, and also when the
# caller changed the archetype list in between.
REUSE_EDITS = ('none', 'none', 'none', 'wall-replaced', 'roof-replaced', 'archetype-appended', 'archetype-removed',
               'month-changed', 'road-albedo-changed')


def _apply_edit(rng, sc, ck, edit):
    """what a caller may do to the objects between two calls; returns the edit actually applied"""
    if edit == 'wall-replaced':
        sc.BEM[rng.randrange(len(sc.BEM))].wall = NS(solRec=None)
    elif edit == 'roof-replaced':
        sc.BEM[rng.randrange(len(sc.BEM))].roof = NS(solRec=None)
    elif edit == 'archetype-appended':
        sc.BEM.append(NS(roof=NS(solRec=None), wall=NS(solRec=None)))
    elif edit == 'archetype-removed':
        if len(sc.BEM) < 2:
            return 'none'
        sc.BEM.pop(rng.randrange(len(sc.BEM)))
    elif edit == 'month-changed':
        ck['month'] = rng.randint(1, 12)
        sc.simTime.month = ck['month']
    elif edit == 'road-albedo-changed':
        ck['ralb'] = rq(rng, 0, 1, 20)
        sc.UCM.road.albedo = ck['ralb']
    return edit


def reuse_ties(chk, pkg, violation):
    import copy
    import v3_util as V3
    rng = chk.rng
    quick = chk.tier == 'quick'
    pairs, n, nbad, br = [], 0, 0, {}
    for i in range(40 if quick else 400):
        geom = gen_geom(rng, 'pyth') if rng.random() < 0.6 else None
        c1 = gen_solar(rng, geom=geom, sun_kind=rng.choice(['consistent', 'overhead', 'random', 'consistent']))
        c1['nbem'] = rng.choice([1, 2, 2, 3])
        if c1['nbem'] < 2:
            c1['alias'] = 'none'
        sc, geo = build_solar(pkg, c1)
        fill_sun(rng, c1, geo[0])
        seq = [(c1, 'first call')]
        for k in range(rng.choice([1, 2, 2])):
            ck = dict(seq[-1][0], sun_kind=rng.choice(['nosun', 'nosun', 'consistent', 'random', 'overhead']))
            fill_sun(rng, ck, geo[0])
            seq.append((ck, rng.choice(REUSE_EDITS)))
        history = []
        for k, (ck, edit) in enumerate(seq):
            if k:
                ck['month'], ck['ralb'] = seq[k - 1][0]['month'], seq[k - 1][0]['ralb']   # as the earlier edits left them
                edit = _apply_edit(rng, sc, ck, edit)
            geo = (sc.UCM.canAspect, sc.UCM.roadConf, sc.UCM.wallConf, sc.UCM.treeCoverage, sc.UCM.road.vegcoverage,
                   sc.UCM.vegcover)
            twin = pkg.SolarCalcs(*copy.deepcopy((sc.UCM, sc.BEM, sc.simTime, sc.RSM, sc.forc, sc.parameter, sc.rural)))
            err, o = run_solar(sc, ck, reused=True)
            errf, of = run_solar(twin, ck)
            history.append('%s: %s' % (edit if k else 'first call', ck['sun_kind']))
            n += 1
            key = 'call %d/%s/%s' % (k + 1, 'no sun' if ck['dir'] + ck['dif'] <= 0 else 'sun', edit if k else '-')
            br[key] = br.get(key, 0) + 1
            ans = err or (solar_answer(o) if o['roof'] is not None else 'ok nobem')
            if ans != 'ok nobem':
                pairs.append((solar_line(ck, geo), ans))
            msgs = []
            a, b = V3.solar_surfaces(sc), V3.solar_surfaces(twin)
            w = V3.first_surface_difference(a, b)
            if w or err != errf:
                def fl(v):
                    return [None if x is None else float(x) for x in v] if isinstance(v, tuple) else (None if v is None else float(v))
                msgs.append('call %d on ONE SolarCalcs object gives %s = %s; a fresh SolarCalcs on the same inputs gives %s'
                            % (k + 1, w or 'outcome', fl(a[w]) if w else err, fl(b[w]) if w else errf))
            if o is not None:
                m = oracle_solar(ck, geo, o)
                if m:
                    msgs.append(m)
            elif err == 'bem-differ':
                msgs.append('archetypes of one canyon receive different irradiance: walls %s, roofs %s' % (
                    [None if x is None else float(x) for x in a['walls']], [None if x is None else float(x) for x in a['roofs']]))
            if msgs:
                nbad += 1
                violation('solarcalcs() called more than once on ONE SolarCalcs object (call %d)' % (k + 1),
                          dict(case_json({q: v for q, v in ck.items() if q != 'geom'}), geometry=case_json(ck.get('geom', {})),
                               calls_so_far=history),
                          ' | '.join(msgs[:3]),
                          'every call hands every surface what a freshly constructed SolarCalcs hands it for the inputs as they '
                          'are at that call: exactly 0 without sun, the prescribed irradiance with sun')
                break
    chk.correspond('SolarCalcs.solarcalcs(2nd / 3rd call on one object)~solarcalcs', 'C13', pairs,
                   rule='fractionised solarcalcs called two or three times on ONE SolarCalcs object: sun -> no sun / another '
                        'sun -> ..., the clock month changed in place, and between the calls the caller replaces a wall or a '
                        'roof object, appends or removes an archetype, changes the road albedo (archetype lists of 1..3 '
                        'entries, with shared wall / roof objects); every call vs the stateless Lean `solarcalcs` on the inputs '
                        'of that call',
                   classify=lambda line, impl: impl.split(' ')[1] if impl.startswith('ok') else impl)
    chk.direct('reused-SolarCalcs-vs-fresh(exact)', n, n,
               'every call of the sequences above against a FRESH SolarCalcs constructed on deep copies of the objects as they '
               'are at that call (walls, roofs, road, rural site, canyon aggregates, vegetation heat: equal), and the T2/T4 '
               'oracle on the re-used object\'s results (all-zero without sun, prescribed wall / road / roof irradiance)',
               mismatches=nbad, branches=br)

    # float level: the real objects of a generated model, the real solarangles, one object driven over a day
    import simdriver
    uwg = sys.modules.get('uwg') or __import__('uwg')
    nf = fbad = 0
    fbr = {}
    for (mo, dy) in ([(7, 1)] if quick else [(7, 1), (1, 15), (4, 1), (10, 31)]):
        with core.quiet():
            m = simdriver.build_model(mo, dy, 1, 300)
        sc = uwg.SolarCalcs(m.UCM, m.BEM, m.simTime, m.RSM, m.forc, m.geoParam, m.rural)
        suns = [(43200, 700., 150.), (36000, 0., 90.), (0, 0., 0.), (50400, 400., 200.), (75600, 0., 0.), (64800, 20., 5.)]
        rng.shuffle(suns)
        if suns[0][1] + suns[0][2] <= 0:
            suns.reverse()
        for k, (sec, dr, df) in enumerate(suns[:4 if quick else 6]):
            m.simTime.secDay = sec
            m.forc.dir, m.forc.dif = dr, df
            if k == 2:      # the caller swaps a wall for a new Element between two calls
                w = m.BEM[0].wall
                m.BEM[0].wall = uwg.Element(w.albedo, w.emissivity, list(w.layer_thickness_lst), list(w.material_lst),
                                            w.vegcoverage, 293., w.horizontal, w.name)
            twin = uwg.SolarCalcs(*copy.deepcopy((m.UCM, m.BEM, m.simTime, m.RSM, m.forc, m.geoParam, m.rural)))
            sc.solarcalcs()
            twin.solarcalcs()
            nf += 1
            fbr['sun' if dr + df > 0 else 'no sun'] = fbr.get('sun' if dr + df > 0 else 'no sun', 0) + 1
            a, b = V3.solar_surfaces(sc), V3.solar_surfaces(twin)
            w = V3.first_surface_difference(a, b)
            msg = None
            if w:
                msg = 'call %d on one SolarCalcs object: %s = %r, a fresh object gives %r' % (k + 1, w, a[w], b[w])
            elif dr + df <= 0 and any(x != 0 for x in a['walls'] + a['roofs'] + (a['road'], a['rural'])):
                msg = 'the weather row reports no sun, walls receive %r, roofs %r' % (a['walls'], a['roofs'])
            if msg:
                fbad += 1
                violation('solarcalcs() called more than once on ONE SolarCalcs object (float, real objects of a generated '
                          'model)', {'level': 'float', 'month': mo, 'day': dy, 'call': k + 1,
                                     'suns(secDay, direct, diffuse)': suns[:k + 1]}, msg,
                          'as a fresh SolarCalcs on the same objects; zero without sun')
                break
    chk.direct('reused-SolarCalcs-vs-fresh(float, objects of a generated model, real solarangles)', nf, nf,
               'SolarCalcs(model.UCM, model.BEM, model.simTime, ...) of a generated model driven over noon sun / overcast / '
               'night / low sun by setting the clock and the forcing, a wall Element swapped by the caller between two calls: '
               'each call bit-identical to a fresh SolarCalcs on deep copies of the objects, all-zero without sun',
               mismatches=fbad, branches=fbr)


def explain_excess(chk, excess, violation, label):
    """canyon totals with absorbed > entering seen in live runs: only the recorded closure deviation (Lean cR / cB > 1)
    may explain them"""
    if not excess:
        return 0
    keys = []
    for e in excess:
        a, rc, wc = e['geo']
        keys.append(frac_list([F(a), F(rc), F(wc), F(e['ar']), F(e['walb'])]))
    uniq = sorted(set(keys))
    ans = dict(zip(uniq, chk.lean_run('C13', ['coef v=' + k for k in uniq])))
    bad = 0
    for e, k in zip(excess, keys):
        a = ans[k]
        vals = [F(x) for x in a.split('[')[1].rstrip(']').split(';')] if a.startswith('ok') else None
        if vals is None or not (vals[0] > 1 or vals[1] > 1):
            bad += 1
            if bad <= 2:
                violation('canyon as simulated absorbs more short-wave than enters it (%s)' % label,
                          {'level': 'live', 'at': e['at'], 'aspect': e['geo'][0], 'road_albedo_used': e['ar'],
                           'wall_albedo_used': e['walb'], 'what': label},
                          'absorbed %.3f W per m2 of road, entering %.3f (+%.1f%%); Lean cR, cB = %s'
                          % (e['absorbed'], e['entering'], 100 * (e['absorbed'] / e['entering'] - 1),
                             None if vals is None else [float(v) for v in vals[:2]]),
                          'absorbed <= entering wherever the recorded closure deviation (cR > 1) does not apply')
    return bad


def dictionary_route(chk, violation):
    """[4] the dictionary / JSON route for the sub-objects the canyon exchange depends on."""
    import generic as G
    import uwgutil as UU
    import u3_util as U3
    rng = chk.rng
    quick = chk.tier == 'quick'
    uwg = UU.uwg_mod()
    epw = UU.rp(SINGAPORE)
    # (i) Element dictionaries on their own: verdicts, attributes, absorption behaviour, parse order, class-level data
    data = U3.planted_wall_data(month=rng.choice([5, 6, 7, 8, 9]), wall_albedo=rng.choice([0.6, 0.7, 0.8]),
                                wall_veg=rng.choice([0.4, 0.6, 0.9]), albveg=rng.choice([0.05, 0.1, 0.15]))
    wall_d = data['ref_bem_vector'][0]['wall']
    forc = NS(pres=101325., prec=0., deepTemp=295.)
    par = NS(vegStart=4, vegEnd=10, vegAlbedo=data['albveg'], grassFLat=0.5, treeFLat=0.5, colburn=1., waterDens=1000.,
             cp=1004., lv=2500800., wgmax=0.005)

    def behave(el):
        el.layerTemp = [300.] * len(el.layerTemp)
        el.solRec, el.infra = 500., -40.
        el.SurfFlux(forc, par, NS(month=data['month'], dt=300.), 0.012, 299., 2.5, 1., 5.)
        return [el.solAbs, el.lat, el.sens, el.flux, list(el.layerTemp)]
    # (ii) the whole model through UWG.from_dict with a hand-edited wall dictionary, canyon monitored while it runs
    members = [(lab, d, exp) for lab, d, exp in U3.element_dict_members(wall_d, rng)
               if exp is U3.REFUSED or exp == ('flag', False) or lab in ('as written', 'extra keys', 'albedo as float',
                                                                         'material numbers as ints where integral')]
    if quick:
        keep_ref = [m for m in members if m[2] is U3.REFUSED and ('horizontal' in m[0] or 'absent' in m[0])]
        members = [m for m in members if m[2] is not U3.REFUSED] + keep_ref
    work = os.path.join(chk.work(), 'dict13')
    nrun = nbad = 0
    br = {}
    excess = []
    found = []
    ref_rec = None
    for lab, wd, exp in members:
        dd = json.loads(json.dumps(data))
        dd['ref_bem_vector'][0]['wall'] = wd
        case = {'level': 'live', 'route': 'UWG.from_dict(JSON)', 'wall_dictionary_edit': lab,
                'wall': {k: wd.get(k, '<absent>') for k in ('albedo', 'vegcoverage', 'horizontal')},
                'albveg': data['albveg'], 'month': data['month'], 'day': data['day']}
        r = U3.run_scenario(dd, epw, work, 'w.epw', monitors=('absorb', 'solar'), stages=('generate', 'simulate'))
        nrun += 1
        key = 'refused' if r['error'] else 'simulated'
        br[key] = br.get(key, 0) + 1
        msgs = []
        if exp is U3.REFUSED and r['error'] is None:
            msgs.append('accepted and simulated (the unchanged tree refuses this dictionary)')
        if exp is not U3.REFUSED and r['error'] is not None:
            msgs.append('refused with %s: %s' % (r['error'], r.get('error_msg', '')[:100]))
        for mn, mr in r['monitors'].items():
            msgs += ['%s monitor, %s' % (mn, x) for x in mr['problems'][:2]]
        excess += [dict(e, label=lab) for e in r['monitors'].get('absorb', {}).get('excess', [])[:3]]
        if r['error'] is None and exp is not U3.REFUSED:
            if ref_rec is None:
                ref_rec = r['records']
            elif r['records'] != ref_rec:
                fd = G.first_diff(r['records'], ref_rec)
                msgs.append('hourly records differ from the run with the dictionary as written, first at record %s' % fd[0])
        if msgs:
            nbad += 1
            found.append((0 if any('monitor' in x for x in msgs) else 1, lab, case, msgs))
    for _, lab, case, msgs in sorted(found, key=lambda x: x[0])[:3]:      # property-level witnesses first
        violation('custom archetype with a hand-edited wall dictionary (%s)' % lab, case, ' | '.join(msgs[:3]),
                  'the verdict of the unchanged tree; if simulated: every wall absorbs the complement of what the '
                  'canyon reflects from it, records as with the dictionary as written')
    nbad += explain_excess(chk, excess, violation, 'hand-edited wall dictionary')
    chk.direct('live-dictionary-route(custom archetype with a planted light facade)', nrun, nrun,
               'circumstance [4]: UWG.from_dict on the JSON of a model whose one custom archetype has a light, planted '
               'facade (albedo 0.6-0.8, vegetation cover 0.4-0.9, vegetation albedo 0.05-0.15, a month inside the '
               'season - where the orientation of a wall decides whether the budget closes), the wall dictionary edited '
               'by hand: as written, extra keys, ints / floats, the flag written in every spelling that means '
               '"vertical" (False, 0, 0.0, "0", " 0 ", "00"), and the refused members (keys absent / null, flag as '
               '"false" / "no" / "" / null ...). generate() + simulate() with the canyon monitored at every step: verdict '
               'of the unchanged tree; every wall absorbs (1 - albedo) x received and the road the complement of the '
               'closure\'s road albedo (1e-12); received irradiance as prescribed (s2 SolarMonitor); canyon absorbed <= '
               'entering unless Lean cR > 1; records equal the run with the dictionary as written',
               mismatches=nbad, branches=br)

    nprob = 0
    brs = {}
    for role in ('wall', 'roof', 'mass'):
        probs, br = U3.dict_route_problems(uwg.element.Element, data['ref_bem_vector'][0][role], rng, behave)
        brs.update({'%s/%s' % (role, k): v for k, v in br.items()})
        nprob += len(probs)
        for label, d, obs, exp in probs[:1]:
            violation('Element dictionary route (%s of a custom archetype): %s' % (role, label),
                      {'level': 'dictionary', 'role': role, 'member': label, 'element_dictionary': d}, obs, exp)
    chk.direct('element-dictionary-route(wall / roof / mass dictionaries of a custom archetype)', sum(brs.values()),
               sum(brs.values()),
               'circumstance [4]: Element.from_dict on the wall, roof and mass dictionaries of a custom archetype (JSON of '
               'to_dict(); planted light facade) and their hand-edited variants: every key absent / null, extra keys, '
               'numeric keys as int / float / numeric text, the orientation flag written as bool / int / float / text (19 '
               'spellings). Verdict = unchanged tree; accepted => the element of the constructor route with the '
               'orientation the flag means, same absorbed / latent / sensible / conducted heat in one in-season SurfFlux '
               'call with 500 W/m2 received; independent of the Element dictionary parsed before; caller\'s dictionary and '
               'class-level data left alone', mismatches=nprob, branches=brs)

def live_circumstances_13(chk, violation):
    import uwgutil as UU
    import u3_util as U3
    rng = chk.rng
    probs, nk = U3.kernel_verdict_problems(chk, 'C13')
    for lab, obs, exp in probs[:2]:
        violation('kernel call under python -O / verdict of a refusal: ' + lab, {'level': 'kernel', 'call': lab}, obs, exp)
    chk.direct('kernel-calls-under-python-O(UCMDef, solarcalcs, infracalcs)', nk, nk,
               'circumstance [3]: ordinary UCMDef / solarcalcs / infracalcs calls and the refusals of the unchanged tree '
               '(density 1, facade ratio 0, negative density, aspect 0, month 13) in this process and in a fresh '
               'interpreter under python -O: identical outcomes bit for bit, each refusal of the same class',
               mismatches=len(probs))
    data = U3.planted_wall_data(month=rng.choice([5, 7, 9]), geometry=rng.choice([(10, 0.5, 0.8), (25, 0.4, 2.0)]),
                                extra_bld=[('midriseapartment', 'pre80', 0.4)])
    nb = U3.default_data(month=1, day=10)
    res, probs = U3.live_circumstances(chk, data, UU.rp(SINGAPORE), ('absorb', 'solar'), 'live13',
                                       neighbour=(nb, UU.rp(TORONTO)), cli_monitors=('absorb',))
    for circ, obs, exp in probs[:3]:
        violation('live canyon exchange under a circumstance that must not matter: ' + circ,
                  {'level': 'live', 'month': data['month'], 'stock': data['bld'], 'circumstance': circ}, obs, exp)
    excess = [e for r in res.values() for e in r.get('monitors', {}).get('absorb', {}).get('excess', [])[:3]]
    nb_ = explain_excess(chk, excess, violation, 'live run under circumstances')
    cnt = res['plain']['monitors']['absorb']['counts']
    chk.direct('live-run-under-circumstances(canyon absorption monitor)', cnt.get('steps', 0), len(res),
               'a 1-day run (custom archetype with planted light facade + a DOE archetype, dictionary route) with the '
               'canyon monitored at every step (surfaces absorb the complement of what the closure reflects; received '
               'irradiance as prescribed), repeated [1] rendered after construction / generate() / every 41st step / at the '
               'end, [2] under DEBUG logging, [3] under python -O, [4] through `python -m uwg simulate model` (real '
               'subprocess, and inside a monitored child), [5] with another model (other site) generated and simulated '
               'between generate() and simulate(), [6] caller\'s dictionary compared before / after: records, written '
               'file, verdict equal the plain run and the monitors hold everywhere',
               mismatches=len(probs) + nb_, branches={k: 1 for k in res})


# ------------------------------------------------------------------------------- main
def load_corpus():
    d = os.path.join(core.VERIF, 'corpus', 'C13')
    out = []
    if os.path.isdir(d):
        for fn in sorted(os.listdir(d)):
            if fn.endswith('.json'):
                for cs in json.load(open(os.path.join(d, fn))).get('cases', []):
                    out.append(case_from_json(cs))
    return out


def classify_solar(line, impl):
    """Branch taken, read off the implementation's own answer."""
    if impl.startswith('err') or impl.startswith('bem'):
        return impl
    tag = impl.split(' ')[1]
    if tag != 'sun':
        return tag
    v = impl.split('[')[1].rstrip(']').split(';')
    hor, kw, kr = v[9], v[10], v[11]
    month, vs, ve = (int(line.split(k + '=')[1].split(' ')[0]) for k in ('month', 'vs', 've'))
    return 'sun/%s/%s/%s/%s' % ('hor0' if hor == '0/1' else 'beam', 'Kw=1' if kw == '1/1' else 'Kw<1',
                                'Kr<0' if kr.startswith('-') else 'Kr>=0',
                                'offseason' if (month < vs or month > ve) else 'inseason')


def run(chk):
    chk.proof(MODULE, THEOREMS)
    if chk.tier == 'thorough':
        chk.leanchecker([MODULE])
    pkg = fracexec.load()
    rng = chk.rng
    quick = chk.tier == 'quick'
    viol = {'n': 0}

    def violation(what, case, observed, expected):
        viol['n'] += 1
        if viol['n'] <= 4:
            chk.violation('impl-violation', what, case=case, observed=observed, expected=expected)

    # ---------------------------------------------------------------- geometry tie + T1 oracle
    geoms = [gen_geom(rng, 'pyth', mn) for mn in PYTH for _ in (0, 1)]
    geoms += [gen_geom(rng) for _ in range(400 if quick else 3000)]
    geoms += edge_geoms()
    pairs, ucms, bad = [], [], 0
    for g in geoms:
        u, ans = ucm_answer(pkg, g)
        pairs.append((geom_line(g), ans))
        ucms.append(u)
        if u is not None:
            msg = oracle_geom(g, u)
            if msg:
                bad += 1
                violation('view-factor oracle on UCMDef.__init__', case_json(g), msg,
                          '2a*wallConf = 1-roadConf, 0<roadConf<1, 0<wallConf<1/2, closure')
    chk.correspond(
        'UCMDef.__init__~ucmGeometry', 'C13', pairs,
        rule='fractionised UCMDef.__init__ vs Lean `ucmGeometry`: ten geometry attributes, exact; '
             'stub roots on random geometries, TRUE roots (both sides) on Pythagorean geometries '
             'with aspect 0.09..20; error class on degenerate inputs',
        classify=lambda line, impl: impl if impl.startswith('err') else (
            'pyth' if ' root=' in line else 'stub'))
    chk.direct('view-factor-oracle(UCMDef)', len(geoms), sum(1 for u in ucms if u is not None),
               'T0/T1 evaluated on the object the real constructor built: reciprocity on every '
               'geometry; positivity, bounds and closure where the true root is used',
               mismatches=bad, branches={k: sum(1 for g in geoms if g['kind'] == k)
                                         for k in ('pyth', 'stub', 'edge')})

    # ---------------------------------------------------------------- solar cases
    good_geoms = [g for g, u in zip(geoms, ucms) if u is not None and g['kind'] != 'edge' and
                  u.canAspect > 0]
    pyth_geoms = [g for g in good_geoms if g['kind'] == 'pyth']
    solars = load_corpus()
    n_corpus = len(solars)
    # energy grid: every Pythagorean aspect x albedo pairs x (overhead, two consistent suns)
    grid_alb = [(F(1, 10), F(1, 5)), (F(3, 10), F(3, 10)), (HALF, HALF), (F(0), F(0)), (F(1), F(1)),
                (F(9, 10), F(1, 10)), (F(2, 25), F(1, 4))]
    seen = set()
    for g in pyth_geoms:
        if g['root'] in seen:
            continue
        seen.add(g['root'])
        for alb in (grid_alb if not quick else grid_alb[:5]):
            for sk in ('overhead', 'consistent'):
                solars.append(gen_solar(rng, geom=g, sun_kind=sk, albedos=alb))
    for _ in range(700 if quick else 6000):
        geom = rng.choice(good_geoms) if rng.random() < 0.6 else None
        solars.append(gen_solar(rng, geom=geom))
    solars += edge_solars()
    sol_lines, sol_impl, sol_obs, sol_geo = [], [], [], []
    for c in solars:
        try:
            sc, geo = build_solar(pkg, c)
        except Exception as e:      # noqa
            raise core.Infra('cannot build solarcalcs stand-ins: %r' % (e,))
        if 'dir' not in c:
            fill_sun(rng, c, geo[0])
        err, o = run_solar(sc, c)
        sol_lines.append(solar_line(c, geo))
        sol_geo.append(geo)
        sol_obs.append(o)
        if err == 'bem-differ':
            violation('every archetype of the canyon receives the same wall / roof irradiance', case_json(c),
                      'walls %s, roofs %s' % ([str(b.wall.solRec) for b in sc.BEM], [str(b.roof.solRec) for b in sc.BEM]),
                      'one canyon wall irradiance and one roof irradiance for all entries (archetype list '
                      'aliasing: %s)' % c.get('alias', 'none'))
        if err:
            sol_impl.append(err)
        elif o['roof'] is None:     # no archetype: roof/wall values are not assigned
            sol_impl.append('ok nobem')
        else:
            sol_impl.append(solar_answer(o))
    # cases without archetypes are compared on the driver side after dropping roof/wall
    keep = [i for i, a in enumerate(sol_impl) if a != 'ok nobem']

    # which closure does the code implement?  (pre-run, not recorded)
    impl_lines = [sol_lines[i] for i in keep]
    spec_lines = [l.replace('cl=impl', 'cl=spec', 1) for l in impl_lines]
    pre = chk.lean_run('C13', impl_lines + spec_lines)
    m_impl, m_spec = pre[:len(keep)], pre[len(keep):]
    eq_impl = all(sol_impl[i] == m for i, m in zip(keep, m_impl))
    eq_spec = all(sol_impl[i] == m for i, m in zip(keep, m_spec))
    n_discr = sum(1 for x, y in zip(m_impl, m_spec) if x != y)
    closure = 'impl' if eq_impl else ('spec' if eq_spec else 'neither')
    chk.measurements['closure_implemented'] = closure
    chk.measurements['cases_where_impl_and_spec_models_differ'] = n_discr
    tie_lines = spec_lines if closure == 'spec' else impl_lines
    chk.correspond(
        'SolarCalcs.solarcalcs~solarcalcs[%s]' % ('spec' if closure == 'spec' else 'impl'), 'C13',
        [(l, sol_impl[i]) for l, i in zip(tie_lines, keep)],
        rule='fractionised solarcalcs (solarangles replaced by the case\'s zenith/tanzen/critOrient; '
             'real UCMDef/Element objects on 60% of cases; archetype lists of 0..3 entries, in 60% of the '
             'lists with >= 2 entries some entries own the SAME wall / roof object or are one object) vs Lean '
             '`solarcalcs`: 9 received/'
             'aggregate values and, in the sunlit branch, horSol, Kw, Kr, bldSol, roadSol, mr, mw; '
             'exact. Tried against the as-coded closure first, then the radiosity closure',
        classify=classify_solar)

    # T2/T4 oracle and energy statement on the real results
    bad = 0
    creation = []
    max_ratio, max_at = F(0), None
    n_energy = 0
    for c, geo, o in zip(solars, sol_geo, sol_obs):
        if o is None:
            continue
        msg = oracle_solar(c, geo, o)
        if msg:
            bad += 1
            violation('beam/received oracle on solarcalcs', case_json(c), msg,
                      'Kr+2aKw<=1, 0<=Kw<=1, exact split, received >= 0, zero without sun')
            continue
        e = energy(c, geo, o)
        if e is None:
            continue
        absorbed, entering, ar = e
        n_energy += 1
        if entering > 0 and absorbed / entering > max_ratio:
            max_ratio, max_at = absorbed / entering, dict(aspect=str(geo[0]), ralb=str(ar),
                                                          walb=str(c['walb']))
        if absorbed > entering:
            creation.append(dict(case=c, geo=geo[:3], ar=ar, walb=c['walb'],
                                 ratio=float(absorbed / entering) if entering else float('inf')))
    chk.direct('beam+received-oracle(solarcalcs)', len(solars), len(keep),
               'T2/T4 evaluated on the exact results of the real solarcalcs: budget, Kw range, '
               'first incidence = beam split + sky view, exact split when the unclamped share is '
               'a fraction, received >= 0 for admissible inputs, all-zero when dir+dif <= 0; wall / road / '
               'roof receive exactly first incidence + the reflections assigned to them, also when entries of '
               'the archetype list share their wall or roof object',
               mismatches=bad,
               branches=dict(
                   [(k, sum(1 for c in solars if c['sun_kind'] == k))
                    for k in ('overhead', 'consistent', 'random', 'nosun', 'edge')] +
                   [('alias:' + k, sum(1 for c in solars if c.get('alias', 'none') == k))
                    for k in ('none',) + ALIASES]))

    # ---------------------------------------------------------------- infra tie + T5/T6 oracle
    infs = [gen_infra(rng) for _ in range(400 if quick else 4000)]
    infs += [gen_infra(rng, 'recip', geom_u=u) for g, u in zip(geoms, ucms)
             if u is not None and g['kind'] == 'pyth'][:60]
    infs += near_infra_cases(rng, 60 if quick else 600, [u for g, u in zip(geoms, ucms)
                                                          if u is not None and g['kind'] == 'pyth'])
    pairs, bad = [], 0
    for c in infs:
        res = call_infra(pkg.infracalcs, c)
        pairs.append((infra_line(c), 'ok ' + frac_list(res)))
        msg = oracle_infra(pkg.infracalcs, c, res)
        if msg:
            bad += 1
            violation('long-wave oracle on infracalcs', case_json(c), msg,
                      'w*(road<-wall) + 2h*(wall<-road) = 0; zero flux at equilibrium')
    chk.correspond('infracalcs~infracalcs', 'C13', pairs,
                   rule='fractionised infracalcs vs Lean `infracalcs`: both returned fluxes, exact',
                   classify=lambda line, impl: 'ok')
    chk.direct('longwave-oracle(infracalcs)', len(infs), len(infs),
               'T5 (exchange terms isolated by zeroing the other emissivity, weighted by road '
               'width and 2 x height) and T6 (equilibrium) on the exact results of the real routine; family `near`: '
               'road and wall temperatures 1e-3 .. 1e-12 K apart (both signs), where the exchange is tiny but must '
               'still cancel exactly',
               mismatches=bad, branches={k: sum(1 for c in infs if c['kind'] == k)
                                         for k in ('random', 'equil', 'recip', 'near')})
    near_float_pass(chk, violation)

    # ---------------------------------------------------------------- live simulations
    live_stock_runs(chk, violation)
    canyon_albedo_consistency(chk, violation)
    custom_stock_consistency(chk, violation)
    kernel_circumstances(chk, pkg, violation)
    reuse_ties(chk, pkg, violation)
    dictionary_route(chk, violation)
    live_circumstances_13(chk, violation)

    # ---------------------------------------------------------------- float level
    nf, fproblems, fcreation, fstats = float_pass(chk, 16 if quick else 60)
    for msg, case in fproblems:
        violation('float-level oracle on the plain uwg package', case, msg, 'C13 clauses, tol 1e-9')
    chk.direct('float-oracle(uwg package, real libm + solarangles)', nf, fstats['n_sun'],
               'T1, T2, T4, T5, T6 with tolerance 1e-9 on the unmodified package over geometries x '
               'albedos x 7 sites x 5 dates x hours; absorbed/entering measured',
               mismatches=len(fproblems),
               branches={'sun': fstats['n_sun'], 'nosun': fstats['n_nosun'],
                         'sun-below-horizon': fstats['n_below_horizon']})
    chk.measurements['float'] = fstats
    chk.measurements['exact_energy_cases'] = n_energy
    chk.measurements['exact_max_absorbed_over_entering'] = float(max_ratio)
    chk.measurements['exact_max_at'] = max_at
    chk.measurements['energy_creation_cases'] = {'exact': len(creation), 'float': len(fcreation)}

    # ---------------------------------------------------------------- energy verdict
    allc = creation + fcreation
    if allc:
        # signature: Lean's cR / cB at exactly these inputs
        uniq = {}
        for cr in allc:
            a, rc, wc = cr['geo']
            key = frac_list([F(a), F(rc), F(wc), F(cr['ar']), F(cr['walb'])])
            uniq.setdefault(key, []).append(cr)
        keys = list(uniq)
        ans = chk.lean_run('C13', ['coef v=' + k for k in keys])
        unexplained = []
        for k, a in zip(keys, ans):
            vals = [F(x) for x in a.split('[')[1].rstrip(']').split(';')] if a.startswith('ok') else None
            if vals is None or not (vals[0] > 1 or vals[1] > 1):
                unexplained += uniq[k]
        finding = next((f for f in chk.known_findings() if f['id'] == FINDING_ID), None)
        if closure == 'impl' and not unexplained and finding is not None:
            chk.report_known(finding)
            chk.notes.append(
                'energy creation on %d exact and %d float inputs, all with Lean cR > 1 while '
                'solarcalcs equals Closure.impl exactly (max absorbed/entering exact %.4f, float '
                '%.4f)' % (len(creation), len(fcreation), float(max_ratio), fstats['max_ratio']))
        else:
            why = ('not recorded in known_findings.json' if finding is None else
                   'solarcalcs no longer equals the recorded as-coded closure (%s)' % closure
                   if closure != 'impl' else 'inputs with cR <= 1 and cB <= 1')
            for cr in (unexplained or allc)[:3]:
                cj = cr['case'] if cr['case'].get('level') == 'float' else case_json(cr['case'])
                violation('absorbed short-wave exceeds what enters the canyon (%s)' % why, cj,
                          'absorbed/entering = %.6f' % cr['ratio'], 'absorbed <= entering')
    elif closure == 'impl':
        chk.notes.append('as-coded closure confirmed but no energy-creating input in this run')

    chk.assumptions.append(
        'solarcalcs is exercised with solarangles replaced by the case\'s sun position (C12 is '
        'separate); `absorbed` uses the road albedo the closure itself uses; specification '
        'closure = radiosity fixed point (Model/Canyon.lean header)')
    chk.notes.append('corpus cases: %d' % n_corpus)


# ------------------------------------------------------------------------------- replay
def replay(chk, path):
    v = json.load(open(path))
    cs = v.get('case') or {}
    if not isinstance(cs, dict) or 'op' not in cs:
        print('replay: no concrete case stored (%s)' % v.get('theorem_or_tie'))
        return 1
    if cs.get('level') == 'float':
        print('replay: float-level case %s\n observed at record time: %s' % (cs, v.get('observed')))
        print(' re-run the float pass with: bin/check C13')
        return 1
    pkg = fracexec.load()
    c = case_from_json(cs)
    msg = None
    if c['op'] == 'ucm':
        u, ans = ucm_answer(pkg, c)
        print(geom_line(c), '->', ans)
        msg = oracle_geom(c, u) if u is not None else None
    elif c['op'] == 'solar':
        sc, geo = build_solar(pkg, c)
        err, o = run_solar(sc, c)
        print(solar_line(c, geo), '->', err or solar_answer(o))
        if o is not None:
            msg = oracle_solar(c, geo, o)
            e = energy(c, geo, o)
            if msg is None and e is not None and e[0] > e[1]:
                msg = 'absorbed/entering = %.6f > 1' % float(e[0] / e[1])
    elif c['op'] == 'infra':
        res = call_infra(pkg.infracalcs, c)
        print(infra_line(c), '->', frac_list(res))
        msg = oracle_infra(pkg.infracalcs, c, res)
    print('replay:', msg or 'property holds on this case now')
    return 1 if msg else 0
